#!/usr/bin/env python3
"""Cross-solver diff (DESIGN.md §2.2): replays a sample of the check-sat queries
of a solver transcript (written by a check run with VERIF_SOLVER_LOG=<file>,
one worker) through z3 4.8.12 (`z3`, one-shot, (set-logic ALL)) and cvc5, and
compares their verdicts with the primary solver's (z3 5.1, recorded in the
transcript as `; -> sat|unsat|unknown`).

usage: solver_diff.py <transcript> [every_nth=25] [max_queries=400]
A disagreement between two definite verdicts (sat vs unsat) is reported and
makes the exit status 1; unknown / timeout on a secondary solver is counted as
inconclusive for the diff only.
"""
import subprocess, sys, re, collections

def main():
    path = sys.argv[1]
    nth = int(sys.argv[2]) if len(sys.argv) > 2 else 25
    maxq = int(sys.argv[3]) if len(sys.argv) > 3 else 400
    frames = [[]]          # stack of lists of commands (declarations + assertions)
    queries = []           # (standalone text, primary verdict)
    pending = None
    count = 0
    for line in open(path, errors='replace'):
        line = line.rstrip('\n')
        if line.startswith('; ->'):
            if pending is not None:
                verdict = line[4:].strip()
                if verdict in ('sat', 'unsat', 'unknown'):
                    queries.append((pending, verdict))
                pending = None
            continue
        if line.startswith(';') or not line.strip():
            continue
        if line.startswith('(push'):
            frames.append([])
        elif line.startswith('(pop'):
            if len(frames) > 1:
                frames.pop()
        elif line.startswith('(check-sat'):
            count += 1
            if count % nth == 0 and len(queries) < maxq:
                body = '\n'.join(c for f in frames for c in f)
                pending = body
        elif line.startswith('(get-value') or line.startswith('(echo') or line.startswith('(set-option :print-success'):
            continue
        elif line.startswith('(set-option'):
            continue
        else:
            # the replay solver of the worker logs into the same file: its
            # copy of the prelude declarations must not be repeated
            if line.startswith('(declare-fun') and any(line in f for f in frames):
                continue
            frames[-1].append(line)
    print(f"{count} check-sat commands in the transcript, {len(queries)} sampled (every {nth}th)")
    stats = collections.Counter()
    bad = []
    for i, (body, primary) in enumerate(queries):
        for name, cmd, pre in (("z3-4.8.12", ["z3", "-in", "-T:20"], "(set-logic ALL)\n"),
                               ("cvc5", ["cvc5", "--lang=smt2", "--strings-exp", "--tlimit=20000"], "(set-logic ALL)\n")):
            text = pre + body + "\n(check-sat)\n"
            try:
                p = subprocess.run(cmd, input=text, capture_output=True, text=True, timeout=40)
                out = p.stdout.strip().split('\n')
                verdict = next((l for l in out if l in ('sat', 'unsat', 'unknown')), 'error' if '(error' in p.stdout else 'unknown')
            except subprocess.TimeoutExpired:
                verdict = 'timeout'
            stats[(name, primary, verdict)] += 1
            if verdict in ('sat', 'unsat') and primary in ('sat', 'unsat') and verdict != primary:
                bad.append((i, name, primary, verdict, text))
    for k in sorted(stats):
        print(f"  {k[0]:10s} primary={k[1]:7s} secondary={k[2]:8s} {stats[k]}")
    if bad:
        for i, name, a, b, text in bad[:5]:
            print(f"DISAGREEMENT query #{i}: z3-new says {a}, {name} says {b}\n{text[:2000]}\n")
        sys.exit(1)
    print("no disagreement between definite verdicts")

if __name__ == '__main__':
    main()
