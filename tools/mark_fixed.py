#!/usr/bin/env python3
# mark_fixed.py <finding id> <commit>  -- turns an open known finding into a fixed one
import json,sys
fid,commit=sys.argv[1],sys.argv[2]
k=json.load(open('/verif/known_findings.json'))
for e in k:
    if e['id']==fid:
        e['status']='fixed'; e['commit']=commit
        e['fixed']="fixed: property=%s %s %s"%(e['property'],commit,e['title'])
json.dump(k,open('/verif/known_findings.json','w'),indent=1)
