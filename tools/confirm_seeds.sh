#!/bin/bash
# Confirms sub-agent seeded changes myself, in one scratch worktree of /repo
# (outside /repo and /verif), and imports the confirmed ones to /verif/seeded.
# usage: confirm_seeds.sh <dir with Cxx/OUT/{A,B}>
set -u
SRC=${1:-/tmp/seed}
WT=/tmp/seedconfirm_wt
export GOFLAGS=-mod=mod GOPROXY=off GOSUMDB=off GOTOOLCHAIN=local
git -C /repo worktree remove --force $WT 2>/dev/null
git -C /repo worktree add -f --detach $WT HEAD >/dev/null 2>&1 || exit 2
for d in $SRC/C*/OUT/*/; do
  pid=$(basename $(dirname $(dirname $d))); var=$(basename $d); id=${pid}${var}
  # RENAME="A:C,B:D" stores variant A as <pid>C etc. (later rounds)
  outvar=$var
  for m in $(echo ${RENAME:-} | tr ',' ' '); do [ "${m%%:*}" = "$var" ] && outvar=${m##*:}; done
  outid=${pid}${outvar}
  dir=$(head -12 $d/demo_test.go | grep -o -m1 -E '(emitter|parser|lexer)/' | head -1)
  [ -z "$dir" ] && { echo "$id SKIP no target dir"; continue; }
  git -C $WT checkout -q -- . ; git -C $WT clean -fdq
  if ! git -C $WT apply $d/patch.diff 2>/dev/null; then echo "$id FAIL patch does not apply"; continue; fi
  if ! (cd $WT && go build ./... >/dev/null 2>&1); then echo "$id FAIL does not build"; continue; fi
  suite=$(cd $WT && go test -vet=off -count=1 ./... 2>&1 | grep -c -E '^(FAIL|---)' )
  cp $d/demo_test.go $WT/$dir/zz_seed_demo_test.go
  with=$(cd $WT && timeout 300 go test -vet=off -count=1 -run "TestSeeded${pid}${var}" ./$dir 2>&1 | tail -1 | awk '{print $1}')
  git -C $WT checkout -q -- . ; git -C $WT clean -fdq
  cp $d/demo_test.go $WT/$dir/zz_seed_demo_test.go
  without=$(cd $WT && timeout 300 go test -vet=off -count=1 -run "TestSeeded${pid}${var}" ./$dir 2>&1 | tail -1 | awk '{print $1}')
  rm -f $WT/$dir/zz_seed_demo_test.go
  verdict=REJECT
  if [ "$suite" = "0" ] && [ "$with" = "FAIL" ] && [ "$without" = "ok" ]; then verdict=CONFIRMED; fi
  echo "$id $verdict suite_failures=$suite demo_with=$with demo_without=$without dir=$dir"
  if [ $verdict = CONFIRMED ]; then
    out=/verif/seeded/$outid; mkdir -p $out
    cp $d/patch.diff $out/patch.diff; cp $d/demo_test.go $out/demo_test.go
    python3 - "$d/meta.json" "$out/meta.json" "$pid" "$var" "$dir" <<'P'
import json,sys
src,dst,pid,var,dir=sys.argv[1:]
try: m=json.load(open(src))
except Exception as e: m={"summary":"(agent meta.json unreadable: %s)"%e}
m.update({"property":pid,"variant":var,"demo_dir":dir,"demo_test_name":"TestSeeded%s%s"%(pid,var),
 "confirmed_by_me":"tools/confirm_seeds.sh in a scratch worktree: patch applies and builds; go test -vet=off -count=1 ./... green with the patch; demo test fails with the patch and passes without it"})
json.dump(m,open(dst,"w"),indent=1)
P
  fi
done
git -C /repo worktree remove --force $WT
