#!/bin/bash
# usage: try_seed.sh <seed id, e.g. C01A> <property> [quick|thorough]
# Applies a seeded change to /repo, runs the property's check, undoes it.
set -u
seed=$1; prop=$2; tier=${3:-quick}
cd /repo || exit 2
if [ -n "$(git status --porcelain)" ]; then echo "/repo is dirty"; exit 2; fi
git apply /verif/seeded/$seed/patch.diff || { echo "patch failed"; exit 2; }
trap 'git -C /repo checkout -- .' EXIT
cd /verif && timeout ${SEED_TIMEOUT:-1800} ./check $prop $tier 2>&1 | grep -E "VIOLATION|KNOWN-FINDING|CHECK-ERROR|^C[0-9]+ " | head -${SEED_LINES:-6}
echo "exit=${PIPESTATUS[0]}"
