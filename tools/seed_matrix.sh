#!/bin/bash
# Runs every seeded change (or those given as arguments) against the check of
# the property it breaks and appends to /verif/seeded/MATRIX.txt:
#   <seed> <property> <tier> exit=<code> :: <first violation / known-finding line>
# /repo is modified while this runs: do not run other checks concurrently.
# env: TIER (quick), PROP (override the property whose check is run)
cd /verif
tier=${TIER:-quick}
out=/verif/seeded/MATRIX.txt
seeds="$@"
[ -z "$seeds" ] && seeds=$(ls /verif/seeded | grep '^C')
for id in $seeds; do
  prop=${PROP:-${id:0:3}}
  [ -f /verif/seeded/$id/patch.diff ] || continue
  if [ -n "$(git -C /repo status --porcelain)" ]; then echo "/repo is dirty, stopping" >> $out; exit 2; fi
  if ! git -C /repo apply /verif/seeded/$id/patch.diff 2>/dev/null; then echo "$id $prop $tier PATCH-DOES-NOT-APPLY" >> $out; continue; fi
  log=$(timeout 1500 ./check $prop $tier 2>&1); code=$?
  git -C /repo checkout -- .
  first=$(echo "$log" | grep -m1 -A1 "^VIOLATION" | tail -1 | sed 's/^ *//' | cut -c1-220)
  [ -z "$first" ] && first=$(echo "$log" | grep -m1 -E "CHECK-ERROR|KNOWN-FINDING" | cut -c1-200)
  echo "$id $prop $tier exit=$code :: $first" >> $out
done
