#!/bin/bash
# Runs every seeded change against the quick check of the property it breaks
# (and optional extra properties) and writes /verif/seeded/MATRIX.txt.
# /repo is modified while this runs: do not run other checks concurrently.
cd /verif
out=/verif/seeded/MATRIX.txt
: > $out.tmp
for d in /verif/seeded/C*/; do
  id=$(basename $d); prop=${id:0:3}
  res=$(SEED_LINES=1 SEED_TIMEOUT=900 tools/try_seed.sh $id $prop ${1:-quick} 2>&1 | tail -1)
  first=$(cd /repo && git apply /verif/seeded/$id/patch.diff && cd /verif && ./check $prop ${1:-quick} 2>&1 | grep -m1 -A1 "^VIOLATION" | tail -1 | cut -c1-200; git -C /repo checkout -- .)
  echo "$id $prop $res :: $first" >> $out.tmp
done
mv $out.tmp $out
