#!/bin/bash
# Imports behaviour-preserving refactorings delivered by sub-agents
# (<dir>/R*/OUT/<X>/{patch.diff,meta.json}) into /verif/benign/<R><X>/ after
# confirming in a scratch worktree that the patch applies, builds and keeps the
# pinned tests green.
SRC=${1:-/tmp/ben}
WT=/tmp/benconfirm_wt
export GOFLAGS=-mod=mod GOPROXY=off GOSUMDB=off GOTOOLCHAIN=local
git -C /repo worktree remove --force $WT 2>/dev/null
git -C /repo worktree add -f --detach $WT HEAD >/dev/null 2>&1 || exit 2
for d in $SRC/R*/OUT/*/; do
  [ -f $d/patch.diff ] || continue
  id=$(basename $(dirname $(dirname $d)))$(basename $d)
  [ -d /verif/benign/$id ] && continue
  git -C $WT checkout -q -- . ; git -C $WT clean -fdq
  if ! git -C $WT apply $d/patch.diff 2>/dev/null; then echo "$id FAIL patch does not apply"; continue; fi
  if ! (cd $WT && go build ./... >/dev/null 2>&1); then echo "$id FAIL does not build"; continue; fi
  fails=$(cd $WT && go test -vet=off -count=1 ./... 2>&1 | grep -c -E '^(FAIL|---)')
  if [ "$fails" != "0" ]; then echo "$id FAIL suite"; continue; fi
  mkdir -p /verif/benign/$id; cp $d/patch.diff $d/meta.json /verif/benign/$id/ 2>/dev/null
  echo "$id imported"
done
git -C /repo worktree remove --force $WT
