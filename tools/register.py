#!/usr/bin/env python3
# register.py <pid> <design_ref> <technique> -- <level text> -- <level note>
import json,sys
args=sys.argv[1:]
pid,design_ref,technique=args[0],args[1],args[2]
rest=(" "+" ".join(args[3:])).split(" -- ")
text,note=rest[1].strip(),rest[2].strip()
m=json.load(open('/verif/MANIFEST.json'))
m['checks']=[c for c in m['checks'] if c['property_id']!=pid]
m['checks'].append({"property_id":pid,"quick_cmd":f"./check {pid} quick","thorough_cmd":f"./check {pid} thorough","evidence_file":f"/verif/evidence/{pid}.json",
  "replay_cmd_template":f"./check {pid} --replay {{path}}","engine":"gosym",
  "level_claimed":{"category":"other","text":text,"design_ref":design_ref},"level_note":note,"technique":technique})
m['checks'].sort(key=lambda c:c['property_id'])
m['not_applicable']=[n for n in m['not_applicable'] if n['property_id']!=pid]
for e in m['engines']:
    if pid not in e['serves_properties']: e['serves_properties'].append(pid); e['serves_properties'].sort()
json.dump(m,open('/verif/MANIFEST.json','w'),indent=1)
print("registered",pid)
