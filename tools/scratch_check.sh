#!/bin/bash
# Runs one check against a scratch worktree of /repo with a patch applied,
# without touching /repo or /verif's evidence (several can run in parallel).
# usage: scratch_check.sh <patch.diff | -> <property> [tier=quick]
# prints: exit=<code> :: <first violation / check-error line>
patch=$1; prop=$2; tier=${3:-quick}
[ "$patch" != "-" ] && patch=$(readlink -f "$patch")
export GOFLAGS=-mod=mod GOPROXY=off GOSUMDB=off GOTOOLCHAIN=local
S=$(mktemp -d /tmp/scr_XXXXXX)
trap 'git -C /repo worktree remove --force $S/repo >/dev/null 2>&1; rm -rf $S' EXIT
git -C /repo worktree add -f --detach $S/repo HEAD >/dev/null 2>&1 || { echo "exit=99 :: worktree failed"; exit 99; }
if [ "$patch" != "-" ]; then git -C $S/repo apply "$patch" 2>/dev/null || { echo "exit=98 :: PATCH-DOES-NOT-APPLY"; exit 98; }; fi
cp -r /verif/harness $S/harness; mkdir -p $S/out
sed -i "s#=> /repo#=> $S/repo#" $S/harness/go.mod
log=$(VERIF_SCRATCH=$S timeout ${TIMEOUT:-1800} ${PVCHECK:-/verif/bin/pvcheck} $prop $tier 2>&1); code=$?
first=$(echo "$log" | grep -m1 -A1 "^VIOLATION" | tail -1 | sed 's/^ *//' | cut -c1-220)
[ -z "$first" ] && first=$(echo "$log" | grep -m1 -E "CHECK-ERROR|KNOWN-FINDING" | cut -c1-200)
[ -n "$VERBOSE" ] && echo "$log" | tail -${VERBOSE}
echo "exit=$code :: $first"
exit $code
