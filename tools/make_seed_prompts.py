#!/usr/bin/env python3
"""Creates one scratch worktree of /repo and one prompt file per property for a
round of seeded changes produced by fresh sub-agents. The prompt contains only
the text of the property (id, title, statement, quantifier) - nothing from
/verif. usage: make_seed_prompts.py <dir, e.g. /tmp/seed3> [n_changes=2]"""
import json, os, subprocess, sys
root = sys.argv[1]
n = int(sys.argv[2]) if len(sys.argv) > 2 else 2
style = sys.argv[3] if len(sys.argv) > 3 else "clauses"
STYLE = {
 "clauses": "First read the statement clause by clause and the 'quantified over' text: each change must violate a DIFFERENT clause of the statement, or the same clause for a different region of the quantified input space, at a different code site. Prefer changes that only manifest for inputs away from the obvious ones: a particular nesting of two different constructs, the third or later element of a list, several scripts / statements in one file, a particular combination of the -optimize / line-marker / font / switch options with a particular input, unusual but legal token shapes, values at a boundary. State that leaks between two uses (a cache, a reused slice, a counter that is not reset) and cooperating edits at two sites are welcome.",
 "interactions": "Assume that a checker already explores small programs that use the property's feature on its own, in every simple position. Aim for what such a checker would miss: the change must only manifest when the property's feature INTERACTS with another feature of the language or tool - constants (const), poryswitch, AutoVar commands, inline text / format() / moves(), mapscripts with inline scripts, user labels and gotos, several top-level statements in one file in a particular order, line markers, lint mode, -optimize, CRLF or multi-byte input, comments - or only for the second / later occurrence of something in one file, or only at depth >= 2 of nesting. Model each change on a plausible maintenance activity: a performance optimisation (caching, early exit, avoiding an allocation), the first half of a new feature, a generalisation of a helper to a second caller, a clean-up that merges two similar code paths, a bug fix for a different issue that over-reaches.",
 "margins": "Assume that a checker already explores small and medium programs that use the property's feature alone and in combination with the other main features. Aim at the margins instead: (a) the LAST clauses of the statement and the last items of the 'quantified over' text, which get the least attention; (b) rarely used language forms - do...while, condition-less while, value(), defeated(), comparison operators other than ==, (global)/(local) modifiers, elif chains, nested parentheses and '!' in conditions, empty blocks, trailing commas, hex and negative numbers, multi-token operands, string-type prefixes, raw blocks, comments in odd places; (c) sizes just beyond the usual: the 4th or 5th element of a list, nesting depth 3, three scripts in a file, two mapscripts statements, two tables, long texts; (d) error paths: inputs that must be rejected (or must not be), the position an error is reported at, lint mode versus normal mode; (e) less central helper functions and rarely taken branches of the code the property is anchored in. Model each change on plausible maintenance: a refactoring of a helper, a 'simplification' of a rarely taken branch, tightening or loosening a validity check, a performance tweak in a loop, handling of a new edge case that disturbs an old one.",
 "boundaries": "Assume that a checker already explores small and medium programs thoroughly, including feature interactions. Aim at BOUNDARIES and ORDER: the change must be an off-by-one, a wrong comparison operator (< vs <=, == vs >=), a wrong initial value, a loop that starts or stops one element early or late, a first/last-element special case, or a wrong tie-break / ordering, so that behaviour differs ONLY at an edge: the first or the last element of a list, an empty or one-element list or block, exactly-fitting widths (line width == maxLineLength, with and without the cursor overlap), numLines == 1, multiplier 1 / 9999 / 10000, the var-id range edges (0x4000, 0x40FF, 0x8000, 0x8015) in comparisons, chunk ids 0 and 1, the first or last line of the file, column 0, a file that does not end in a newline, a file with only comments, a zero-length string or raw block, the first or last case of a switch or poryswitch, the first or last top-level statement, exactly two of something where one or three work. Every other input must behave exactly as before (the existing tests pass). Model each change on plausible maintenance: a loop rewritten with indices, a condition 'simplified', a slice re-sliced, an early exit added, a counter moved.",
}[style]
letters = "ABCDEF"[:n]
os.makedirs(root + "/prompts", exist_ok=True)
for l in open('/verif/properties.jsonl'):
    p = json.loads(l); pid = p['id']
    wt = f"{root}/{pid}"
    subprocess.run(["git", "-C", "/repo", "worktree", "add", "-f", "--detach", wt, "HEAD"], capture_output=True)
    txt = f"""You are helping to test a verification framework for the open-source project huderlem/poryscript (a small Go compiler from a high-level scripting language to Gen 3 Pokemon decomp assembly scripts). You have your own scratch git worktree of the project at {wt} (work ONLY there; never touch /repo or /verif; do not read anything under /verif or any other directory under /tmp). The Go toolchain works offline; run the existing tests with:  cd {wt} && go test -vet=off -count=1 ./emitter ./lexer ./parser   (all 42 existing tests pass on the unchanged tree).

Here is a semantic property of poryscript that should hold on the unchanged code:

  id: {pid}
  title: {p['title']}
  statement: {p['statement']}
  quantified over: {p['quantifier']['text']}

YOUR TASK: produce {n} independent, realistic source changes ({', '.join('"%s"' % c for c in letters)}) to the poryscript code (non-test .go files only), each of which BREAKS this property while the project still compiles AND all the existing tests still pass unchanged. Each change should look like a plausible bug a maintainer could introduce (a refactoring slip, a 'simplification', an optimisation, a half-finished feature), NOT sabotage. {STYLE} The changes must break the property in different ways at different code sites. Avoid the single most obvious one-line mistake at the most obvious site. Keep each change small (at most ~15 changed lines).

For each change X deliver, in directory {wt}/OUT/X/ :
  1. patch.diff   - a unified diff produced with `git -C {wt} diff` against the unchanged tree (only the source change, not the demo), applicable with `git apply` from the repo root.
  2. demo_test.go - a self-contained Go test file (state in a comment at its very top which package directory it must be copied into: emitter/ or parser/ or lexer/ - and use that package's name, or the external _test package name) with a test named TestSeeded{pid}X that FAILS with the change applied and PASSES on the unchanged tree. The test must check the property itself (behaviour), not merely a pinned string where avoidable.
  3. meta.json    - {{"property": "{pid}", "variant": "X", "summary": "<what was changed>", "needs": "<what specific input/sequence/combination is needed for it to manifest>", "files": ["<changed files>"], "verified": "<the commands you ran and what you observed>"}}
Also create {wt}/OUT/go.mod containing the two lines "module seedout" and "go 1.13" so that the OUT directory is not picked up by ./... .

Procedure for each change: (1) make the edit; (2) run the existing suite - it must pass; (3) copy the demo test in, run it - it must fail; (4) save patch.diff (without the demo file); (5) `git -C {wt} checkout -- . && git -C {wt} clean -fdq -e OUT` to restore the tree, copy the demo in again, confirm it passes on the unchanged tree, remove it. Leave the worktree clean (only OUT/ untracked). If after honest effort you can only produce fewer valid changes, deliver those and say so.

Reply with a short summary: for each change, what it is, what it needs to manifest, and confirmation of the three checks."""
    open(f'{root}/prompts/{pid}.txt', 'w').write(txt)
print("prompts written to", root + "/prompts")
