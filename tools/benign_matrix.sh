#!/bin/bash
# Runs every registered quick check against every behaviour-preserving
# refactoring under /verif/benign/<id>/patch.diff (scratch worktrees; /repo is
# not touched). Any result other than exit=0 is a false alarm (exit 1) or an
# encoder that could not follow the refactored code (exit 3; NOTE lines show
# undecided paths). Appends to /verif/benign/MATRIX.txt.
# usage: benign_matrix.sh [ids...]   env: JOBS (4), CHECKS ("C01 ... C20")
cd /verif
jobs=${JOBS:-4}
checks=${CHECKS:-"C01 C02 C03 C04 C05 C06 C07 C08 C09 C10 C11 C12 C13 C14 C15 C16 C17 C18 C19 C20"}
ids="$@"
[ -z "$ids" ] && ids=$(ls /verif/benign | grep -v MATRIX)
run_one() {
  id=$1; prop=$2
  log=$(VERBOSE=4 VERIF_WORKERS=${VERIF_WORKERS:-8} /verif/tools/scratch_check.sh /verif/benign/$id/patch.diff $prop quick 2>&1)
  r=$(echo "$log" | tail -1)
  note=$(echo "$log" | grep -m1 "^NOTE" | cut -c1-160)
  echo "$id $prop $r $note"
}
export -f run_one
for id in $ids; do for c in $checks; do echo "$id $c"; done; done | xargs -P $jobs -L1 bash -c 'run_one $0 $1' | sort >> /verif/benign/MATRIX.txt
