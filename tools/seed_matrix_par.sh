#!/bin/bash
# Parallel version of seed_matrix.sh: every seeded change is tried against the
# check of its own property in a scratch worktree (tools/scratch_check.sh), so
# /repo is never touched. Appends to /verif/seeded/MATRIX.txt.
# usage: seed_matrix_par.sh [seed ids...]   env: TIER (quick), JOBS (4), PROP (override)
cd /verif
tier=${TIER:-quick}; jobs=${JOBS:-4}
out=/verif/seeded/MATRIX.txt
seeds="$@"
[ -z "$seeds" ] && seeds=$(ls /verif/seeded | grep '^C')
run_one() {
  id=$1; tier=$2; prop=${PROP:-${id:0:3}}
  r=$(VERIF_WORKERS=${VERIF_WORKERS:-8} /verif/tools/scratch_check.sh /verif/seeded/$id/patch.diff $prop $tier | tail -1)
  echo "$id $prop $tier $r"
}
export -f run_one
echo $seeds | tr ' ' '\n' | xargs -P $jobs -I{} bash -c "run_one {} $tier" | sort >> $out
