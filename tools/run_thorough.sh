#!/bin/bash
# Runs every property's thorough tier once on the current tree and records
# exit code, summary line and wall time in /verif/thorough_results.txt.
cd /verif
out=/verif/thorough_results.txt
[ -n "$APPEND" ] || : > $out
for p in ${@:-C01 C02 C03 C04 C05 C06 C07 C08 C09 C10 C11 C12 C13 C14 C15 C16 C17 C18 C19 C20}; do
  s=$(date +%s)
  log=$(timeout 7200 ./check $p thorough 2>&1); code=$?
  e=$(date +%s)
  echo "$p exit=$code wall=$((e-s))s :: $(echo "$log" | grep -E "^$p thorough:|CHECK-ERROR" | tail -1 | cut -c1-260)" >> $out
  echo "$log" | grep -E "^VIOLATION|KNOWN-FINDING" | head -5 >> $out
done
