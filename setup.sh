#!/bin/sh
# Builds the checker from files on disk only (offline).
set -e
cd "$(dirname "$0")"
export GOFLAGS=-mod=mod GOPROXY=off GOSUMDB=off GOTOOLCHAIN=local
mkdir -p bin evidence replays
if [ -d engine ]; then (cd engine && go build -o ../bin/pvcheck ./cmd/pvcheck); fi
