// Package hz holds the harness entry points that the symbolic engine
// interprets together with the repository's packages. They are ordinary Go:
// the same functions are compiled natively by the replay helper.
package hz

import (
	"github.com/huderlem/poryscript/emitter"
	"github.com/huderlem/poryscript/lexer"
	"github.com/huderlem/poryscript/parser"
	"github.com/huderlem/poryscript/token"
)

// Options of one compilation.
type Options struct {
	Optimize    bool
	LineMarkers bool
	Path        string
	FontPath    string
	FontID      string
	MaxLen      int
	Lint        bool
	Switches    map[string]string
	Config      parser.CommandConfig
}

// StubFont / StubFontErr are what the engine's stub of parser.LoadFontConfig
// returns (see LoadFontStub).
var StubFont parser.FontConfig
var StubFontErr error

// LoadFontStub replaces parser.LoadFontConfig inside the engine.
func LoadFontStub(path string) (parser.FontConfig, error) {
	return StubFont, StubFontErr
}

// Compile runs the public pipeline.
func Compile(src string, o Options) (string, error) {
	l := lexer.New(src)
	var p *parser.Parser
	if o.Lint {
		p = parser.NewLintParser(l, o.Config)
	} else {
		p = parser.New(l, o.Config, o.FontPath, o.FontID, o.MaxLen, o.Switches)
	}
	prog, err := p.ParseProgram()
	if err != nil {
		return "", err
	}
	return emitter.New(prog, o.Optimize, o.LineMarkers, o.Path).Emit()
}

// AutoVar describes one autovar command for MkConfig.
type AutoVar struct {
	Name    string
	VarName string
	Pos     int // -1: use VarName
}

// MkConfig builds a command config.
func MkConfig(avs []AutoVar) parser.CommandConfig {
	cfg := parser.CommandConfig{AutoVarCommands: map[string]parser.AutoVarCommand{}}
	for _, a := range avs {
		c := parser.AutoVarCommand{VarName: a.VarName}
		if a.Pos >= 0 {
			pos := a.Pos
			c.VarNameArgPosition = &pos
		}
		cfg.AutoVarCommands[a.Name] = c
	}
	return cfg
}

// CompileSimple compiles with a config made of avs and the given switches
// (parallel key/value slices).
func CompileSimple(src string, optimize, lm bool, path string, avs []AutoVar, swKeys, swVals []string, lint bool, fontID string) (string, error) {
	var sw map[string]string
	if len(swKeys) > 0 {
		sw = map[string]string{}
		for i := range swKeys {
			sw[swKeys[i]] = swVals[i]
		}
	}
	StubFont, StubFontErr = parser.FontConfig{}, nil
	return Compile(src, Options{Optimize: optimize, LineMarkers: lm, Path: path, Switches: sw, Config: MkConfig(avs), Lint: lint, FontPath: "font_config.json", FontID: fontID})
}

// Lex returns all tokens of src up to and including EOF.
func Lex(src string) []token.Token {
	l := lexer.New(src)
	var toks []token.Token
	for {
		t := l.NextToken()
		toks = append(toks, t)
		if t.Type == token.EOF {
			return toks
		}
		if len(toks) > 100000 {
			return toks
		}
	}
}

// Format runs the real FormatText with a font table built from parallel
// slices (the engine passes symbolic widths).
func Format(text string, keys []string, widths []int, maxWidth, overlap, numLines int, fontID string, fontPresent bool) (string, error) {
	fc := parser.FontConfig{DefaultFontID: fontID, Fonts: map[string]parser.Fonts{}}
	if fontPresent {
		w := map[string]int{}
		for i, k := range keys {
			w[k] = widths[i]
		}
		fc.Fonts[fontID] = parser.Fonts{Widths: w}
	}
	return fc.FormatText(text, maxWidth, overlap, fontID, numLines)
}

// CompileFormat compiles src with a two-font config whose numeric fields are
// given (the engine passes symbolic integers) and the CLI-level defaults.
func CompileFormat(src string, cliFont string, cliMaxLen int, f1 [3]int, f2 [3]int) (string, error) {
	StubFont = parser.FontConfig{DefaultFontID: "font1", Fonts: map[string]parser.Fonts{
		"font1": {MaxLineLength: f1[0], NumLines: f1[1], CursorOverlapWidth: f1[2], Widths: map[string]int{"a": 1, " ": 1}},
		"font2": {MaxLineLength: f2[0], NumLines: f2[1], CursorOverlapWidth: f2[2], Widths: map[string]int{"a": 2, " ": 1}},
	}}
	StubFontErr = nil
	return Compile(src, Options{FontPath: "stub", FontID: cliFont, MaxLen: cliMaxLen})
}

// CompileFonts compiles src with an explicit font config (parallel slices
// per font; the engine may pass symbolic widths).
func CompileFonts(src string, defaultFont string, names []string, keys [][]string, widths [][]int, maxLen []int, numLines []int, optimize bool) (string, error) {
	fc := parser.FontConfig{DefaultFontID: defaultFont, Fonts: map[string]parser.Fonts{}}
	for i, n := range names {
		w := map[string]int{}
		for j, k := range keys[i] {
			w[k] = widths[i][j]
		}
		fc.Fonts[n] = parser.Fonts{Widths: w, MaxLineLength: maxLen[i], NumLines: numLines[i]}
	}
	StubFont, StubFontErr = fc, nil
	return Compile(src, Options{FontPath: "stub", Optimize: optimize})
}

// Format2 formats the same text twice with one FontConfig holding two fonts
// (first under font "f1", then under "f2") and returns the second result.
func Format2(text string, keys []string, w1 []int, w2 []int, maxWidth, overlap, numLines int) (string, error) {
	fc := parser.FontConfig{DefaultFontID: "f1", Fonts: map[string]parser.Fonts{}}
	m1, m2 := map[string]int{}, map[string]int{}
	for i, k := range keys {
		m1[k], m2[k] = w1[i], w2[i]
	}
	fc.Fonts["f1"] = parser.Fonts{Widths: m1}
	fc.Fonts["f2"] = parser.Fonts{Widths: m2}
	if _, err := fc.FormatText(text, maxWidth, overlap, "f1", numLines); err != nil {
		return "", err
	}
	return fc.FormatText(text, maxWidth, overlap, "f2", numLines)
}
