// native is the replay / cross-check helper: it runs the repository's real,
// natively compiled code on concrete inputs. One JSON request per line on
// stdin, one JSON response per line on stdout.
package main

import (
	"bufio"
	"encoding/json"
	"fmt"
	"os"

	"github.com/huderlem/poryscript/parser"
	"verif/harness/hz"
)

type Req struct {
	Op       string            `json:"op"` // compile | lex | format
	Src      string            `json:"src"`
	Optimize bool              `json:"optimize"`
	LM       bool              `json:"lm"`
	Path     string            `json:"path"`
	Lint     bool              `json:"lint"`
	AVs      []hz.AutoVar      `json:"avs"`
	Switches map[string]string `json:"switches"`
	FontPath string            `json:"font_path"`
	FontID   string            `json:"font_id"`
	MaxLen   int               `json:"max_len"`
	// format op
	Font     *parser.FontConfig `json:"font"`
	MaxWidth int                `json:"max_width"`
	Overlap  int                `json:"overlap"`
	NumLines int                `json:"num_lines"`
}

type Resp struct {
	Out    string      `json:"out"`
	Err    string      `json:"err"`
	IsErr  bool        `json:"is_err"`
	PErr   *parser.ParseError `json:"perr,omitempty"`
	Panic  string      `json:"panic"`
	Tokens interface{} `json:"tokens,omitempty"`
}

func handle(r Req) (resp Resp) {
	defer func() {
		if p := recover(); p != nil {
			resp.Panic = fmt.Sprint(p)
		}
	}()
	switch r.Op {
	case "compile":
		out, err := hz.Compile(r.Src, hz.Options{Optimize: r.Optimize, LineMarkers: r.LM, Path: r.Path, Lint: r.Lint,
			Config: hz.MkConfig(r.AVs), Switches: r.Switches, FontPath: r.FontPath, FontID: r.FontID, MaxLen: r.MaxLen})
		resp.Out = out
		if err != nil {
			resp.IsErr = true
			resp.Err = err.Error()
			if pe, ok := err.(parser.ParseError); ok {
				resp.PErr = &pe
			}
		}
	case "lex":
		resp.Tokens = hz.Lex(r.Src)
	case "format2":
		// the same text under font f1 first, then under f2 (one FontConfig)
		r.Font.FormatText(r.Src, r.MaxWidth, r.Overlap, "f1", r.NumLines)
		out, err := r.Font.FormatText(r.Src, r.MaxWidth, r.Overlap, "f2", r.NumLines)
		resp.Out = out
		if err != nil {
			resp.IsErr = true
			resp.Err = err.Error()
		}
	case "format":
		out, err := r.Font.FormatText(r.Src, r.MaxWidth, r.Overlap, r.FontID, r.NumLines)
		resp.Out = out
		if err != nil {
			resp.IsErr = true
			resp.Err = err.Error()
		}
	default:
		resp.Panic = "unknown op"
	}
	return
}

func main() {
	in := bufio.NewReaderSize(os.Stdin, 1<<20)
	out := bufio.NewWriter(os.Stdout)
	dec := json.NewDecoder(in)
	enc := json.NewEncoder(out)
	for {
		var r Req
		if err := dec.Decode(&r); err != nil {
			return
		}
		enc.Encode(handle(r))
		out.Flush()
	}
}
