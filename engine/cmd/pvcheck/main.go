// pvcheck runs one property check: pvcheck <property> <quick|thorough>
package main

import (
	"fmt"
	"os"
	"strconv"

	"verif/engine/checks"
)

func main() {
	if len(os.Args) < 3 {
		fmt.Fprintln(os.Stderr, "usage: pvcheck <property> <quick|thorough> | pvcheck <property> --replay <file>")
		os.Exit(2)
	}
	prop, tier := os.Args[1], os.Args[2]
	if tier == "--replay" {
		os.Exit(checks.ReplayFile(prop, os.Args[3]))
	}
	if t := os.Getenv("VERIF_TIER"); t != "" && tier == "" {
		tier = t
	}
	seed := int64(0)
	if s := os.Getenv("VERIF_SEED"); s != "" {
		seed, _ = strconv.ParseInt(s, 10, 64)
	}
	run, ok := checks.Checks[prop]
	if !ok {
		fmt.Fprintln(os.Stderr, "unknown property", prop)
		os.Exit(2)
	}
	env, err := checks.NewEnv(tier, seed)
	if err != nil {
		fmt.Fprintln(os.Stderr, "CHECK-ERROR:", err)
		os.Exit(3)
	}
	rep := checks.NewReport(prop, tier, seed)
	code := 3
	func() {
		defer env.Close()
		run(env, rep)
		code = rep.Finish(env)
	}()
	os.Exit(code)
}
