package main

import (
	"fmt"
	"os"

	"verif/engine/interp"
)

func main() {
	p, err := interp.LoadProgram("/verif/harness", []string{"./hz"}, "github.com/huderlem/poryscript")
	if err != nil {
		fmt.Fprintln(os.Stderr, err)
		os.Exit(3)
	}
	fmt.Println("loaded in", p.LoadTime)
	e := interp.NewEngine(p)
	fn := e.Func("verif/harness/hz", "CompileSimple")
	src := os.Args[1]
	b, _ := os.ReadFile(src)
	res := e.Call(nil, fn, string(b), true, true, "x.pory", interp.MkSlice(), interp.MkSlice(), interp.MkSlice(), false)
	t := interp.Tuple(res)
	fmt.Println(interp.ToString(t[0]))
	if !interp.IsNilIface(t[1]) {
		txt, _ := e.ErrorText(nil, t[1])
		fmt.Println("ERR:", interp.ToString(txt))
	}
}
