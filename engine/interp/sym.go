package interp

// Symbolic scalar values: SymInt, SymBool, and strings as ropes.
//
// SMT strings are used as *byte* strings: every SMT character stands for one
// byte (0..255) of the Go string, so str.len is Go's len().

import (
	"fmt"
	"go/types"
	"strconv"
	"strings"
	"unicode/utf8"
)

// SymInt is an integer whose value is the SMT Int term T.
type SymInt struct {
	T    string
	Kind types.BasicKind
}

// SymBool is a boolean whose value is the SMT Bool term T.
type SymBool struct {
	T string
}

// PartKind distinguishes rope parts.
type PartKind int

const (
	PLit  PartKind = iota // literal bytes
	PAtom                 // an SMT String variable (a symbolic string)
	PInt                  // decimal rendering of an SMT Int term (strconv.Itoa)
	PCell                 // one source character: symbolic rune of known byte width
	PCode                 // an identifier-like symbolic string represented by an SMT Int code (see codes.go)
)

// Part is one segment of a rope.
type Part struct {
	Kind  PartKind
	Lit   string // PLit: bytes; PAtom: SMT variable name; PInt: SMT Int term; PCell: SMT Int term of the rune
	Width int    // PCell: byte width (1..4)
}

// Rope is a symbolic string: the concatenation of its parts. Invariant: at
// least one part is not a literal and no two adjacent parts are literals, no
// literal part is empty. Ropes are immutable.
type Rope struct {
	Parts []Part
}

func isStr(v value) bool {
	switch v.(type) {
	case string, *Rope:
		return true
	}
	return false
}

func partsOf(v value) []Part {
	switch v := v.(type) {
	case string:
		if v == "" {
			return nil
		}
		return []Part{{Kind: PLit, Lit: v}}
	case *Rope:
		return v.Parts
	}
	panic(fmt.Sprintf("partsOf: not a string value: %T", v))
}

// mkRope normalises a part list into a value (string or *Rope).
func mkRope(parts []Part) value {
	out := make([]Part, 0, len(parts))
	sym := false
	for _, p := range parts {
		if p.Kind == PLit {
			if p.Lit == "" {
				continue
			}
			if n := len(out); n > 0 && out[n-1].Kind == PLit {
				out[n-1].Lit += p.Lit
				continue
			}
		} else {
			sym = true
		}
		out = append(out, p)
	}
	if !sym {
		if len(out) == 0 {
			return ""
		}
		return out[0].Lit
	}
	return &Rope{Parts: out}
}

func ropeConcat(xs ...value) value {
	var parts []Part
	for _, x := range xs {
		parts = append(parts, partsOf(x)...)
	}
	return mkRope(parts)
}

// AtomRope makes a rope consisting of one atom.
func AtomRope(name string) *Rope { return &Rope{Parts: []Part{{Kind: PAtom, Lit: name}}} }

// IntRope makes a rope rendering an Int term in decimal.
func IntRope(term string) *Rope { return &Rope{Parts: []Part{{Kind: PInt, Lit: term}}} }

// smtStrLit renders bytes as an SMT-LIB string literal (one char per byte).
func smtStrLit(s string) string {
	var sb strings.Builder
	sb.WriteByte('"')
	for i := 0; i < len(s); i++ {
		b := s[i]
		switch {
		case b == '"':
			sb.WriteString(`""`)
		case b == '\\':
			sb.WriteString(`\u{5c}`)
		case b >= 0x20 && b < 0x7f:
			sb.WriteByte(b)
		default:
			fmt.Fprintf(&sb, `\u{%x}`, b)
		}
	}
	sb.WriteByte('"')
	return sb.String()
}

func itoaTerm(t string) string {
	return fmt.Sprintf("(ite (< %s 0) (str.++ \"-\" (str.from_int (- %s))) (str.from_int %s))", t, t, t)
}

func partTerm(p Part) string {
	switch p.Kind {
	case PLit:
		return smtStrLit(p.Lit)
	case PAtom:
		return p.Lit
	case PInt:
		return itoaTerm(p.Lit)
	case PCell:
		return cellTerm(p)
	case PCode:
		panic(Inconclusive{"string term needed for the Int-coded atom " + p.Lit})
	}
	panic("partTerm")
}

// cellTerm renders a symbolic character as its UTF-8 byte string. Only the
// 1-byte case has an exact SMT rendering; wider cells are rendered through an
// uninterpreted encoding function that is injective per width.
func cellTerm(p Part) string {
	if p.Width == 1 {
		return fmt.Sprintf("(str.from_code %s)", p.Lit)
	}
	return fmt.Sprintf("(utf8enc%d %s)", p.Width, p.Lit)
}

// StrTerm returns the SMT String term of a string value.
func StrTerm(v value) string {
	parts := partsOf(v)
	switch len(parts) {
	case 0:
		return `""`
	case 1:
		return partTerm(parts[0])
	}
	var sb strings.Builder
	sb.WriteString("(str.++")
	for _, p := range parts {
		sb.WriteByte(' ')
		sb.WriteString(partTerm(p))
	}
	sb.WriteByte(')')
	return sb.String()
}

func partLenTerm(p Part) (int, string) {
	switch p.Kind {
	case PLit:
		return len(p.Lit), ""
	case PCell:
		return p.Width, ""
	case PAtom:
		return 0, fmt.Sprintf("(str.len %s)", p.Lit)
	case PInt:
		return 0, fmt.Sprintf("(str.len %s)", itoaTerm(p.Lit))
	case PCode:
		return 0, fmt.Sprintf("(clen %s)", p.Lit)
	}
	panic("partLenTerm")
}

// ropeLen returns len(v) as int or SymInt.
func ropeLen(v value) value {
	n := 0
	var terms []string
	for _, p := range partsOf(v) {
		k, t := partLenTerm(p)
		n += k
		if t != "" {
			terms = append(terms, t)
		}
	}
	if len(terms) == 0 {
		return n
	}
	if n != 0 {
		terms = append(terms, strconv.Itoa(n))
	}
	if len(terms) == 1 {
		return SymInt{T: terms[0], Kind: types.Int}
	}
	return SymInt{T: "(+ " + strings.Join(terms, " ") + ")", Kind: types.Int}
}

func samePart(a, b Part) bool { return a == b }

// ropeEq compares two string values; the result is a bool when it can be
// decided structurally and a SymBool otherwise.
func ropeEq(x, y value) value {
	if xs, ok := x.(string); ok {
		if ys, ok := y.(string); ok {
			return xs == ys
		}
	}
	a, b := partsOf(x), partsOf(y)
	// strip common prefix parts / literal prefixes
	for len(a) > 0 && len(b) > 0 {
		if samePart(a[0], b[0]) {
			a, b = a[1:], b[1:]
			continue
		}
		if a[0].Kind == PLit && b[0].Kind == PLit {
			la, lb := a[0].Lit, b[0].Lit
			n := len(la)
			if len(lb) < n {
				n = len(lb)
			}
			if la[:n] != lb[:n] {
				return false
			}
			a = append([]Part{{Kind: PLit, Lit: la[n:]}}, a[1:]...)
			b = append([]Part{{Kind: PLit, Lit: lb[n:]}}, b[1:]...)
			if a[0].Lit == "" {
				a = a[1:]
			}
			if b[0].Lit == "" {
				b = b[1:]
			}
			continue
		}
		break
	}
	for len(a) > 0 && len(b) > 0 {
		la, lb := a[len(a)-1], b[len(b)-1]
		if samePart(la, lb) {
			a, b = a[:len(a)-1], b[:len(b)-1]
			continue
		}
		if la.Kind == PLit && lb.Kind == PLit {
			sa, sb := la.Lit, lb.Lit
			n := len(sa)
			if len(sb) < n {
				n = len(sb)
			}
			if sa[len(sa)-n:] != sb[len(sb)-n:] {
				return false
			}
			a = append(append([]Part{}, a[:len(a)-1]...), Part{Kind: PLit, Lit: sa[:len(sa)-n]})
			b = append(append([]Part{}, b[:len(b)-1]...), Part{Kind: PLit, Lit: sb[:len(sb)-n]})
			if a[len(a)-1].Lit == "" {
				a = a[:len(a)-1]
			}
			if b[len(b)-1].Lit == "" {
				b = b[:len(b)-1]
			}
			continue
		}
		break
	}
	if len(a) == 0 && len(b) == 0 {
		return true
	}
	// One side empty: the other must be the empty string.
	minLen := func(ps []Part) int {
		n := 0
		for _, p := range ps {
			switch p.Kind {
			case PLit:
				n += len(p.Lit)
			case PCell:
				n += p.Width
			case PInt, PCode:
				n++
			}
		}
		return n
	}
	if len(a) == 0 && minLen(b) > 0 || len(b) == 0 && minLen(a) > 0 {
		return false
	}
	if r, ok := cellEq(a, b); ok {
		return r
	}
	if r, ok := codeEq(a, b); ok {
		return r
	}
	// decimal renderings of integers: injective
	if len(a) == 1 && len(b) == 1 {
		x, y := a[0], b[0]
		if x.Kind == PInt && y.Kind == PInt {
			return SymBool{T: fmt.Sprintf("(= %s %s)", x.Lit, y.Lit)}
		}
		if y.Kind == PInt {
			x, y = y, x
		}
		if x.Kind == PInt && y.Kind == PLit {
			if n, err := strconv.ParseInt(y.Lit, 10, 64); err == nil && strconv.FormatInt(n, 10) == y.Lit {
				return SymBool{T: fmt.Sprintf("(= %s %s)", x.Lit, intLit(n))}
			}
			return false
		}
	}
	// character sets: a decimal rendering consists of digits and '-', an
	// identifier-coded atom of identifier characters; if every part of one side
	// has such a known character set and the other side contains a literal
	// character outside their union, the strings differ
	if charsetExcludes(a, b) || charsetExcludes(b, a) {
		return false
	}
	ta, tb := StrTerm(mkRope(a)), StrTerm(mkRope(b))
	return SymBool{T: fmt.Sprintf("(= %s %s)", ta, tb)}
}

// charsetExcludes reports whether all parts of a have a known character set
// and b contains a literal byte outside the union of those sets.
func charsetExcludes(a, b []Part) bool {
	var allowed [256]bool
	for _, p := range a {
		switch p.Kind {
		case PLit:
			for i := 0; i < len(p.Lit); i++ {
				allowed[p.Lit[i]] = true
			}
		case PInt:
			for c := byte('0'); c <= '9'; c++ {
				allowed[c] = true
			}
			allowed['-'] = true
		case PCode:
			if strings.HasPrefix(p.Lit, "cT_") {
				return false
			}
			for c := 0; c < 256; c++ {
				if c == '_' || c >= '0' && c <= '9' || c >= 'A' && c <= 'Z' || c >= 'a' && c <= 'z' {
					allowed[c] = true
				}
			}
		default:
			return false
		}
	}
	for _, p := range b {
		if p.Kind == PLit {
			for i := 0; i < len(p.Lit); i++ {
				if !allowed[p.Lit[i]] {
					return true
				}
			}
		}
	}
	return false
}

// ---- boolean / integer term helpers

func boolTerm(v value) string {
	switch v := v.(type) {
	case bool:
		if v {
			return "true"
		}
		return "false"
	case SymBool:
		return v.T
	}
	panic(fmt.Sprintf("boolTerm: %T", v))
}

func mkBool(t string) value {
	switch t {
	case "true":
		return true
	case "false":
		return false
	}
	return SymBool{T: t}
}

func notTerm(t string) string {
	switch t {
	case "true":
		return "false"
	case "false":
		return "true"
	}
	if strings.HasPrefix(t, "(not ") && balancedTail(t[5:]) {
		return t[5 : len(t)-1]
	}
	return "(not " + t + ")"
}

// balancedTail reports whether s is "<one sexpr>)".
func balancedTail(s string) bool {
	depth := 0
	inStr := false
	for i := 0; i < len(s); i++ {
		c := s[i]
		if inStr {
			if c == '"' {
				inStr = false
			}
			continue
		}
		switch c {
		case '"':
			inStr = true
		case '(':
			depth++
		case ')':
			if depth == 0 {
				return i == len(s)-1
			}
			depth--
			if depth == 0 && i != len(s)-2 {
				return false
			}
		case ' ':
			if depth == 0 {
				return false
			}
		}
	}
	return false
}

func andTerm(ts ...string) string {
	var out []string
	for _, t := range ts {
		if t == "false" {
			return "false"
		}
		if t != "true" {
			out = append(out, t)
		}
	}
	switch len(out) {
	case 0:
		return "true"
	case 1:
		return out[0]
	}
	return "(and " + strings.Join(out, " ") + ")"
}

func orTerm(ts ...string) string {
	var out []string
	for _, t := range ts {
		if t == "true" {
			return "true"
		}
		if t != "false" {
			out = append(out, t)
		}
	}
	switch len(out) {
	case 0:
		return "false"
	case 1:
		return out[0]
	}
	return "(or " + strings.Join(out, " ") + ")"
}

// And, Or, Not are exported term helpers.
func And(ts ...string) string { return andTerm(ts...) }
func Or(ts ...string) string  { return orTerm(ts...) }
func Not(t string) string     { return notTerm(t) }

func isSymIntOperand(v value) bool {
	_, ok := v.(SymInt)
	return ok
}

func intLit(n int64) string {
	if n < 0 {
		return fmt.Sprintf("(- %d)", -n)
	}
	return strconv.FormatInt(n, 10)
}

// IntLit renders an integer as an SMT literal.
func IntLit(n int64) string { return intLit(n) }

func intTerm(v value) string {
	if s, ok := v.(SymInt); ok {
		return s.T
	}
	return intLit(asInt64(v))
}

func intKind(v value) types.BasicKind {
	switch v := v.(type) {
	case SymInt:
		return v.Kind
	case int:
		return types.Int
	case int8:
		return types.Int8
	case int16:
		return types.Int16
	case int32:
		return types.Int32
	case int64:
		return types.Int64
	case uint:
		return types.Uint
	case uint8:
		return types.Uint8
	case uint16:
		return types.Uint16
	case uint32:
		return types.Uint32
	case uint64:
		return types.Uint64
	}
	return types.Int
}

// StrLit is the exported SMT string literal renderer.
func StrLit(s string) string { return smtStrLit(s) }

// cellEq compares part lists made only of literals and symbolic characters:
// they have known byte lengths, so equality is a conjunction of character
// equalities.
func cellEq(a, b []Part) (value, bool) {
	hasCell := false
	for _, ps := range [][]Part{a, b} {
		for _, p := range ps {
			switch p.Kind {
			case PLit:
			case PCell:
				hasCell = true
			default:
				return nil, false
			}
		}
	}
	if !hasCell {
		return nil, false
	}
	type unit struct {
		sym   string // cell term ("" for a concrete rune)
		r     rune
		width int
	}
	expand := func(ps []Part) ([]unit, bool) {
		var us []unit
		for _, p := range ps {
			if p.Kind == PCell {
				us = append(us, unit{sym: p.Lit, width: p.Width})
				continue
			}
			for i := 0; i < len(p.Lit); {
				r, n := utf8.DecodeRuneInString(p.Lit[i:])
				if r == utf8.RuneError && n <= 1 {
					return nil, false
				}
				us = append(us, unit{r: r, width: n})
				i += n
			}
		}
		return us, true
	}
	ua, ok1 := expand(a)
	ub, ok2 := expand(b)
	if !ok1 || !ok2 {
		return nil, false
	}
	if len(ua) != len(ub) {
		return false, true
	}
	var terms []string
	for i := range ua {
		x, y := ua[i], ub[i]
		if x.width != y.width {
			return false, true
		}
		switch {
		case x.sym == "" && y.sym == "":
			if x.r != y.r {
				return false, true
			}
		case x.sym != "" && y.sym != "":
			if x.sym != y.sym {
				terms = append(terms, fmt.Sprintf("(= %s %s)", x.sym, y.sym))
			}
		case x.sym != "":
			terms = append(terms, fmt.Sprintf("(= %s %d)", x.sym, y.r))
		default:
			terms = append(terms, fmt.Sprintf("(= %s %d)", y.sym, x.r))
		}
	}
	return mkBool(andTerm(terms...)), true
}
