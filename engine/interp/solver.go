package interp

// A pipe to one SMT solver process (z3 5.x, "-in"), used incrementally.

import (
	"bufio"
	"fmt"
	"io"
	"os"
	"os/exec"
	"strings"
	"sync/atomic"
	"time"
)

// Result of a check-sat.
type Result int

const (
	Unsat Result = iota
	Sat
	Unknown
)

func (r Result) String() string { return [...]string{"unsat", "sat", "unknown"}[r] }

// Solver is one solver process.
type Solver struct {
	cmd     *exec.Cmd
	in      io.WriteCloser
	out     *bufio.Reader
	Log     io.Writer // optional transcript
	Queries int
	NSat    int
	NUnsat  int
	NUnk    int
	Time    time.Duration
	depth   int
	Bin     string
	Timeout int // ms per query
	Errors  []string
	// hung is set by the watchdog when the process did not answer within
	// its own per-query timeout plus 10 s and was killed
	hung  int32
	Hangs int
}

// guard arms a wall-clock watchdog for one exchange with the solver: z3's
// soft timeout is not honoured by every procedure (seen with string
// constraints), and a solver that never answers would hang the check. When it
// fires the process is killed; the pending read fails, the process is
// restarted with empty scopes and the current path ends as inconclusive.
func (s *Solver) guard() func() {
	d := time.Duration(s.Timeout)*time.Millisecond + 10*time.Second
	cmd := s.cmd
	t := time.AfterFunc(d, func() {
		atomic.StoreInt32(&s.hung, 1)
		if cmd != nil && cmd.Process != nil {
			cmd.Process.Kill()
		}
	})
	return func() { t.Stop() }
}

// SolverBin is the solver binary used by NewSolver.
var SolverBin = "z3-new"

const prelude = `(set-option :print-success false)
(declare-fun utf8enc2 (Int) String)
(declare-fun utf8enc3 (Int) String)
(declare-fun utf8enc4 (Int) String)
(declare-fun uIsLetter (Int) Bool)
(declare-fun uIsDigit (Int) Bool)
(declare-fun uIsSpace (Int) Bool)
(declare-fun clen (Int) Int)
(declare-fun cfirst (Int) Int)
`

// NewSolver starts a solver process.
func NewSolver(timeoutMs int) (*Solver, error) {
	bin := SolverBin
	if b := os.Getenv("VERIF_SOLVER"); b != "" {
		bin = b
	}
	s := &Solver{Bin: bin, Timeout: timeoutMs}
	if lf := os.Getenv("VERIF_SOLVER_LOG"); lf != "" {
		f, _ := os.OpenFile(lf, os.O_CREATE|os.O_WRONLY|os.O_APPEND, 0o644)
		s.Log = f
	}
	if err := s.start(); err != nil {
		return nil, err
	}
	return s, nil
}

func (s *Solver) start() error {
	args := []string{"-in"}
	if strings.Contains(s.Bin, "cvc5") {
		args = []string{"--incremental", "--strings-exp", "--lang=smt2", fmt.Sprintf("--tlimit-per=%d", s.Timeout)}
	} else {
		args = append(args, fmt.Sprintf("-t:%d", s.Timeout))
	}
	cmd := exec.Command(s.Bin, args...)
	in, err := cmd.StdinPipe()
	if err != nil {
		return err
	}
	out, err := cmd.StdoutPipe()
	if err != nil {
		return err
	}
	cmd.Stderr = os.Stderr
	if err := cmd.Start(); err != nil {
		return err
	}
	s.cmd, s.in, s.out = cmd, in, bufio.NewReaderSize(out, 1<<16)
	s.depth = 0
	if strings.Contains(s.Bin, "cvc5") {
		s.send("(set-logic ALL)")
	}
	s.send(prelude)
	return nil
}

// Close terminates the solver.
func (s *Solver) Close() {
	if s.cmd != nil {
		s.in.Close()
		s.cmd.Process.Kill()
		s.cmd.Wait()
		s.cmd = nil
	}
}

// Restart kills and restarts the process (all scopes are lost).
func (s *Solver) Restart() error {
	s.Close()
	return s.start()
}

func (s *Solver) send(cmd string) {
	if s.Log != nil {
		fmt.Fprintln(s.Log, cmd)
	}
	io.WriteString(s.in, cmd)
	io.WriteString(s.in, "\n")
}

// Push opens a scope.
func (s *Solver) Push() { s.send("(push 1)"); s.depth++ }

// Pop closes a scope.
func (s *Solver) Pop() {
	if s.depth == 0 {
		return // the process was restarted inside this scope
	}
	s.send("(pop 1)")
	s.depth--
}

// Depth is the current scope depth.
func (s *Solver) Depth() int { return s.depth }

// Assert adds an assertion in the current scope.
func (s *Solver) Assert(t string) { s.send("(assert " + t + ")") }

// Declare declares a constant.
func (s *Solver) Declare(name, sort string) {
	s.send(fmt.Sprintf("(declare-const %s %s)", name, sort))
}

// Raw sends a raw command that produces no output.
func (s *Solver) Raw(cmd string) { s.send(cmd) }

func (s *Solver) readLine() string {
	line, err := s.out.ReadString('\n')
	if err != nil {
		if atomic.LoadInt32(&s.hung) == 1 {
			atomic.StoreInt32(&s.hung, 0)
			s.Hangs++
			s.NUnk++
			if s.cmd != nil {
				s.cmd.Wait()
				s.cmd = nil
			}
			if e := s.start(); e != nil {
				panic(EngineError{"solver restart failed: " + e.Error()})
			}
			panic(Inconclusive{"the solver did not answer within its timeout plus 10 s (killed and restarted)"})
		}
		panic(EngineError{"solver pipe closed: " + err.Error()})
	}
	return strings.TrimRight(line, "\r\n")
}

// Check runs check-sat in the current scope.
func (s *Solver) Check() Result {
	start := time.Now()
	defer s.guard()()
	s.send("(check-sat)")
	var r Result
	for {
		line := s.readLine()
		if s.Log != nil {
			fmt.Fprintln(s.Log, "; ->", line)
		}
		switch {
		case line == "sat":
			r = Sat
			s.NSat++
		case line == "unsat":
			r = Unsat
			s.NUnsat++
		case line == "unknown" || line == "timeout":
			r = Unknown
			s.NUnk++
		case strings.HasPrefix(line, "(error"):
			s.Errors = append(s.Errors, line)
			// An error line precedes the verdict (or replaces it); the
			// result is inconclusive in any case. Drain the verdict if any.
			r = Unknown
			s.NUnk++
			s.Queries++
			s.Time += time.Since(start)
			s.syncAfterError()
			return r
		case line == "":
			continue
		default:
			s.Errors = append(s.Errors, "unexpected solver output: "+line)
			continue
		}
		break
	}
	s.Queries++
	s.Time += time.Since(start)
	if s.Log != nil {
		fmt.Fprintf(s.Log, "; time %v\n", time.Since(start))
	}
	return r
}

// syncAfterError resynchronises the output stream with an echo marker.
func (s *Solver) syncAfterError() {
	s.send(`(echo "SYNCMARK")`)
	for {
		line := s.readLine()
		if strings.Contains(line, "SYNCMARK") {
			return
		}
	}
}

// GetValues returns the model values of the given terms (after a Sat).
func (s *Solver) GetValues(terms []string) map[string]string {
	res := map[string]string{}
	if len(terms) == 0 {
		return res
	}
	defer s.guard()()
	s.send("(get-value (" + strings.Join(terms, " ") + "))")
	// read one balanced s-expression
	var sb strings.Builder
	depth, started := 0, false
	inStr := false
	for !started || depth > 0 {
		line := s.readLine()
		if strings.HasPrefix(line, "(error") {
			s.Errors = append(s.Errors, line)
			return res
		}
		for i := 0; i < len(line); i++ {
			c := line[i]
			if inStr {
				if c == '"' {
					inStr = false
				}
				continue
			}
			switch c {
			case '"':
				inStr = true
			case '(':
				depth++
				started = true
			case ')':
				depth--
			}
		}
		sb.WriteString(line)
		sb.WriteByte('\n')
	}
	sx := parseSexpr(sb.String())
	for _, pair := range sx.list {
		if len(pair.list) == 2 {
			res[pair.list[0].String()] = pair.list[1].String()
		}
	}
	return res
}

type sexpr struct {
	atom string
	list []*sexpr
	isL  bool
}

func (s *sexpr) String() string {
	if !s.isL {
		return s.atom
	}
	parts := make([]string, len(s.list))
	for i, e := range s.list {
		parts[i] = e.String()
	}
	return "(" + strings.Join(parts, " ") + ")"
}

func parseSexpr(src string) *sexpr {
	pos := 0
	var parse func() *sexpr
	skip := func() {
		for pos < len(src) && (src[pos] == ' ' || src[pos] == '\n' || src[pos] == '\t' || src[pos] == '\r') {
			pos++
		}
	}
	parse = func() *sexpr {
		skip()
		if pos >= len(src) {
			return &sexpr{}
		}
		if src[pos] == '(' {
			pos++
			l := &sexpr{isL: true}
			for {
				skip()
				if pos >= len(src) {
					return l
				}
				if src[pos] == ')' {
					pos++
					return l
				}
				l.list = append(l.list, parse())
			}
		}
		if src[pos] == '"' {
			start := pos
			pos++
			for pos < len(src) {
				if src[pos] == '"' {
					if pos+1 < len(src) && src[pos+1] == '"' {
						pos += 2
						continue
					}
					pos++
					break
				}
				pos++
			}
			return &sexpr{atom: src[start:pos]}
		}
		start := pos
		for pos < len(src) && !strings.ContainsRune(" \n\t\r()", rune(src[pos])) {
			pos++
		}
		return &sexpr{atom: src[start:pos]}
	}
	return parse()
}

// ParseIntValue parses an SMT integer value such as "5" or "(- 5)".
func ParseIntValue(v string) (int64, bool) {
	v = strings.TrimSpace(v)
	neg := false
	if strings.HasPrefix(v, "(-") {
		neg = true
		v = strings.TrimSpace(strings.TrimSuffix(strings.TrimPrefix(v, "(-"), ")"))
	}
	var n int64
	if _, err := fmt.Sscanf(v, "%d", &n); err != nil {
		return 0, false
	}
	if neg {
		n = -n
	}
	return n, true
}

// ParseStrValue decodes an SMT string literal (z3 \u{..} escapes) into bytes.
func ParseStrValue(v string) (string, bool) {
	v = strings.TrimSpace(v)
	if len(v) < 2 || v[0] != '"' || v[len(v)-1] != '"' {
		return "", false
	}
	v = v[1 : len(v)-1]
	var out []byte
	for i := 0; i < len(v); i++ {
		c := v[i]
		if c == '"' && i+1 < len(v) && v[i+1] == '"' {
			out = append(out, '"')
			i++
			continue
		}
		if c == '\\' && i+2 < len(v) && v[i+1] == 'u' && v[i+2] == '{' {
			j := strings.IndexByte(v[i:], '}')
			if j > 0 {
				var code int
				fmt.Sscanf(v[i+3:i+j], "%x", &code)
				if code < 256 {
					out = append(out, byte(code))
				} else {
					out = append(out, []byte(string(rune(code)))...)
				}
				i += j
				continue
			}
		}
		if c == '\\' && i+5 < len(v) && v[i+1] == 'u' {
			var code int
			if _, err := fmt.Sscanf(v[i+2:i+6], "%x", &code); err == nil {
				out = append(out, byte(code))
				i += 5
				continue
			}
		}
		out = append(out, c)
	}
	return string(out), true
}
