package interp

// Trusted models of the standard-library functions the code under test calls
// (DESIGN.md §2.5) and the environment stubs (§2.3).

import (
	"fmt"
	"go/types"
	"regexp"
	"sort"
	"strconv"
	"strings"
	"unicode"
	"unicode/utf8"
)

type externalFn func(fr *frame, args []value) value

var externals = map[string]externalFn{}

func init() {
	for k, v := range map[string]externalFn{
		"fmt.Sprintf":                      extSprintf,
		"fmt.Errorf":                       extErrorf,
		"fmt.Fprintf":                      extFprintf,
		"errors.New":                       extErrorsNew,
		"strings.Join":                     extStringsJoin,
		"strings.HasSuffix":                extStringsHasSuffix,
		"strings.HasPrefix":                extStringsHasPrefix,
		"strings.Split":                    extStringsSplit,
		"strings.SplitN":                   extStringsSplitN,
		"strings.ReplaceAll":               extStringsReplaceAll,
		"strings.TrimRightFunc":            extStringsTrimRightFunc,
		"strings.TrimRight":                extStringsTrimRight,
		"strings.TrimSuffix":               extStringsTrimSuffix,
		"strings.TrimPrefix":               extStringsTrimPrefix,
		"strings.TrimLeft":                 extStringsTrimLeft,
		"strings.TrimSpace":                extStringsTrimSpace,
		"strings.Index":                    extStringsIndex,
		"strings.IndexByte":                extStringsIndexByte,
		"strings.Repeat":                   extStringsRepeat,
		"strings.Contains":                 extStringsContains,
		"(*strings.Builder).WriteString":   extBuilderWriteString,
		"(*strings.Builder).WriteByte":     extBuilderWriteByte,
		"(*strings.Builder).WriteRune":     extBuilderWriteRune,
		"(*strings.Builder).Len":           extBuilderLen,
		"(*strings.Builder).Reset":         extBuilderReset,
		"(*strings.Builder).String":        extBuilderString,
		"strconv.ParseInt":                 extParseInt,
		"strconv.Itoa":                     extItoa,
		"strconv.Atoi":                     extAtoi,
		"sort.Ints":                        extSortInts,
		"sort.Strings":                     extSortStrings,
		"log.Printf":                       extNop,
		"log.Println":                      extNop,
		"unicode/utf8.DecodeRuneInString":  extDecodeRuneInString,
		"unicode/utf8.RuneCountInString":   extRuneCountInString,
		"unicode.IsLetter":                 extIsLetter,
		"unicode.Is":                       extUnicodeIs,
		"unicode.In":                       extUnicodeIn,
		"unicode.IsDigit":                  extIsDigit,
		"unicode.IsSpace":                  extIsSpace,
		"regexp.MustCompile":               extRegexpMustCompile,
		"(*regexp.Regexp).FindAllStringIndex": extRegexpFindAllStringIndex,
		"(*regexp.Regexp).ReplaceAllString":   extRegexpReplaceAllString,
	} {
		externals[k] = v
	}
}

func extNop(fr *frame, args []value) value { return nil }

// ---- errors

func (e *Engine) errorValue(msg value) value {
	p := new(value)
	*p = structure{msg}
	return iface{t: e.errorStringPtr, v: p}
}

func extErrorsNew(fr *frame, args []value) value {
	return fr.i.eng.errorValue(args[0])
}

func extErrorf(fr *frame, args []value) value {
	return fr.i.eng.errorValue(extSprintf(fr, args))
}

// ---- fmt

func fmtArg(fr *frame, verb byte, a value) value {
	if it, ok := a.(iface); ok {
		// error values: call Error()
		if it.t != nil && (verb == 's' || verb == 'v') {
			if errStr, ok := fr.i.eng.errorText(fr, it); ok {
				return errStr
			}
		}
		a = it.v
	}
	switch verb {
	case 'q':
		if s, ok := a.(string); ok {
			return strconv.Quote(s)
		}
		panic(Inconclusive{"%q of a symbolic string"})
	case 'd', 's', 'v':
		switch v := a.(type) {
		case string, *Rope:
			return v
		case SymInt:
			return IntRope(v.T)
		case bool:
			return strconv.FormatBool(v)
		case int, int8, int16, int32, int64, uint, uint8, uint16, uint32, uint64:
			if _, isU := v.(uint64); isU {
				return strconv.FormatUint(v.(uint64), 10)
			}
			return strconv.FormatInt(asInt64(v), 10)
		case []value:
			parts := []value{"["}
			for i, e := range v {
				if i > 0 {
					parts = append(parts, " ")
				}
				parts = append(parts, fmtArg(fr, verb, e))
			}
			parts = append(parts, "]")
			return ropeConcat(parts...)
		}
	case 'c':
		switch v := a.(type) {
		case int32:
			return string(v)
		}
	}
	panic(Inconclusive{fmt.Sprintf("fmt verb %%%c with argument %T", verb, a)})
}

// symbolicFormat turns a rope used as a format string into a concrete format
// in which every symbolic part that cannot contain '%' is an opaque
// placeholder. Whether a String atom contains '%' is a decision; on the
// containing side the atom is pinned to one of a few representative contents
// (so that the path stays exact); other contents end the path as inconclusive.
func symbolicFormat(fr *frame, r *Rope) (string, []Part) {
	c := fr.i.ctx
	var sb strings.Builder
	var opaque []Part
	hold := func(p Part) {
		if len(opaque) >= 26 {
			panic(Inconclusive{"format string with too many symbolic parts"})
		}
		sb.WriteString("\x00" + string(rune('A'+len(opaque))) + "\x00")
		opaque = append(opaque, p)
	}
	for _, p := range r.Parts {
		switch p.Kind {
		case PLit:
			sb.WriteString(p.Lit)
		case PCode, PInt:
			hold(p)
		case PCell:
			if c.Decide(fmt.Sprintf("(= %s 37)", p.Lit)) {
				sb.WriteString("%")
			} else {
				hold(p)
			}
		case PAtom:
			if c.AtomExcludes(p.Lit, "%") || !c.Decide(fmt.Sprintf("(str.contains %s \"%%\")", p.Lit)) {
				hold(p)
				break
			}
			pinned := false
			for _, cand := range []string{"%", "100% sure", "a%%b", "50%"} {
				if c.Decide(fmt.Sprintf("(= %s %s)", p.Lit, smtStrLit(cand))) {
					sb.WriteString(cand)
					pinned = true
					break
				}
			}
			if !pinned {
				panic(Inconclusive{"format string atom containing '%' outside the representative contents"})
			}
		default:
			panic(Inconclusive{"symbolic format string part"})
		}
	}
	return sb.String(), opaque
}

func restoreOpaque(v value, opaque []Part) value {
	s, ok := v.(string)
	if !ok || len(opaque) == 0 || !strings.Contains(s, "\x00") {
		return v
	}
	var parts []value
	for len(s) > 0 {
		i := strings.IndexByte(s, 0)
		if i < 0 || i+2 >= len(s) || s[i+2] != 0 {
			parts = append(parts, s)
			break
		}
		if i > 0 {
			parts = append(parts, s[:i])
		}
		parts = append(parts, &Rope{Parts: []Part{opaque[int(s[i+1]-'A')]}})
		s = s[i+3:]
	}
	return ropeConcat(parts...)
}

func extFprintf(fr *frame, args []value) value {
	// the only writer the repository formats into is a *strings.Builder
	w, ok := args[0].(iface)
	if !ok {
		panic(Inconclusive{"fmt.Fprintf to an unknown writer"})
	}
	if _, isPtr := w.v.(*value); !isPtr || !strings.Contains(fmt.Sprint(w.t), "strings.Builder") {
		panic(Inconclusive{"fmt.Fprintf to a writer other than *strings.Builder"})
	}
	s := extSprintf(fr, args[1:])
	bargs := []value{w.v, s}
	*builderSlot(bargs) = ropeConcat(builderGet(bargs), s)
	return tuple{ropeLen(s), iface{}}
}

func extSprintf(fr *frame, args []value) value {
	var opaque []Part
	format, ok := args[0].(string)
	if !ok {
		r, isRope := args[0].(*Rope)
		if !isRope {
			panic(Inconclusive{"symbolic format string"})
		}
		format, opaque = symbolicFormat(fr, r)
		if len(opaque) > 0 && strings.Contains(format, "%\x00") {
			panic(Inconclusive{"'%' directly before a symbolic part of a format string"})
		}
	}
	var fargs []value
	if args[1] != nil {
		fargs = args[1].([]value)
	}
	var parts []value
	ai := 0
	for i := 0; i < len(format); i++ {
		ch := format[i]
		if ch != '%' {
			j := strings.IndexByte(format[i:], '%')
			if j < 0 {
				parts = append(parts, format[i:])
				break
			}
			parts = append(parts, format[i:i+j])
			i += j - 1
			continue
		}
		i++
		if i >= len(format) {
			parts = append(parts, "%!(NOVERB)")
			break
		}
		verb := format[i]
		if verb == '%' {
			parts = append(parts, "%")
			continue
		}
		if ai >= len(fargs) {
			parts = append(parts, "%!"+string(verb)+"(MISSING)")
			continue
		}
		parts = append(parts, fmtArg(fr, verb, fargs[ai]))
		ai++
	}
	for i := range parts {
		parts[i] = restoreOpaque(parts[i], opaque)
	}
	if ai < len(fargs) {
		parts = append(parts, "%!(EXTRA ...)") // never equal to an expected output
	}
	return ropeConcat(parts...)
}

// ---- strings

func extStringsJoin(fr *frame, args []value) value {
	elems, _ := args[0].([]value)
	sep := args[1]
	var parts []value
	for i, e := range elems {
		if i > 0 {
			parts = append(parts, sep)
		}
		parts = append(parts, e)
	}
	return ropeConcat(parts...)
}

func extStringsHasSuffix(fr *frame, args []value) value {
	s, suf := args[0], args[1]
	if ss, ok := s.(string); ok {
		if fs, ok := suf.(string); ok {
			return strings.HasSuffix(ss, fs)
		}
	}
	// structural: literal tail long enough
	if fs, ok := suf.(string); ok {
		ps := partsOf(s)
		if n := len(ps); n > 0 && ps[n-1].Kind == PLit && len(ps[n-1].Lit) >= len(fs) {
			return strings.HasSuffix(ps[n-1].Lit, fs)
		}
		// an identifier-coded atom or a decimal number ends in an identifier
		// character / digit: it cannot end with a suffix whose last byte is
		// neither
		if n := len(ps); n > 0 && len(fs) > 0 && (ps[n-1].Kind == PCode || ps[n-1].Kind == PInt) && !identBodyRe.MatchString(fs[len(fs)-1:]) {
			return false
		}
		// an identifier-coded atom (not an enumeration of fixed tokens) contains
		// identifier characters only
		if n := len(ps); n > 0 && ps[n-1].Kind == PCode && !strings.HasPrefix(ps[n-1].Lit, "cT_") && !identBodyRe.MatchString(fs) {
			return false
		}
	}
	return SymBool{T: fmt.Sprintf("(str.suffixof %s %s)", StrTerm(suf), StrTerm(s))}
}

func extStringsHasPrefix(fr *frame, args []value) value {
	s, pre := args[0], args[1]
	if ss, ok := s.(string); ok {
		if fs, ok := pre.(string); ok {
			return strings.HasPrefix(ss, fs)
		}
	}
	if fs, ok := pre.(string); ok {
		ps := partsOf(s)
		if len(ps) > 0 && ps[0].Kind == PLit && len(ps[0].Lit) >= len(fs) {
			return strings.HasPrefix(ps[0].Lit, fs)
		}
	}
	return SymBool{T: fmt.Sprintf("(str.prefixof %s %s)", StrTerm(pre), StrTerm(s))}
}

func extStringsContains(fr *frame, args []value) value {
	if ss, ok := args[0].(string); ok {
		if fs, ok := args[1].(string); ok {
			return strings.Contains(ss, fs)
		}
	}
	// a single non-identifier byte: only literal parts (and String atoms) can contain it
	if sub, ok := args[1].(string); ok && len(sub) == 1 && !identBodyRe.MatchString(sub) && sub != "-" {
		var terms []string
		for _, p := range partsOf(args[0]) {
			switch p.Kind {
			case PLit:
				if strings.Contains(p.Lit, sub) {
					return true
				}
			case PCode, PInt:
			case PAtom:
				if !fr.i.ctx.AtomExcludes(p.Lit, sub) {
					terms = append(terms, fmt.Sprintf("(str.contains %s %s)", p.Lit, smtStrLit(sub)))
				}
			default:
				panic(Inconclusive{"strings.Contains over symbolic characters"})
			}
		}
		return mkBool(orTerm(terms...))
	}
	return SymBool{T: fmt.Sprintf("(str.contains %s %s)", StrTerm(args[0]), StrTerm(args[1]))}
}

// atomsExclude checks (and, if needed, asks the solver to prove) that no
// symbolic part of s can contain the byte string sep; otherwise the path is
// inconclusive.
func atomsExclude(fr *frame, s value, sep string) {
	c := fr.i.ctx
	for _, p := range partsOf(s) {
		switch p.Kind {
		case PLit:
		case PInt:
			if strings.ContainsAny(sep, "-0123456789") {
				panic(Inconclusive{"separator may occur in a symbolic number"})
			}
		case PCell:
			panic(Inconclusive{"split/replace over symbolic characters"})
		case PAtom:
			if c == nil {
				panic(Inconclusive{"symbolic string outside exploration"})
			}
			if c.AtomExcludes(p.Lit, sep) {
				continue
			}
			if c.Valid(fmt.Sprintf("(not (str.contains %s %s))", p.Lit, smtStrLit(sep))) != Unsat {
				panic(Inconclusive{fmt.Sprintf("atom %s may contain separator %q", p.Lit, sep)})
			}
		}
	}
}

func extStringsSplit(fr *frame, args []value) value {
	s, sepv := args[0], args[1]
	sep, ok := sepv.(string)
	if !ok || sep == "" {
		panic(Inconclusive{"strings.Split with symbolic or empty separator"})
	}
	if ss, ok := s.(string); ok {
		var res []value
		for _, x := range strings.Split(ss, sep) {
			res = append(res, x)
		}
		return res
	}
	atomsExclude(fr, s, sep)
	if len(sep) != 1 {
		panic(Inconclusive{"strings.Split of symbolic string with multi-byte separator"})
	}
	var res []value
	var cur []Part
	for _, p := range partsOf(s) {
		if p.Kind != PLit {
			cur = append(cur, p)
			continue
		}
		pieces := strings.Split(p.Lit, sep)
		for i, piece := range pieces {
			if i > 0 {
				res = append(res, mkRope(cur))
				cur = nil
			}
			cur = append(cur, Part{Kind: PLit, Lit: piece})
		}
	}
	res = append(res, mkRope(cur))
	return res
}

func extStringsSplitN(fr *frame, args []value) value {
	s, ok1 := args[0].(string)
	sep, ok2 := args[1].(string)
	if !ok1 || !ok2 {
		panic(Inconclusive{"strings.SplitN on symbolic string"})
	}
	var res []value
	for _, x := range strings.SplitN(s, sep, int(asInt64(args[2]))) {
		res = append(res, x)
	}
	return res
}

func extStringsReplaceAll(fr *frame, args []value) value {
	s := args[0]
	old, ok1 := args[1].(string)
	nw, ok2 := args[2].(string)
	if !ok1 || !ok2 {
		panic(Inconclusive{"strings.ReplaceAll with symbolic pattern"})
	}
	if ss, ok := s.(string); ok {
		return strings.ReplaceAll(ss, old, nw)
	}
	if len(old) != 1 {
		panic(Inconclusive{"strings.ReplaceAll of symbolic string with multi-byte pattern"})
	}
	var out []Part
	for _, p := range partsOf(s) {
		switch p.Kind {
		case PLit:
			out = append(out, Part{Kind: PLit, Lit: strings.ReplaceAll(p.Lit, old, nw)})
		case PAtom:
			// atoms that cannot contain the pattern are unchanged
			c := fr.i.ctx
			if c.AtomExcludes(p.Lit, old) {
				out = append(out, p)
			} else {
				// a derived atom: r = replace_all(a, old, new)
				r := c.NewStr("repl")
				c.addPC(fmt.Sprintf("(= %s (str.replace_all %s %s %s))", r, p.Lit, smtStrLit(old), smtStrLit(nw)))
				out = append(out, Part{Kind: PAtom, Lit: r})
			}
		case PInt:
			if strings.ContainsAny(old, "-0123456789") {
				panic(Inconclusive{"ReplaceAll inside symbolic number"})
			}
			out = append(out, p)
		default:
			panic(Inconclusive{"ReplaceAll over symbolic characters"})
		}
	}
	return mkRope(out)
}

func extStringsTrimRightFunc(fr *frame, args []value) value {
	if fn, ok := args[1].(interface{ String() string }); !ok || fn.String() != "unicode.IsSpace" {
		panic(Inconclusive{"TrimRightFunc with a function other than unicode.IsSpace"})
	}
	if s, ok := args[0].(string); ok {
		return strings.TrimRightFunc(s, unicode.IsSpace)
	}
	// symbolic characters at the tail: decide, from the end, whether each is a space
	ps := append([]Part{}, partsOf(args[0])...)
	for len(ps) > 0 {
		last := ps[len(ps)-1]
		switch last.Kind {
		case PLit:
			t := strings.TrimRightFunc(last.Lit, unicode.IsSpace)
			if t != "" {
				ps[len(ps)-1] = Part{Kind: PLit, Lit: t}
				return mkRope(ps)
			}
			ps = ps[:len(ps)-1]
		case PCell:
			sp := extIsSpace(fr, []value{SymInt{T: last.Lit, Kind: types.Int32}})
			if fr.i.ctx.DecideValue(sp) {
				ps = ps[:len(ps)-1]
			} else {
				return mkRope(ps)
			}
		default:
			panic(Inconclusive{"TrimRightFunc on a symbolic tail of unknown content"})
		}
	}
	return ""
}

// charSetRe renders a set of bytes as an SMT regex union.
func charSetRe(set string) string {
	if len(set) == 0 {
		return "re.none"
	}
	var alts []string
	for i := 0; i < len(set); i++ {
		alts = append(alts, "(str.to_re "+smtStrLit(set[i:i+1])+")")
	}
	if len(alts) == 1 {
		return alts[0]
	}
	return "(re.union " + strings.Join(alts, " ") + ")"
}

// trimSym models strings.TrimRight / TrimLeft on a symbolic string with a
// concrete cutset: s = keep ++ cut (or cut ++ keep), cut in cutset*, and
// keep does not end (start) with a cutset byte.
func trimSym(fr *frame, s value, cutset string, right bool) value {
	c := fr.i.ctx
	if c == nil {
		panic(Inconclusive{"symbolic string outside exploration"})
	}
	keep, cut := c.NewStr("trimkeep"), c.NewStr("trimcut")
	st := StrTerm(s)
	set := charSetRe(cutset)
	if right {
		c.addPC(fmt.Sprintf("(and (= %s (str.++ %s %s)) (str.in_re %s (re.* %s)) (not (str.in_re %s (re.++ re.all %s))))", st, keep, cut, cut, set, keep, set))
	} else {
		c.addPC(fmt.Sprintf("(and (= %s (str.++ %s %s)) (str.in_re %s (re.* %s)) (not (str.in_re %s (re.++ %s re.all))))", st, cut, keep, cut, set, keep, set))
	}
	return AtomRope(keep)
}

func extStringsTrimRight(fr *frame, args []value) value {
	cut, ok2 := args[1].(string)
	if !ok2 {
		panic(Inconclusive{"strings.TrimRight with symbolic cutset"})
	}
	if s, ok := args[0].(string); ok {
		return strings.TrimRight(s, cut)
	}
	return trimSym(fr, args[0], cut, true)
}

func extStringsTrimLeft(fr *frame, args []value) value {
	cut, ok2 := args[1].(string)
	if !ok2 {
		panic(Inconclusive{"strings.TrimLeft with symbolic cutset"})
	}
	if s, ok := args[0].(string); ok {
		return strings.TrimLeft(s, cut)
	}
	return trimSym(fr, args[0], cut, false)
}

func extStringsTrimSpace(fr *frame, args []value) value {
	if s, ok := args[0].(string); ok {
		return strings.TrimSpace(s)
	}
	ws := " \t\n\r\v\f"
	return trimSym(fr, trimSym(fr, args[0], ws, true), ws, false)
}

func extStringsTrimSuffix(fr *frame, args []value) value {
	if s, ok1 := args[0].(string); ok1 {
		if suf, ok2 := args[1].(string); ok2 {
			return strings.TrimSuffix(s, suf)
		}
	}
	has := extStringsHasSuffix(fr, args)
	if fr.i.ctx.DecideValue(has) {
		c := fr.i.ctx
		ps := partsOf(args[0])
		suf, sufLit := args[1].(string)
		if n := len(ps); sufLit && n > 0 {
			last := ps[n-1]
			// the suffix lies inside the last literal part: strip it there
			if last.Kind == PLit && len(last.Lit) >= len(suf) {
				head := append([]Part{}, ps[:n-1]...)
				if rest := last.Lit[:len(last.Lit)-len(suf)]; rest != "" {
					head = append(head, Part{Kind: PLit, Lit: rest})
				}
				return mkRope(head)
			}
			// the last part is a String atom a = r ++ suffix: only that atom is
			// split, and r contains no byte a cannot contain
			if last.Kind == PAtom {
				r := c.NewStr("trimsuf")
				c.addPC(fmt.Sprintf("(= %s (str.++ %s %s))", last.Lit, r, smtStrLit(suf)))
				if ai := c.Atoms[last.Lit]; ai != nil {
					c.Atoms[r] = &AtomInfo{Name: r, Class: ai.Class, NoBytes: ai.NoBytes}
				}
				return mkRope(append(append([]Part{}, ps[:n-1]...), Part{Kind: PAtom, Lit: r}))
			}
		}
		// s = r ++ suffix
		r := c.NewStr("trimsuf")
		c.addPC(fmt.Sprintf("(= %s (str.++ %s %s))", StrTerm(args[0]), r, StrTerm(args[1])))
		return AtomRope(r)
	}
	return args[0]
}

func extStringsTrimPrefix(fr *frame, args []value) value {
	if s, ok1 := args[0].(string); ok1 {
		if pre, ok2 := args[1].(string); ok2 {
			return strings.TrimPrefix(s, pre)
		}
	}
	has := extStringsHasPrefix(fr, args)
	if fr.i.ctx.DecideValue(has) {
		r := fr.i.ctx.NewStr("trimpre")
		fr.i.ctx.addPC(fmt.Sprintf("(= %s (str.++ %s %s))", StrTerm(args[0]), StrTerm(args[1]), r))
		return AtomRope(r)
	}
	return args[0]
}

func extStringsIndex(fr *frame, args []value) value {
	if s, ok1 := args[0].(string); ok1 {
		if sub, ok2 := args[1].(string); ok2 {
			return strings.Index(s, sub)
		}
	}
	return SymInt{T: fmt.Sprintf("(str.indexof %s %s 0)", StrTerm(args[0]), StrTerm(args[1])), Kind: types.Int}
}

// extStringsIndexByte: strings.IndexByte(s, c) for a concrete ASCII byte c on a
// rope made of literals and symbolic source characters: the parts are
// scanned in order; a one-byte symbolic character is a decision (is it c?),
// a multi-byte one cannot contain an ASCII byte.
func extStringsIndexByte(fr *frame, args []value) value {
	cb, ok := args[1].(uint8)
	if s, ok1 := args[0].(string); ok1 && ok {
		return strings.IndexByte(s, cb)
	}
	r, isRope := args[0].(*Rope)
	if !ok || !isRope || cb >= 0x80 {
		panic(Inconclusive{"symbolic or unsupported argument of strings.IndexByte"})
	}
	off := 0
	for _, p := range r.Parts {
		switch p.Kind {
		case PLit:
			if i := strings.IndexByte(p.Lit, cb); i >= 0 {
				return off + i
			}
			off += len(p.Lit)
		case PCell:
			if p.Width == 1 && fr.i.ctx.Decide(fmt.Sprintf("(= %s %d)", p.Lit, cb)) {
				return off
			}
			off += p.Width
		default:
			panic(Inconclusive{"symbolic or unsupported argument of strings.IndexByte"})
		}
	}
	return -1
}

func extStringsRepeat(fr *frame, args []value) value {
	s, ok := args[0].(string)
	if !ok {
		panic(Inconclusive{"strings.Repeat on symbolic string"})
	}
	return strings.Repeat(s, int(fr.i.ctx.Concretize(args[1], 0, 64)))
}

// ---- strings.Builder: the receiver points to a structure {addr, buf}; the
// accumulated text (string or *Rope) is kept in slot 1.

func builderSlot(args []value) *value {
	st := (*args[0].(*value)).(structure)
	return &st[1]
}

func builderGet(args []value) value {
	v := *builderSlot(args)
	if isStr(v) {
		return v
	}
	return ""
}

func extBuilderWriteString(fr *frame, args []value) value {
	*builderSlot(args) = ropeConcat(builderGet(args), args[1])
	return tuple{ropeLen(args[1]), iface{}}
}

func extBuilderWriteByte(fr *frame, args []value) value {
	switch b := args[1].(type) {
	case uint8:
		*builderSlot(args) = ropeConcat(builderGet(args), string([]byte{b}))
	default:
		panic(Inconclusive{fmt.Sprintf("WriteByte of %T", b)})
	}
	return iface{}
}

func extBuilderWriteRune(fr *frame, args []value) value {
	switch r := args[1].(type) {
	case int32:
		*builderSlot(args) = ropeConcat(builderGet(args), string(r))
		return tuple{utf8.RuneLen(r), iface{}}
	case SymInt:
		cr := charRope(r)
		*builderSlot(args) = ropeConcat(builderGet(args), cr)
		return tuple{CellWidth(r.T), iface{}}
	}
	panic(Inconclusive{fmt.Sprintf("WriteRune of %T", args[1])})
}

func extBuilderLen(fr *frame, args []value) value    { return ropeLen(builderGet(args)) }
func extBuilderString(fr *frame, args []value) value { return builderGet(args) }
func extBuilderReset(fr *frame, args []value) value {
	*builderSlot(args) = ""
	return nil
}

// ---- strconv

func (e *Engine) numError(fn, num, msg string) value {
	return e.errorValue("strconv." + fn + ": parsing " + strconv.Quote(num) + ": " + msg)
}

func extParseInt(fr *frame, args []value) value {
	base := int(asInt64(args[1]))
	bits := int(asInt64(args[2]))
	switch s := args[0].(type) {
	case string:
		n, err := strconv.ParseInt(s, base, bits)
		if err != nil {
			ne := err.(*strconv.NumError)
			return tuple{n, fr.i.eng.numError("ParseInt", s, ne.Err.Error())}
		}
		return tuple{n, iface{}}
	case *Rope:
		// A rope that is exactly the canonical decimal rendering of an Int
		// term parses to that integer (the harness keeps it inside int64).
		if len(s.Parts) == 1 && s.Parts[0].Kind == PInt && (base == 0 || base == 10) && bits == 64 {
			return tuple{SymInt{T: s.Parts[0].Lit, Kind: types.Int64}, iface{}}
		}
		// a narrower result: in range it is the integer, out of range
		// ParseInt returns the nearest bound and a range error
		if len(s.Parts) == 1 && s.Parts[0].Kind == PInt && (base == 0 || base == 10) && (bits == 8 || bits == 16 || bits == 32) {
			t := s.Parts[0].Lit
			lo, hi := -(int64(1) << uint(bits-1)), int64(1)<<uint(bits-1)-1
			if fr.i.ctx.Decide(fmt.Sprintf("(and (>= %s %s) (<= %s %s))", t, intLit(lo), t, intLit(hi))) {
				return tuple{SymInt{T: t, Kind: types.Int64}, iface{}}
			}
			bound := hi
			if fr.i.ctx.Decide(fmt.Sprintf("(< %s 0)", t)) {
				bound = lo
			}
			msg := mkRope([]Part{{Kind: PLit, Lit: "strconv.ParseInt: parsing \""}, s.Parts[0], {Kind: PLit, Lit: "\": value out of range"}})
			return tuple{bound, fr.i.eng.errorValue(msg)}
		}
	}
	panic(Inconclusive{"strconv.ParseInt of a symbolic string that is not a canonical number"})
}

func extAtoi(fr *frame, args []value) value {
	s, ok := args[0].(string)
	if !ok {
		panic(Inconclusive{"strconv.Atoi of symbolic string"})
	}
	n, err := strconv.Atoi(s)
	if err != nil {
		return tuple{n, fr.i.eng.numError("Atoi", s, err.(*strconv.NumError).Err.Error())}
	}
	return tuple{n, iface{}}
}

func extItoa(fr *frame, args []value) value {
	if s, ok := args[0].(SymInt); ok {
		return IntRope(s.T)
	}
	return strconv.Itoa(int(asInt64(args[0])))
}

// ---- sort

func extSortInts(fr *frame, args []value) value {
	x := args[0].([]value)
	for _, v := range x {
		if _, ok := v.(int); !ok {
			panic(Inconclusive{"sort.Ints over symbolic integers"})
		}
	}
	sort.Slice(x, func(i, j int) bool { return x[i].(int) < x[j].(int) })
	return nil
}

func extSortStrings(fr *frame, args []value) value {
	x := args[0].([]value)
	for _, v := range x {
		if _, ok := v.(string); !ok {
			panic(Inconclusive{"sort.Strings over symbolic strings"})
		}
	}
	sort.Slice(x, func(i, j int) bool { return x[i].(string) < x[j].(string) })
	return nil
}

// ---- unicode / utf8

func extDecodeRuneInString(fr *frame, args []value) value {
	switch s := args[0].(type) {
	case string:
		r, n := utf8.DecodeRuneInString(s)
		return tuple{r, n}
	case *Rope:
		p := s.Parts[0]
		switch p.Kind {
		case PLit:
			r, n := utf8.DecodeRuneInString(p.Lit)
			if r == utf8.RuneError && n <= 1 && len(p.Lit) < 4 && len(s.Parts) > 1 {
				panic(Inconclusive{"literal/symbolic boundary inside a UTF-8 sequence"})
			}
			return tuple{r, n}
		case PCell:
			return tuple{SymInt{T: p.Lit, Kind: types.Int32}, p.Width}
		}
		panic(Inconclusive{"DecodeRuneInString at a part of unknown content"})
	}
	panic(Inconclusive{"DecodeRuneInString"})
}

func extRuneCountInString(fr *frame, args []value) value {
	s, ok := args[0].(string)
	if !ok {
		panic(Inconclusive{"RuneCountInString of symbolic string"})
	}
	return utf8.RuneCountInString(s)
}

// Classification of a symbolic character: exact for ASCII, an uninterpreted
// predicate (consistent per code point) for the rest.
func classTerm(r SymInt, asciiFormula, upred string) value {
	return SymBool{T: fmt.Sprintf("(ite (< %s 128) %s (%s %s))", r.T, asciiFormula, upred, r.T)}
}

func extIsLetter(fr *frame, args []value) value {
	switch r := args[0].(type) {
	case int32:
		return unicode.IsLetter(r)
	case SymInt:
		f := fmt.Sprintf("(or (and (<= 65 %s) (<= %s 90)) (and (<= 97 %s) (<= %s 122)))", r.T, r.T, r.T, r.T)
		return classTerm(r, f, "uIsLetter")
	}
	panic(Inconclusive{"unicode.IsLetter"})
}

func extIsDigit(fr *frame, args []value) value {
	switch r := args[0].(type) {
	case int32:
		return unicode.IsDigit(r)
	case SymInt:
		f := fmt.Sprintf("(and (<= 48 %s) (<= %s 57))", r.T, r.T)
		return classTerm(r, f, "uIsDigit")
	}
	panic(Inconclusive{"unicode.IsDigit"})
}

func extIsSpace(fr *frame, args []value) value {
	switch r := args[0].(type) {
	case int32:
		return unicode.IsSpace(r)
	case SymInt:
		f := fmt.Sprintf("(or (and (<= 9 %s) (<= %s 13)) (= %s 32))", r.T, r.T, r.T)
		return classTerm(r, f, "uIsSpace")
	}
	panic(Inconclusive{"unicode.IsSpace"})
}

// ---- regexp (host implementation on concrete strings)

type hostRegexp struct{ re *regexp.Regexp }

func extRegexpMustCompile(fr *frame, args []value) value {
	p := new(value)
	*p = hostRegexp{regexp.MustCompile(args[0].(string))}
	return p
}

func extRegexpFindAllStringIndex(fr *frame, args []value) value {
	re := (*args[0].(*value)).(hostRegexp).re
	s, ok := args[1].(string)
	if !ok {
		panic(Inconclusive{"regexp on symbolic string"})
	}
	var res []value
	for _, m := range re.FindAllStringIndex(s, int(asInt64(args[2]))) {
		res = append(res, []value{m[0], m[1]})
	}
	return res
}

func extRegexpReplaceAllString(fr *frame, args []value) value {
	re := (*args[0].(*value)).(hostRegexp).re
	s, ok1 := args[1].(string)
	r, ok2 := args[2].(string)
	if !ok1 || !ok2 {
		panic(Inconclusive{"regexp on symbolic string"})
	}
	return re.ReplaceAllString(s, r)
}

// ---- environment stubs

func init() {
	externals["github.com/huderlem/poryscript/parser.LoadFontConfig"] = func(fr *frame, args []value) value {
		fn := fr.i.eng.Func("verif/harness/hz", "LoadFontStub")
		return call(fr.i, fr, 0, fn, args)
	}
}
