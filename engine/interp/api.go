package interp

// Engine: loading /repo's current source into SSA, running interpreted
// functions, exported accessors for checkers.

import (
	"fmt"
	"go/token"
	"go/types"
	"os"
	"sort"
	"strings"
	"sync"
	"time"
	"unicode"

	"golang.org/x/tools/go/packages"
	"golang.org/x/tools/go/ssa"
	"golang.org/x/tools/go/ssa/ssautil"
)

// Value is an interpreter value.
type Value = value

// Program is the loaded, built SSA program (shared, read-only).
type Program struct {
	Prog     *ssa.Program
	Pkgs     []*ssa.Package
	RepoPkgs map[string]bool // import paths interpreted from SSA
	LoadTime time.Duration
	allowStd map[string]bool

	covMu sync.Mutex
	cov   map[*ssa.BasicBlock]bool

	cacheMu sync.Mutex
	cache   map[string]Result
}

// Engine is one interpreter instance (own globals); not safe for concurrent
// use. Several engines may share one Program.
type Engine struct {
	P      *Program
	interp *interpreter

	errorStringPtr types.Type

	DefaultFuel      int64
	DefaultMaxDecide int

	localCov map[*ssa.BasicBlock]bool
}

// Standard-library functions simple enough to be interpreted from SSA.
var stdInterpretable = map[string]bool{
	"(*errors.errorString).Error": true,
}

// LoadProgram loads the harness package (and through it the repository's
// packages, from their current source) and builds SSA for everything.
func LoadProgram(harnessDir string, patterns []string, repoPrefix string) (*Program, error) {
	start := time.Now()
	cfg := &packages.Config{
		Mode: packages.LoadAllSyntax,
		Dir:  harnessDir,
		Env:  append(os.Environ(), "GOFLAGS=-mod=mod", "GOPROXY=off", "GOSUMDB=off", "GOTOOLCHAIN=local"),
	}
	initial, err := packages.Load(cfg, patterns...)
	if err != nil {
		return nil, err
	}
	var errs []string
	packages.Visit(initial, nil, func(p *packages.Package) {
		for _, e := range p.Errors {
			errs = append(errs, e.Error())
		}
	})
	if len(errs) > 0 {
		return nil, fmt.Errorf("load errors:\n%s", strings.Join(errs, "\n"))
	}
	prog, pkgs := ssautil.AllPackages(initial, ssa.InstantiateGenerics)
	prog.Build()
	p := &Program{Prog: prog, Pkgs: pkgs, RepoPkgs: map[string]bool{}, cov: map[*ssa.BasicBlock]bool{}, cache: map[string]Result{}}
	for _, pkg := range prog.AllPackages() {
		path := pkg.Pkg.Path()
		if strings.HasPrefix(path, repoPrefix) || strings.HasPrefix(path, "verif/harness") {
			p.RepoPkgs[path] = true
		}
	}
	p.LoadTime = time.Since(start)
	return p, nil
}

func (p *Program) cacheGet(k string) (Result, bool) {
	p.cacheMu.Lock()
	r, ok := p.cache[k]
	p.cacheMu.Unlock()
	return r, ok
}

func (p *Program) cachePut(k string, r Result) {
	if r == Unknown {
		return
	}
	p.cacheMu.Lock()
	if len(p.cache) > 2000000 {
		p.cache = map[string]Result{}
	}
	p.cache[k] = r
	p.cacheMu.Unlock()
}

func (e *Engine) cacheGet(k string) (Result, bool) { return e.P.cacheGet(k) }
func (e *Engine) cachePut(k string, r Result)      { e.P.cachePut(k, r) }

func (e *Engine) cover(b *ssa.BasicBlock) {
	if !e.localCov[b] {
		e.localCov[b] = true
	}
}

// FlushCoverage merges this engine's block coverage into the program's.
func (e *Engine) FlushCoverage() {
	e.P.covMu.Lock()
	for b := range e.localCov {
		e.P.cov[b] = true
	}
	e.P.covMu.Unlock()
}

// FuncCoverage describes how much of a function was executed.
type FuncCoverage struct {
	Name          string `json:"name"`
	Instrs        int    `json:"ssa_instructions"`
	Blocks        int    `json:"blocks"`
	BlocksReached int    `json:"blocks_reached"`
}

// Coverage reports block coverage of the repository's functions whose name
// contains one of the given substrings (all repo functions if none given).
func (p *Program) Coverage(match ...string) []FuncCoverage {
	p.covMu.Lock()
	defer p.covMu.Unlock()
	var res []FuncCoverage
	for fn := range ssautil.AllFunctions(p.Prog) {
		if fn.Pkg == nil || !p.RepoPkgs[fn.Pkg.Pkg.Path()] || fn.Blocks == nil {
			continue
		}
		if strings.HasPrefix(fn.Pkg.Pkg.Path(), "verif/harness") {
			continue
		}
		name := fn.String()
		ok := len(match) == 0
		for _, m := range match {
			if strings.Contains(name, m) {
				ok = true
			}
		}
		if !ok {
			continue
		}
		fc := FuncCoverage{Name: name, Blocks: len(fn.Blocks)}
		for _, b := range fn.Blocks {
			fc.Instrs += len(b.Instrs)
			if p.cov[b] {
				fc.BlocksReached++
			}
		}
		res = append(res, fc)
	}
	sort.Slice(res, func(i, j int) bool { return res[i].Name < res[j].Name })
	return res
}

func (e *Engine) interpretable(fn *ssa.Function) bool {
	if fn.Pkg == nil {
		// synthetic wrappers, bound methods, instantiations
		if fn.Synthetic != "" {
			return true
		}
		return false
	}
	if e.P.RepoPkgs[fn.Pkg.Pkg.Path()] {
		return true
	}
	return stdInterpretable[fn.String()]
}

// NewEngine creates an interpreter over p with fresh globals and runs the
// init functions of the repository's (and the harness's) packages.
func NewEngine(p *Program) *Engine {
	e := &Engine{P: p, DefaultFuel: 5_000_000, DefaultMaxDecide: 20000, localCov: map[*ssa.BasicBlock]bool{}}
	i := &interpreter{
		prog:    p.Prog,
		globals: make(map[*ssa.Global]*value),
		sizes:   &types.StdSizes{WordSize: 8, MaxAlign: 8},
		eng:     e,
	}
	e.interp = i
	if rt := p.Prog.ImportedPackage("runtime"); rt != nil {
		i.runtimeErrorString = rt.Type("errorString").Object().Type()
	}
	errPkg := p.Prog.ImportedPackage("errors")
	if errPkg == nil {
		panic("errors package not loaded")
	}
	e.errorStringPtr = types.NewPointer(errPkg.Type("errorString").Object().Type())
	e.ResetGlobals()
	return e
}

// ResetGlobals zeroes the globals of the interpreted packages and re-runs
// their package initialisers (without their dependencies' initialisers).
func (e *Engine) ResetGlobals() {
	i := e.interp
	var pkgs []*ssa.Package
	for _, pkg := range i.prog.AllPackages() {
		if !e.P.RepoPkgs[pkg.Pkg.Path()] {
			continue
		}
		pkgs = append(pkgs, pkg)
		for _, m := range pkg.Members {
			if g, ok := m.(*ssa.Global); ok {
				cell := zero(mustDeref(g.Type()))
				if old, ok := i.globals[g]; ok {
					*old = cell
				} else {
					c := cell
					i.globals[g] = &c
				}
			}
		}
	}
	// run inits in dependency order: a package's init calls its imports'
	// inits itself (guarded by init$guard); foreign inits return at once.
	for _, pkg := range pkgs {
		if init := pkg.Func("init"); init != nil {
			call(i, nil, token.NoPos, init, nil)
		}
	}
}

// Func finds a package-level function.
func (e *Engine) Func(pkgPath, name string) *ssa.Function {
	pkg := e.P.Prog.ImportedPackage(pkgPath)
	if pkg == nil {
		panic(EngineError{"package not loaded: " + pkgPath})
	}
	fn := pkg.Func(name)
	if fn == nil {
		panic(EngineError{"function not found: " + pkgPath + "." + name})
	}
	return fn
}

// Call runs an interpreted function under context c (nil for a purely
// concrete run) and returns its result (a tuple for several results).
func (e *Engine) Call(c *Ctx, fn *ssa.Function, args ...Value) Value {
	old := e.interp.ctx
	e.interp.ctx = c
	defer func() { e.interp.ctx = old }()
	return call(e.interp, nil, token.NoPos, fn, args)
}

// Global returns the address of a package-level variable.
func (e *Engine) Global(pkgPath, name string) *Value {
	pkg := e.P.Prog.ImportedPackage(pkgPath)
	if pkg == nil {
		panic(EngineError{"package not loaded: " + pkgPath})
	}
	g, ok := pkg.Members[name].(*ssa.Global)
	if !ok {
		panic(EngineError{"global not found: " + name})
	}
	return e.interp.globals[g]
}

// GlobalsSnapshot renders all package-level variables of the repository's
// packages (for the C17 "no state survives a compilation" check).
func (e *Engine) GlobalsSnapshot() string {
	var names []string
	vals := map[string]string{}
	for g, p := range e.interp.globals {
		if g.Pkg == nil || strings.HasPrefix(g.Pkg.Pkg.Path(), "verif/harness") {
			continue
		}
		if strings.HasPrefix(g.Name(), "init$") {
			continue
		}
		n := g.Pkg.Pkg.Path() + "." + g.Name()
		names = append(names, n)
		vals[n] = deepString(*p, 0)
	}
	sort.Strings(names)
	var sb strings.Builder
	for _, n := range names {
		sb.WriteString(n + " = " + vals[n] + "\n")
	}
	return sb.String()
}

func deepString(v value, depth int) string {
	if depth > 6 {
		return "..."
	}
	switch v := v.(type) {
	case *value:
		if v == nil {
			return "nil"
		}
		return "&" + deepString(*v, depth+1)
	case hostRegexp:
		return "regexp(" + v.re.String() + ")"
	case structure:
		parts := make([]string, len(v))
		for i, f := range v {
			parts[i] = deepString(f, depth+1)
		}
		return "{" + strings.Join(parts, " ") + "}"
	case []value:
		parts := make([]string, len(v))
		for i, f := range v {
			parts[i] = deepString(f, depth+1)
		}
		return "[" + strings.Join(parts, " ") + "]"
	case *omap:
		if v == nil {
			return "map(nil)"
		}
		parts := make([]string, len(v.keys))
		for i := range v.keys {
			parts[i] = deepString(v.keys[i], depth+1) + ":" + deepString(v.vals[i], depth+1)
		}
		sort.Strings(parts)
		return "map[" + strings.Join(parts, " ") + "]"
	case iface:
		if v.t == nil {
			return "nil"
		}
		return "(" + v.t.String() + ")" + deepString(v.v, depth+1)
	}
	return toString(v)
}

// errorText returns the text of an error value held in an interface.
func (e *Engine) errorText(fr *frame, it iface) (value, bool) {
	if it.t == nil {
		return nil, false
	}
	ms := e.P.Prog.MethodSets.MethodSet(it.t)
	sel := ms.Lookup(nil, "Error")
	if sel == nil {
		return nil, false
	}
	fn := e.P.Prog.MethodValue(sel)
	if fn == nil {
		return nil, false
	}
	return call(fr.i, fr, token.NoPos, fn, []value{it.v}), true
}

// ErrorText renders an error value returned by interpreted code.
func (e *Engine) ErrorText(c *Ctx, v Value) (Value, bool) {
	it, ok := v.(iface)
	if !ok || it.t == nil {
		return nil, false
	}
	old := e.interp.ctx
	e.interp.ctx = c
	defer func() { e.interp.ctx = old }()
	return e.errorText(&frame{i: e.interp}, it)
}

// ---- accessors for checkers

// IsNilIface reports whether v is a nil interface value.
func IsNilIface(v Value) bool {
	it, ok := v.(iface)
	return ok && it.t == nil
}

// IfaceType returns the dynamic type string of an interface value.
func IfaceType(v Value) string {
	it, ok := v.(iface)
	if !ok || it.t == nil {
		return ""
	}
	return it.t.String()
}

// IfaceValue returns the dynamic value of an interface value.
func IfaceValue(v Value) Value { return v.(iface).v }

// Tuple returns the elements of a multi-result.
func Tuple(v Value) []Value { return []Value(v.(tuple)) }

// Fields returns the fields of a struct value (or of the struct pointed to).
func Fields(v Value) []Value {
	switch v := v.(type) {
	case structure:
		return []Value(v)
	case *value:
		return []Value((*v).(structure))
	}
	panic(fmt.Sprintf("Fields: %T", v))
}

// Elems returns the elements of a slice value.
func Elems(v Value) []Value {
	s, _ := v.([]value)
	return s
}

// MkSlice builds a slice value.
func MkSlice(elems ...Value) Value { return append([]value{}, elems...) }

// MkMap builds a map value with the given key type, keys and values.
func MkStringMap(keys []Value, vals []Value) Value {
	m := newOmap(types.Typ[types.String])
	for i := range keys {
		m.insert(nil, keys[i], vals[i])
	}
	return m
}

// Parts returns the parts of a string value.
func Parts(v Value) []Part { return partsOf(v) }

// MkRope builds a string value from parts.
func MkRope(parts []Part) Value { return mkRope(parts) }

// Concat concatenates string values.
func Concat(vs ...Value) Value { return ropeConcat(vs...) }

// StrEq compares two string values: bool or SymBool.
func StrEq(a, b Value) Value { return ropeEq(a, b) }

// BoolTerm returns the SMT term of a bool/SymBool value.
func BoolTerm(v Value) string { return boolTerm(v) }

// IntTerm returns the SMT term of an integer value.
func IntTerm(v Value) string { return intTerm(v) }

// IsString reports whether v is a string value.
func IsString(v Value) bool { return isStr(v) }

// ToString renders a value for diagnostics.
func ToString(v Value) string { return toString(v) }

// Instantiate substitutes model values into a string value.
func Instantiate(v Value, model map[string]string) (string, error) {
	var sb strings.Builder
	for _, p := range partsOf(v) {
		switch p.Kind {
		case PLit:
			sb.WriteString(p.Lit)
		case PAtom:
			mv, ok := model[p.Lit]
			if !ok {
				return "", fmt.Errorf("no model value for %s", p.Lit)
			}
			s, ok := ParseStrValue(mv)
			if !ok {
				return "", fmt.Errorf("bad string value %s", mv)
			}
			sb.WriteString(s)
		case PInt:
			n, err := evalIntTerm(p.Lit, model)
			if err != nil {
				return "", err
			}
			fmt.Fprintf(&sb, "%d", n)
		case PCell:
			n, err := evalIntTerm(p.Lit, model)
			if err != nil {
				return "", err
			}
			sb.WriteString(string(rune(n)))
		case PCode:
			n, err := evalIntTerm(p.Lit, model)
			if err != nil {
				return "", err
			}
			sb.WriteString(NameOfCodeVar(p.Lit, n, model))
		}
	}
	return sb.String(), nil
}

// evalIntTerm evaluates simple Int terms (variables, literals, + - *).
func evalIntTerm(t string, model map[string]string) (int64, error) {
	sx := parseSexpr(t)
	var ev func(s *sexpr) (int64, error)
	ev = func(s *sexpr) (int64, error) {
		if !s.isL {
			if mv, ok := model[s.atom]; ok {
				n, ok := ParseIntValue(mv)
				if !ok {
					return 0, fmt.Errorf("bad int value %s", mv)
				}
				return n, nil
			}
			n, ok := ParseIntValue(s.atom)
			if !ok {
				return 0, fmt.Errorf("no model value for %s", s.atom)
			}
			return n, nil
		}
		if len(s.list) == 0 {
			return 0, fmt.Errorf("empty term")
		}
		op := s.list[0].atom
		var args []int64
		for _, a := range s.list[1:] {
			n, err := ev(a)
			if err != nil {
				return 0, err
			}
			args = append(args, n)
		}
		switch op {
		case "+":
			var r int64
			for _, a := range args {
				r += a
			}
			return r, nil
		case "-":
			if len(args) == 1 {
				return -args[0], nil
			}
			r := args[0]
			for _, a := range args[1:] {
				r -= a
			}
			return r, nil
		case "*":
			r := int64(1)
			for _, a := range args {
				r *= a
			}
			return r, nil
		}
		return 0, fmt.Errorf("cannot evaluate %s", t)
	}
	return ev(sx)
}

// EvalInt evaluates an Int term under a model.
func EvalInt(t string, model map[string]string) (int64, error) { return evalIntTerm(t, model) }

// MkStruct builds a struct value from its fields in declaration order.
func MkStruct(fields ...Value) Value { return structure(append([]value{}, fields...)) }

// Sexpr is a parsed s-expression (exported view).
type Sexpr struct {
	Atom   string
	List   []*Sexpr
	IsList bool
}

// ParseSexprPublic parses one s-expression.
func ParseSexprPublic(src string) *Sexpr {
	var conv func(s *sexpr) *Sexpr
	conv = func(s *sexpr) *Sexpr {
		r := &Sexpr{Atom: s.atom, IsList: s.isL}
		for _, e := range s.list {
			r.List = append(r.List, conv(e))
		}
		return r
	}
	return conv(parseSexpr(src))
}

// MkArray builds an array value.
func MkArray(elems ...Value) Value { return array(append([]value{}, elems...)) }

// NilError is the nil error interface value.
func NilError() Value { return iface{} }

// MkTuple builds a multi-result value.
func MkTuple(elems ...Value) Value { return tuple(append([]value{}, elems...)) }

// Method finds a method of a named type of a loaded package (pointer
// receiver methods included).
func (e *Engine) Method(pkgPath, typeName, method string) *ssa.Function {
	pkg := e.P.Prog.ImportedPackage(pkgPath)
	if pkg == nil {
		panic(EngineError{"package not loaded: " + pkgPath})
	}
	tn := pkg.Type(typeName)
	if tn == nil {
		panic(EngineError{"type not found: " + typeName})
	}
	for _, t := range []types.Type{types.NewPointer(tn.Type()), tn.Type()} {
		if sel := e.P.Prog.MethodSets.MethodSet(t).Lookup(pkg.Pkg, method); sel != nil {
			if fn := e.P.Prog.MethodValue(sel); fn != nil {
				return fn
			}
		}
	}
	panic(EngineError{"method not found: " + typeName + "." + method})
}

// FieldIndex returns the index of a struct field by name (-1 if absent).
func (e *Engine) FieldIndex(pkgPath, typeName, field string) int {
	pkg := e.P.Prog.ImportedPackage(pkgPath)
	if pkg == nil {
		return -1
	}
	tn := pkg.Type(typeName)
	if tn == nil {
		return -1
	}
	st, ok := tn.Type().Underlying().(*types.Struct)
	if !ok {
		return -1
	}
	for i := 0; i < st.NumFields(); i++ {
		if st.Field(i).Name() == field {
			return i
		}
	}
	return -1
}

// SetField overwrites field idx of the struct that ptr points to.
func SetField(ptr Value, idx int, v Value) {
	(*ptr.(*value)).(structure)[idx] = v
}

// GetField reads field idx of the struct that ptr points to.
func GetField(ptr Value, idx int) Value {
	return (*ptr.(*value)).(structure)[idx]
}

// representative non-ASCII characters per UTF-8 width, with their real
// classification (used instead of the whole Unicode range).
var cellReps = map[int][]rune{
	2: {0xE9 /* é letter */, 0x663 /* arabic-indic digit */, 0xA0 /* no-break space */, 0xD7 /* × symbol */, 0x85 /* NEL (space) */},
	3: {0x30DD /* ポ letter */, 0xFF15 /* fullwidth digit */, 0x2028 /* line separator (space) */, 0x20AC /* € symbol */, 0xFFFD /* replacement character */},
	4: {0x1D4B3 /* 𝒳 letter */, 0x1D7D9 /* 𝟙 digit */, 0x1F600 /* 😀 symbol */},
}

// NewCell declares a symbolic source character of the given UTF-8 width.
// Width 1 is any ASCII byte in [lo,127]; wider cells range over a set of
// representative characters whose Unicode classification is asserted from
// the host's tables. exclude lists code points to leave out.
func (c *Ctx) NewCell(width int, lo int, exclude ...rune) SymInt {
	c.nvars++
	name := fmt.Sprintf("cell%d_%d", width, c.nvars)
	c.S.Declare(name, "Int")
	c.IntVars = append(c.IntVars, name)
	if width == 1 {
		c.addPC(fmt.Sprintf("(and (>= %s %d) (<= %s 127))", name, lo, name))
	} else {
		var alts, ax []string
		for _, r := range cellReps[width] {
			skip := false
			for _, x := range exclude {
				if x == r {
					skip = true
				}
			}
			if skip {
				continue
			}
			alts = append(alts, fmt.Sprintf("(= %s %d)", name, r))
			b := func(v bool, p string) string {
				if v {
					return fmt.Sprintf("(%s %d)", p, r)
				}
				return fmt.Sprintf("(not (%s %d))", p, r)
			}
			ax = append(ax, b(unicode.IsLetter(r), "uIsLetter"), b(unicode.IsDigit(r), "uIsDigit"), b(unicode.IsSpace(r), "uIsSpace"))
		}
		c.addPC(orTerm(alts...))
		c.addPC(andTerm(ax...))
	}
	for _, x := range exclude {
		if width == 1 {
			c.addPC(fmt.Sprintf("(not (= %s %d))", name, x))
		}
	}
	return SymInt{T: name, Kind: types.Int32}
}

// CellPart makes the rope part of a symbolic source character.
func CellPart(v SymInt) Part { return Part{Kind: PCell, Lit: v.T, Width: CellWidth(v.T)} }

// LitPart makes a literal rope part.
func LitPart(s string) Part { return Part{Kind: PLit, Lit: s} }
