package interp

// Host evaluation of pure standard-library functions on concrete arguments.
// The repository's code may start using such a function at any time (a
// refactoring); with concrete arguments its result is what the real function
// returns, so the path stays exact. With a symbolic argument the path ends as
// inconclusive, as for any function the engine has no model of.

import (
	"fmt"
	"path/filepath"
	"reflect"
	"strconv"
	"strings"
	"unicode"
	"unicode/utf8"
)

var hostFuncs = map[string]interface{}{
	"strings.Fields":         strings.Fields,
	"strings.ToUpper":        strings.ToUpper,
	"strings.ToLower":        strings.ToLower,
	"strings.Title":          strings.Title,
	"strings.Count":          strings.Count,
	"strings.LastIndex":      strings.LastIndex,
	"strings.LastIndexByte":  strings.LastIndexByte,
	"strings.IndexByte":      strings.IndexByte,
	"strings.IndexRune":      strings.IndexRune,
	"strings.IndexAny":       strings.IndexAny,
	"strings.EqualFold":      strings.EqualFold,
	"strings.ContainsRune":   strings.ContainsRune,
	"strings.ContainsAny":    strings.ContainsAny,
	"strings.Replace":        strings.Replace,
	"strings.Compare":        strings.Compare,
	"strings.Cut":            strings.Cut,
	"strings.CutPrefix":      strings.CutPrefix,
	"strings.CutSuffix":      strings.CutSuffix,
	"strings.SplitAfter":     strings.SplitAfter,
	"strings.Trim":           strings.Trim,
	"strings.TrimLeft":       strings.TrimLeft,
	"strings.TrimRight":      strings.TrimRight,
	"strings.ToValidUTF8":    strings.ToValidUTF8,
	"strconv.FormatInt":      strconv.FormatInt,
	"strconv.Quote":          strconv.Quote,
	"strconv.ParseUint":      strconv.ParseUint,
	"strconv.ParseBool":      strconv.ParseBool,
	"strconv.FormatBool":     strconv.FormatBool,
	"unicode.IsUpper":        unicode.IsUpper,
	"unicode.IsLower":        unicode.IsLower,
	"unicode.IsPunct":        unicode.IsPunct,
	"unicode.IsControl":      unicode.IsControl,
	"unicode.IsPrint":        unicode.IsPrint,
	"unicode.ToUpper":        unicode.ToUpper,
	"unicode.ToLower":        unicode.ToLower,
	"unicode/utf8.RuneLen":   utf8.RuneLen,
	"unicode/utf8.ValidString": utf8.ValidString,
	"unicode/utf8.ValidRune": utf8.ValidRune,
	"unicode/utf8.DecodeLastRuneInString": utf8.DecodeLastRuneInString,
	"path/filepath.Base":     filepath.Base,
	"path/filepath.Ext":      filepath.Ext,
	"path/filepath.Clean":    filepath.Clean,
	"path/filepath.ToSlash":  filepath.ToSlash,
}

var errorType = reflect.TypeOf((*error)(nil)).Elem()

func toHost(v value, t reflect.Type) (reflect.Value, bool) {
	switch t.Kind() {
	case reflect.String:
		if s, ok := v.(string); ok {
			return reflect.ValueOf(s).Convert(t), true
		}
	case reflect.Int, reflect.Int8, reflect.Int16, reflect.Int32, reflect.Int64:
		switch x := v.(type) {
		case int, int8, int16, int32, int64:
			return reflect.ValueOf(asInt64(x)).Convert(t), true
		}
	case reflect.Uint8:
		if x, ok := v.(uint8); ok {
			return reflect.ValueOf(x), true
		}
	case reflect.Bool:
		if b, ok := v.(bool); ok {
			return reflect.ValueOf(b), true
		}
	case reflect.Slice:
		if t.Elem().Kind() == reflect.String {
			xs, ok := v.([]value)
			if !ok && v != nil {
				return reflect.Value{}, false
			}
			out := reflect.MakeSlice(t, 0, len(xs))
			for _, e := range xs {
				s, ok := e.(string)
				if !ok {
					return reflect.Value{}, false
				}
				out = reflect.Append(out, reflect.ValueOf(s))
			}
			return out, true
		}
	}
	return reflect.Value{}, false
}

func fromHost(fr *frame, v reflect.Value) value {
	if v.Type() == errorType {
		if v.IsNil() {
			return iface{}
		}
		return fr.i.eng.errorValue(v.Interface().(error).Error())
	}
	switch v.Kind() {
	case reflect.String:
		return v.String()
	case reflect.Int:
		return int(v.Int())
	case reflect.Int32:
		return int32(v.Int())
	case reflect.Int64:
		return v.Int()
	case reflect.Uint64:
		return v.Uint()
	case reflect.Bool:
		return v.Bool()
	case reflect.Slice:
		out := make([]value, v.Len())
		for i := range out {
			out[i] = fromHost(fr, v.Index(i))
		}
		return out
	}
	panic(Inconclusive{fmt.Sprintf("host function result of kind %s", v.Kind())})
}

// callHost evaluates name on the host if it is a listed pure function and
// all arguments are concrete.
func callHost(fr *frame, name string, args []value) (value, bool) {
	f, ok := hostFuncs[name]
	if !ok {
		return nil, false
	}
	fv := reflect.ValueOf(f)
	ft := fv.Type()
	if ft.NumIn() != len(args) || ft.IsVariadic() {
		return nil, false
	}
	in := make([]reflect.Value, len(args))
	for i, a := range args {
		hv, ok := toHost(a, ft.In(i))
		if !ok {
			panic(Inconclusive{"symbolic or unsupported argument of " + name})
		}
		in[i] = hv
	}
	out := fv.Call(in)
	switch len(out) {
	case 0:
		return nil, true
	case 1:
		return fromHost(fr, out[0]), true
	}
	t := make(tuple, len(out))
	for i, o := range out {
		t[i] = fromHost(fr, o)
	}
	return t, true
}

// hostRangeTable stands for one of package unicode's range tables (the
// package's init is not executed; its exported tables are taken from the host).
type hostRangeTable struct {
	name string
	t    *unicode.RangeTable
}

func hostUnicodeTable(g interface {
	Name() string
	String() string
}) (*value, bool) {
	if !strings.HasPrefix(g.String(), "unicode.") {
		return nil, false
	}
	var t *unicode.RangeTable
	if x, ok := unicode.Categories[g.Name()]; ok {
		t = x
	} else if x, ok := unicode.Scripts[g.Name()]; ok {
		t = x
	} else if x, ok := unicode.Properties[g.Name()]; ok {
		t = x
	} else {
		switch g.Name() {
		case "Letter":
			t = unicode.Letter
		case "Digit":
			t = unicode.Digit
		case "Space":
			t = unicode.Space
		case "Upper":
			t = unicode.Upper
		case "Lower":
			t = unicode.Lower
		case "Punct":
			t = unicode.Punct
		case "Number":
			t = unicode.Number
		case "Symbol":
			t = unicode.Symbol
		case "Mark":
			t = unicode.Mark
		default:
			return nil, false
		}
	}
	p := new(value)
	*p = hostRangeTable{g.Name(), t}
	return p, true
}

// extUnicodeIs: unicode.Is(table, r). A symbolic r is decided exactly when
// the table has few ranges (the formula lists them).
func extUnicodeIs(fr *frame, args []value) value {
	ht, ok := args[0].(hostRangeTable)
	if !ok {
		panic(Inconclusive{"unicode.Is with a range table that is not one of package unicode's"})
	}
	return unicodeIn(ht, args[1])
}

func unicodeIn(ht hostRangeTable, rv value) value {
	switch r := rv.(type) {
	case int32:
		return unicode.Is(ht.t, r)
	case SymInt:
		var alts []string
		n := 0
		for _, rg := range ht.t.R16 {
			n++
			if rg.Stride == 1 {
				alts = append(alts, fmt.Sprintf("(and (<= %d %s) (<= %s %d))", rg.Lo, r.T, r.T, rg.Hi))
			} else {
				alts = append(alts, fmt.Sprintf("(and (<= %d %s) (<= %s %d) (= (mod (- %s %d) %d) 0))", rg.Lo, r.T, r.T, rg.Hi, r.T, rg.Lo, rg.Stride))
			}
		}
		for _, rg := range ht.t.R32 {
			n++
			if rg.Stride == 1 {
				alts = append(alts, fmt.Sprintf("(and (<= %d %s) (<= %s %d))", rg.Lo, r.T, r.T, rg.Hi))
			} else {
				alts = append(alts, fmt.Sprintf("(and (<= %d %s) (<= %s %d) (= (mod (- %s %d) %d) 0))", rg.Lo, r.T, r.T, rg.Hi, r.T, rg.Lo, rg.Stride))
			}
		}
		if n > 24 {
			panic(Inconclusive{"unicode.Is of a symbolic character with the large table " + ht.name})
		}
		if len(alts) == 0 {
			return false
		}
		return SymBool{T: orTerm(alts...)}
	}
	panic(Inconclusive{"unicode.Is"})
}

// extUnicodeIn: unicode.In(r, tables...) / unicode.IsOneOf(tables, r).
func extUnicodeIn(fr *frame, args []value) value {
	tabs, ok := args[1].([]value)
	if !ok {
		panic(Inconclusive{"unicode.In"})
	}
	var res value = false
	for _, tv := range tabs {
		ht, ok := tv.(hostRangeTable)
		if !ok {
			panic(Inconclusive{"unicode.In with a foreign range table"})
		}
		switch b := unicodeIn(ht, args[0]).(type) {
		case bool:
			if b {
				return true
			}
		case SymBool:
			if rb, ok := res.(SymBool); ok {
				res = SymBool{T: orTerm(rb.T, b.T)}
			} else {
				res = b
			}
		}
	}
	return res
}
