package interp

// Path exploration: decision vectors, forking by re-execution, path condition.

import (
	"crypto/sha1"
	"fmt"
	"regexp"
	"runtime"
	"strings"
)

// EngineError is an internal failure of the engine (never a finding).
type EngineError struct{ Msg string }

func (e EngineError) Error() string { return "engine error: " + e.Msg }

// Inconclusive aborts the current path as not covered (unsupported operation
// on a symbolic value, solver unknown where a verdict is required, ...).
type Inconclusive struct{ Msg string }

// BeyondBound aborts the current path because an unrolling bound was hit.
type BeyondBound struct{ Msg string }

// FuelExhausted aborts a path whose instruction budget ran out.
type FuelExhausted struct{ Steps int64 }

// TargetPanic describes a panic of the code under test.
type TargetPanic struct {
	Msg   string
	Stack string
}

type decision struct {
	val    int    // outcome (0/1 for boolean decisions)
	forced bool   // only one outcome was feasible
	tag    uint32 // hash of the decision term, to detect nondeterministic replay
}

// AtomInfo records class information about an atom.
type AtomInfo struct {
	Name  string
	Class string
	Re    *regexp.Regexp // host-side class regex (anchored), for fast paths
	Not   []string       // literals excluded from the class
	Group string         // atoms in the same non-empty group are pairwise distinct
	// NoBytes: bytes that (by the asserted class constraint) never occur in
	// the atom; "ctl" stands for all control characters incl. newline.
	NoBytes string
}

// Ctx is the symbolic context of one path.
type Ctx struct {
	E *Engine
	S *Solver

	prefix []decision
	pos    int
	trace  []decision
	alts   [][]decision

	pc []string
	// FirstSeen: Int-coded atoms whose first character the code under test has read
	FirstSeen map[string]bool
	pcHash    [20]byte

	nvars    int
	Atoms    map[string]*AtomInfo
	IntVars  []string
	CodeVars []string
	StrVars  []string

	// post-lexing symbolisation
	Placeholders     map[string]value    // exact token literal -> replacement string value
	TypePlaceholders map[string][2]value // exact token literal -> (type, literal) replacement
	PlaceholderRe    *regexp.Regexp      // pattern of placeholders inside string literals
	LineMap          func(line int) value
	SymbolizeTokens  bool

	PermuteMaps    bool
	MapSitePermute map[string]bool
	MapSitesSeen   map[string]int // range-over-map sites reached on this path -> largest map size

	Fuel      int64
	Steps     int64
	MaxDecide int // max decisions per path (unwinding guard)

	UnknownFeas int // feasibility checks answered unknown on this path
	Notes       []string
	Hooks       map[string]func(c *Ctx, args []value) (value, bool)
	PostHooks   map[string]func(c *Ctx, args []value, result value) value
	User        map[string]interface{}
}

// PathOutcome classifies how a path ended.
type PathOutcome int

const (
	PathDone PathOutcome = iota
	PathInconclusive
	PathBeyondBound
	PathFuel
	PathTargetPanic
)

// PathResult is delivered to the explorer's callback for every finished path.
type PathResult struct {
	Outcome PathOutcome
	Msg     string
	Panic   *TargetPanic
}

// ExploreStats aggregates over an exploration.
type ExploreStats struct {
	Paths        int
	Done         int
	Inconclusive int
	BeyondBound  int
	Fuel         int
	Panics       int
	UnknownFeas  int
	Steps        int64
	InconMsgs    map[string]int
}

func (st *ExploreStats) Add(o ExploreStats) {
	st.Paths += o.Paths
	st.Done += o.Done
	st.Inconclusive += o.Inconclusive
	st.BeyondBound += o.BeyondBound
	st.Fuel += o.Fuel
	st.Panics += o.Panics
	st.UnknownFeas += o.UnknownFeas
	st.Steps += o.Steps
	for k, v := range o.InconMsgs {
		if st.InconMsgs == nil {
			st.InconMsgs = map[string]int{}
		}
		st.InconMsgs[k] += v
	}
}

// Explore runs body once per feasible path. body sets up symbolic inputs,
// calls into the interpreted code and checks its assertions; it may be
// aborted by panics of the types above, which are caught here and reported
// through done (if non-nil). maxPaths bounds the exploration (0 = no bound);
// the return value tells whether the bound was hit.
func (e *Engine) Explore(s *Solver, maxPaths int, body func(c *Ctx), done func(c *Ctx, r PathResult)) (ExploreStats, bool) {
	var st ExploreStats
	st.InconMsgs = map[string]int{}
	work := [][]decision{nil}
	for len(work) > 0 {
		if maxPaths > 0 && st.Paths >= maxPaths {
			return st, true
		}
		prefix := work[len(work)-1]
		work = work[:len(work)-1]
		c := &Ctx{E: e, S: s, prefix: prefix, Atoms: map[string]*AtomInfo{}, Fuel: e.DefaultFuel, MaxDecide: e.DefaultMaxDecide, User: map[string]interface{}{}}
		s.Push()
		// every path starts from freshly initialised package-level state: what
		// an earlier path left in a package variable must not leak into this one
		// (dependence on earlier compilations is the subject of C17, which
		// compares the state itself)
		e.ResetGlobals()
		res := c.runGuarded(body)
		if done != nil {
			func() {
				defer func() {
					if r := recover(); r != nil {
						if _, ok := r.(EngineError); ok {
							panic(r)
						}
						// a failure inside the callback is an engine error
						panic(EngineError{fmt.Sprintf("done callback: %v", r)})
					}
				}()
				done(c, res)
			}()
		}
		s.Pop()
		st.Paths++
		st.Steps += c.Steps
		st.UnknownFeas += c.UnknownFeas
		switch res.Outcome {
		case PathDone:
			st.Done++
		case PathInconclusive:
			st.Inconclusive++
			st.InconMsgs[res.Msg]++
		case PathBeyondBound:
			st.BeyondBound++
		case PathFuel:
			st.Fuel++
		case PathTargetPanic:
			st.Panics++
		}
		work = append(work, c.alts...)
	}
	return st, false
}

func (c *Ctx) runGuarded(body func(c *Ctx)) (res PathResult) {
	defer func() {
		r := recover()
		if r == nil {
			return
		}
		switch r := r.(type) {
		case Inconclusive:
			res = PathResult{Outcome: PathInconclusive, Msg: r.Msg}
		case BeyondBound:
			res = PathResult{Outcome: PathBeyondBound, Msg: r.Msg}
		case FuelExhausted:
			res = PathResult{Outcome: PathFuel, Msg: fmt.Sprintf("fuel exhausted after %d steps", r.Steps)}
		case EngineError:
			panic(r)
		case targetPanic:
			msg := toStringSym(r.v)
			res = PathResult{Outcome: PathTargetPanic, Msg: msg, Panic: &TargetPanic{Msg: msg}}
		case TargetPanic:
			res = PathResult{Outcome: PathTargetPanic, Msg: r.Msg, Panic: &r}
		case runtime.Error:
			msg := r.Error()
			if isTargetRuntimeError(msg) {
				res = PathResult{Outcome: PathTargetPanic, Msg: "runtime error: " + msg, Panic: &TargetPanic{Msg: msg}}
				return
			}
			buf := make([]byte, 1<<14)
			n := runtime.Stack(buf, false)
			panic(EngineError{"host runtime error: " + msg + "\n" + string(buf[:n])})
		default:
			// an operation of the interpreter that has no symbolic counterpart
			// met a symbolic operand: the path is not decided (not an engine defect)
			if msg, ok := r.(string); ok && strings.HasPrefix(msg, "cannot convert interp.Sym") {
				res = PathResult{Outcome: PathInconclusive, Msg: "concrete-only operation on a symbolic value: " + msg}
				return
			}
			buf := make([]byte, 1<<14)
			n := runtime.Stack(buf, false)
			panic(EngineError{fmt.Sprintf("unexpected panic: %v\n%s", r, buf[:n])})
		}
	}()
	body(c)
	return PathResult{Outcome: PathDone}
}

// Runtime errors that the interpreted program itself can cause (the
// interpreter executes the target's index/slice/deref operations with the
// host's), as opposed to type-assertion failures inside the engine.
func isTargetRuntimeError(msg string) bool {
	for _, s := range []string{"index out of range", "slice bounds out of range", "nil pointer dereference", "assignment to entry in nil map", "integer divide by zero"} {
		if strings.Contains(msg, s) {
			return true
		}
	}
	return false
}

// ---- path condition

func (c *Ctx) addPC(t string) {
	if t == "true" {
		return
	}
	c.pc = append(c.pc, t)
	h := sha1.New()
	h.Write(c.pcHash[:])
	h.Write([]byte(t))
	copy(c.pcHash[:], h.Sum(nil))
	c.S.Assert(t)
}

// Assume adds a constraint on the symbolic inputs to the path condition.
func (c *Ctx) Assume(t string) { c.addPC(t) }

// PC returns the current path condition.
func (c *Ctx) PC() []string { return c.pc }

func (c *Ctx) fresh(prefix string) string {
	c.nvars++
	return fmt.Sprintf("%s%d", prefix, c.nvars)
}

// NewInt declares a fresh symbolic integer.
func (c *Ctx) NewInt(hint string) SymInt {
	name := c.fresh("n_" + sanitize(hint) + "_")
	c.S.Declare(name, "Int")
	c.IntVars = append(c.IntVars, name)
	return SymInt{T: name, Kind: 0 + 2} // types.Int == 2
}

// NewBoolVar declares a fresh symbolic boolean.
func (c *Ctx) NewBoolVar(hint string) SymBool {
	name := c.fresh("b_" + sanitize(hint) + "_")
	c.S.Declare(name, "Bool")
	return SymBool{T: name}
}

// NewStr declares a fresh, unconstrained symbolic string variable and
// returns its name.
func (c *Ctx) NewStr(hint string) string {
	name := c.fresh("s_" + sanitize(hint) + "_")
	c.S.Declare(name, "String")
	c.StrVars = append(c.StrVars, name)
	return name
}

func sanitize(s string) string {
	var sb strings.Builder
	for _, r := range s {
		if r >= 'a' && r <= 'z' || r >= 'A' && r <= 'Z' || r >= '0' && r <= '9' {
			sb.WriteRune(r)
		}
	}
	return sb.String()
}

// feasible asks whether pc ∧ t is satisfiable.
func (c *Ctx) feasible(t string) Result {
	if t == "true" {
		return Sat
	}
	if t == "false" {
		return Unsat
	}
	key := string(c.pcHash[:]) + t
	if r, ok := c.E.cacheGet(key); ok {
		return r
	}
	c.S.Push()
	c.S.Assert(t)
	r := c.S.Check()
	c.S.Pop()
	c.E.cachePut(key, r)
	return r
}

// Check asks whether pc ∧ t is satisfiable (no caching of models).
func (c *Ctx) Check(t string) Result { return c.feasible(t) }

// CheckModel asks whether pc ∧ t is satisfiable and, if so, returns values
// for the requested terms.
func (c *Ctx) CheckModel(t string, terms []string) (Result, map[string]string) {
	// Prefer a model in which identifier-coded atoms take values outside the
	// range of literal codes: a small value may be (or later become) the code of
	// some literal the path never compared the atom with, and the atom would
	// then be spelled like that literal in the native replay although nothing on
	// the path says so. Only when the path forces an atom to equal a literal is
	// the unrestricted query used.
	var generic []string
	for _, v := range terms {
		if len(v) > 3 && v[0] == 'c' && v[2] == '_' && v[1] != 'T' {
			generic = append(generic, fmt.Sprintf("(>= %s 1048576)", v))
		}
	}
	if len(generic) > 0 {
		c.S.Push()
		c.S.Assert(t)
		c.S.Assert(andTerm(generic...))
		if c.S.Check() == Sat {
			m := c.S.GetValues(c.withLengths(terms))
			c.S.Pop()
			return Sat, m
		}
		c.S.Pop()
	}
	c.S.Push()
	c.S.Assert(t)
	r := c.S.Check()
	var m map[string]string
	if r == Sat {
		m = c.S.GetValues(c.withLengths(terms))
	}
	c.S.Pop()
	return r, m
}

// withLengths adds, for identifier-coded atoms, their length (which the code
// under test can observe through len()) to the terms of a model query.
func (c *Ctx) withLengths(terms []string) []string {
	all := append([]string{}, terms...)
	for _, t := range terms {
		if len(t) > 3 && t[0] == 'c' && t[2] == '_' && t[1] != 'T' {
			all = append(all, "(clen "+t+")")
			// the first character only when the code under test looked at it
			if c.FirstSeen[t] {
				all = append(all, "(cfirst "+t+")")
			}
		}
	}
	return all
}

// Valid reports whether pc ⇒ t holds: Unsat means valid, Sat means a
// counterexample exists, Unknown is inconclusive.
func (c *Ctx) Valid(t string) Result { return c.feasible(notTerm(t)) }

func tagOf(t string) uint32 {
	var h uint32 = 2166136261
	for i := 0; i < len(t); i++ {
		h ^= uint32(t[i])
		h *= 16777619
	}
	return h
}

func (c *Ctx) record(d decision) {
	c.trace = append(c.trace, d)
	if c.MaxDecide > 0 && len(c.trace) > c.MaxDecide {
		panic(BeyondBound{fmt.Sprintf("more than %d decisions on one path", c.MaxDecide)})
	}
}

// Decide resolves a symbolic boolean: it returns an outcome that is feasible
// under the path condition, adds it to the path condition, and schedules the
// other outcome (if feasible) for another run.
func (c *Ctx) Decide(t string) bool {
	switch t {
	case "true":
		return true
	case "false":
		return false
	}
	tag := tagOf(t)
	if c.pos < len(c.prefix) {
		d := c.prefix[c.pos]
		c.pos++
		if d.tag != tag {
			panic(EngineError{fmt.Sprintf("nondeterministic replay at decision %d: %s", c.pos-1, t)})
		}
		c.record(d)
		if !d.forced {
			if d.val == 1 {
				c.addPC(t)
			} else {
				c.addPC(notTerm(t))
			}
		}
		return d.val == 1
	}
	rt := c.feasible(t)
	if rt == Unsat {
		c.record(decision{val: 0, forced: true, tag: tag})
		return false
	}
	rf := c.feasible(notTerm(t))
	if rf == Unsat {
		if rt == Unknown {
			c.UnknownFeas++
		}
		c.record(decision{val: 1, forced: true, tag: tag})
		return true
	}
	if rt == Unknown || rf == Unknown {
		c.UnknownFeas++
	}
	alt := append(append([]decision{}, c.trace...), decision{val: 0, tag: tag})
	c.alts = append(c.alts, alt)
	c.record(decision{val: 1, tag: tag})
	c.addPC(t)
	return true
}

// DecideValue resolves a value that is bool or SymBool.
func (c *Ctx) DecideValue(v value) bool {
	switch v := v.(type) {
	case bool:
		return v
	case SymBool:
		return c.Decide(v.T)
	}
	panic(EngineError{fmt.Sprintf("DecideValue: %T", v)})
}

// Choose makes an n-way nondeterministic choice (no solver involved).
func (c *Ctx) Choose(n int, what string) int {
	if n <= 1 {
		return 0
	}
	tag := tagOf("choose:" + what)
	if c.pos < len(c.prefix) {
		d := c.prefix[c.pos]
		c.pos++
		if d.tag != tag {
			panic(EngineError{"nondeterministic replay at choice " + what})
		}
		c.record(d)
		return d.val
	}
	for k := n - 1; k >= 1; k-- {
		alt := append(append([]decision{}, c.trace...), decision{val: k, tag: tag})
		c.alts = append(c.alts, alt)
	}
	c.record(decision{val: 0, tag: tag})
	return 0
}

// Concretize resolves a symbolic integer to a concrete value in [lo,hi] by
// case split; values outside the range end the path as beyond the bound.
// ConcretizeLimit bounds the case split of Concretize.
var ConcretizeLimit = 48

func (c *Ctx) Concretize(v value, lo, hi int64) int64 {
	s, ok := v.(SymInt)
	if !ok {
		return asInt64(v)
	}
	// case split over the values, smallest first; a quantity with more than
	// ConcretizeLimit candidate values is cut (and counted as beyond the bound)
	// rather than enumerated: each candidate costs solver queries and a path
	limit := int64(ConcretizeLimit)
	for k := lo; k <= hi; k++ {
		if k-lo >= limit {
			panic(BeyondBound{fmt.Sprintf("integer %s has more than %d candidate values", s.T, limit)})
		}
		if c.Decide(fmt.Sprintf("(= %s %s)", s.T, intLit(k))) {
			return k
		}
	}
	panic(BeyondBound{fmt.Sprintf("integer %s outside [%d,%d]", s.T, lo, hi)})
}

// Model returns a model of the path condition for the declared variables.
func (c *Ctx) Model(extra ...string) (Result, map[string]string) {
	terms := append(append(append([]string{}, c.IntVars...), c.StrVars...), extra...)
	return c.CheckModel("true", terms)
}

// AtomExcludes reports whether the class constraint asserted for atom name
// rules out every byte of sep (host-side knowledge mirroring the asserted
// regular expression; avoids very slow str.contains queries).
func (c *Ctx) AtomExcludes(name, sep string) bool {
	ai := c.Atoms[name]
	if ai == nil {
		return false
	}
	for i := 0; i < len(sep); i++ {
		b := sep[i]
		if b < 0x20 || b == 0x7f {
			if !strings.Contains(ai.NoBytes, "ctl") {
				return false
			}
			continue
		}
		if !strings.ContainsRune(ai.NoBytes, rune(b)) {
			return false
		}
	}
	return true
}
