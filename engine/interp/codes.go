package interp

// Int-coded atoms (DESIGN.md §2.2): identifier-like symbolic strings that are
// only compared for equality are represented by SMT Int variables ("codes")
// instead of String variables - string queries cost 0.1-1 s each in z3,
// integer ones well under a millisecond. Concrete literals get fixed codes:
// identifiers positive (interned), everything else negative, atoms are >= 0,
// so an atom can only equal a literal that is an identifier. Word equations
// between ropes are reduced structurally to boolean combinations of code
// equalities; shapes that cannot be reduced make the path inconclusive.
//
// The variable name carries the class: cI_ identifier, cU_ user name (does
// not end in _<digits>), cP_ plain command name.

import (
	"fmt"
	"regexp"
	"strconv"
	"strings"
	"sync"
)

var (
	litMu    sync.Mutex
	litCodes = map[string]int64{}
	litNames = map[int64]string{}
	litNext  int64
)

// reservedWords are never the value of an identifier atom (the lexer gives
// them their own token types).
var reservedWords = map[string]bool{}

func init() {
	for _, k := range strings.Fields("script raw text movement mart mapscripts format var flag defeated TRUE FALSE true false if else elif do while break continue switch case default global local poryswitch const value moves") {
		reservedWords[k] = true
	}
}

var identLitRe = regexp.MustCompile(`^[A-Za-z_][A-Za-z0-9_]*$`)
var digitsSuffixLitRe = regexp.MustCompile(`_[0-9]+$`)

// InternLit returns the code of a concrete literal.
func InternLit(s string) int64 {
	litMu.Lock()
	defer litMu.Unlock()
	if c, ok := litCodes[s]; ok {
		return c
	}
	ident := identLitRe.MatchString(s) && !reservedWords[s]
	// the name NameOfCode invented for a generic code value stands for that
	// value (concrete replays lex such names)
	if m := freshNameRe.FindStringSubmatch(s); m != nil && ident {
		if n, err := strconv.ParseInt(m[1], 10, 64); err == nil && fmt.Sprintf("Zv%dq", n) == s {
			if _, taken := litNames[n]; !taken {
				litCodes[s], litNames[n] = n, s
				return n
			}
		}
	}
	for {
		litNext++
		c := litNext
		if !ident {
			c = -c
		}
		if _, taken := litNames[c]; taken {
			continue // reserved by NameOfCode for a model value
		}
		litCodes[s] = c
		litNames[c] = s
		return c
	}
}

var freshNameRe = regexp.MustCompile(`^Zv([0-9]+)q$`)

// LitOfCode returns the literal with the given code, if any.
func LitOfCode(c int64) (string, bool) {
	litMu.Lock()
	defer litMu.Unlock()
	s, ok := litNames[c]
	return s, ok
}

// CodeRope makes a rope consisting of one Int-coded atom.
func CodeRope(name string) *Rope { return &Rope{Parts: []Part{{Kind: PCode, Lit: name}}} }

func codeClass(name string) byte {
	if len(name) > 2 && name[0] == 'c' && name[2] == '_' {
		return name[1]
	}
	return 'I'
}

// CodeTerm returns the Int term standing for a string value that is a single
// coded atom or a concrete literal.
func CodeTerm(v value) (string, bool) {
	switch v := v.(type) {
	case string:
		return intLit(InternLit(v)), true
	case *Rope:
		if len(v.Parts) == 1 && v.Parts[0].Kind == PCode {
			return v.Parts[0].Lit, true
		}
	}
	return "", false
}

func hasCode(ps []Part) bool {
	for _, p := range ps {
		if p.Kind == PCode {
			return true
		}
	}
	return false
}

// codeEq decides / reduces equality of two part lists (already stripped of
// common prefix and suffix) when Int-coded atoms are involved.
func codeEq(a, b []Part) (value, bool) {
	if !hasCode(a) && !hasCode(b) {
		return nil, false
	}
	if len(a) == 1 && len(b) == 1 {
		x, y := a[0], b[0]
		if x.Kind == PCode && y.Kind == PCode {
			return SymBool{T: fmt.Sprintf("(= %s %s)", x.Lit, y.Lit)}, true
		}
		if y.Kind == PCode {
			x, y = y, x
		}
		if x.Kind == PCode && (y.Kind == PInt || y.Kind == PCell) {
			return false, true // an identifier is never a number / a single non-letter cell is handled by the lexer harness
		}
		if x.Kind == PCode && y.Kind == PLit && codeClass(x.Lit) == 'T' {
			// a token-type / fixed-literal atom ranges over an explicit set of literals
			return SymBool{T: fmt.Sprintf("(= %s %s)", x.Lit, intLit(InternLit(y.Lit)))}, true
		}
		if x.Kind == PCode && y.Kind == PLit {
			if !identLitRe.MatchString(y.Lit) || strings.HasPrefix(y.Lit, "zq") || reservedWords[y.Lit] {
				return false, true
			}
			if codeClass(x.Lit) == 'U' && digitsSuffixLitRe.MatchString(y.Lit) {
				return false, true
			}
			return SymBool{T: fmt.Sprintf("(= %s %s)", x.Lit, intLit(InternLit(y.Lit)))}, true
		}
	}
	// Genericity assumption for Int-coded atoms (stated in DESIGN.md §2.2): a
	// coded name is never a proper fragment of, or a concatenation involving,
	// other names or literal affixes. Under it two composite ropes are equal
	// iff their part sequences align: code against code (equal codes), literal
	// against literal (equal text); a code against literal text, a number or
	// the end of the other rope is a mismatch. Clashes between a user-chosen
	// name and a generated composite name are explored with String-sorted
	// atoms instead (C04's precondition excludes them, C20 targets them).
	x := append([]Part{}, a...)
	y := append([]Part{}, b...)
	var terms []string
	for len(x) > 0 && len(y) > 0 {
		p, q := x[0], y[0]
		switch {
		case p.Kind == PCode && q.Kind == PCode:
			if p.Lit != q.Lit {
				terms = append(terms, fmt.Sprintf("(= %s %s)", p.Lit, q.Lit))
			}
			x, y = x[1:], y[1:]
		case p.Kind == PLit && q.Kind == PLit:
			n := len(p.Lit)
			if len(q.Lit) < n {
				n = len(q.Lit)
			}
			if p.Lit[:n] != q.Lit[:n] {
				return false, true
			}
			if n == len(p.Lit) {
				x = x[1:]
			} else {
				x[0] = Part{Kind: PLit, Lit: p.Lit[n:]}
			}
			if n == len(q.Lit) {
				y = y[1:]
			} else {
				y[0] = Part{Kind: PLit, Lit: q.Lit[n:]}
			}
		case p.Kind == PAtom || q.Kind == PAtom:
			panic(Inconclusive{"word equation mixing Int-coded and String atoms: " + describeParts(a) + " =? " + describeParts(b)})
		default:
			return false, true
		}
	}
	for _, rest := range [][]Part{x, y} {
		for _, p := range rest {
			if p.Kind == PAtom {
				panic(Inconclusive{"word equation mixing Int-coded and String atoms: " + describeParts(a) + " =? " + describeParts(b)})
			}
		}
		if len(rest) > 0 {
			return false, true
		}
	}
	return mkBool(andTerm(terms...)), true
}

var identBodyRe = regexp.MustCompile(`^[A-Za-z0-9_]*$`)

func describeParts(ps []Part) string {
	var sb strings.Builder
	for i, p := range ps {
		if i > 0 {
			sb.WriteString("+")
		}
		if p.Kind == PLit {
			sb.WriteString(fmt.Sprintf("%q", p.Lit))
		} else {
			sb.WriteString(p.Lit)
		}
	}
	return sb.String()
}

// NewCode declares a fresh Int-coded atom of the given class letter.
func (c *Ctx) NewCode(class byte, hint string) string {
	name := c.fresh(fmt.Sprintf("c%c_%s_", class, sanitize(hint)))
	c.S.Declare(name, "Int")
	c.CodeVars = append(c.CodeVars, name)
	c.addPC(fmt.Sprintf("(and (>= %s 0) (>= (clen %s) 1))", name, name))
	return name
}

// NameOfCode gives the concrete identifier standing for a code value in a
// model: the literal with that code, or a fresh name unique to the value.
//
// The table of literals is shared by all workers and grows while they run.
// The first time a value's name is asked for, the value is bound to that name
// for good, so that a literal interned later (by any worker) can never take
// the same code and change what the value stands for between two uses of one
// model.
func NameOfCode(v int64) string {
	litMu.Lock()
	defer litMu.Unlock()
	if s, ok := litNames[v]; ok {
		return s
	}
	s := fmt.Sprintf("Zv%dq", v)
	if v >= 0 {
		if _, used := litCodes[s]; !used {
			litNames[v], litCodes[s] = s, v
		}
	}
	return s
}

// NameOfCodeVar names the value of code variable name under a model. When the
// model also fixes the identifier's length ("(clen name)", which the code under
// test can observe through len()) to a small value, a fresh name of exactly
// that length is bound to the value, so that a native replay sees what the
// path assumed.
func NameOfCodeVar(name string, v int64, model map[string]string) string {
	// clen / cfirst are functions of the code value: take them from any
	// variable of the model that has this value
	want, firstCh := -1, int64(0)
	for k, mv := range model {
		if len(k) < 4 || k[0] != 'c' || k[2] != '_' {
			continue
		}
		if n, ok := ParseIntValue(mv); !ok || n != v {
			continue
		}
		if lv, ok := model["(clen "+k+")"]; ok && want < 0 {
			if n, ok := ParseIntValue(lv); ok && n >= 1 && n <= 5 {
				want = int(n)
			}
		}
		if fv, ok := model["(cfirst "+k+")"]; ok && firstCh == 0 {
			// the code under test read the first character: realise it
			if n, ok := ParseIntValue(fv); ok && (n == '_' || n >= 'A' && n <= 'Z' || n >= 'a' && n <= 'z') {
				firstCh = n
			}
		}
	}
	if want < 0 && firstCh == 0 || v < 1048576 {
		litMu.Lock()
		s, ok := litNames[v]
		litMu.Unlock()
		if ok || want < 0 {
			return NameOfCode(v)
		}
		_ = s
	}
	first := "ZQXJKVWYHGFBDCMNPRSTLAEIOUzqxjkvwyhgfbdcmnprstlaeiou"
	if firstCh != 0 {
		first = string(rune(firstCh))
		if want < 0 {
			want = 4
		}
	}
	key := fmt.Sprintf("%d/%d/%d", v, want, firstCh)
	litMu.Lock()
	defer litMu.Unlock()
	if s, ok := realised[key]; ok {
		return s
	}
	fits := func(s string) bool {
		return len(s) == want && (firstCh == 0 || int64(s[0]) == firstCh)
	}
	if s, ok := litNames[v]; ok && fits(s) {
		realised[key] = s
		return s
	}
	if v >= 0 {
		const rest = "0123456789abcdefghijklmnopqrstuvwxyzABCDEFGHIJKLMNOPQRSTUVWXYZ"
		for try := int64(0); try < 4000; try++ {
			x := v + try*7919
			b := []byte{first[int(x%int64(len(first)))]}
			x /= int64(len(first))
			for len(b) < want {
				b = append(b, rest[int(x%int64(len(rest)))])
				x /= int64(len(rest))
			}
			s := string(b)
			if _, used := litCodes[s]; used || reservedWords[s] {
				continue
			}
			// several names may stand for one value (one per realised
			// length / first character); every name stands for one value
			litCodes[s] = v
			if _, ok := litNames[v]; !ok {
				litNames[v] = s
			}
			realised[key] = s
			return s
		}
	}
	if s, ok := litNames[v]; ok {
		return s
	}
	s := fmt.Sprintf("Zv%dq", v)
	if _, used := litCodes[s]; !used && v >= 0 {
		litNames[v], litCodes[s] = s, v
	}
	return s
}

// realised: (value, length, first character) -> the name bound to it.
var realised = map[string]string{}

// NewEnumCode declares an Int-coded atom (class 'T') that ranges over an
// explicit set of literals.
func (c *Ctx) NewEnumCode(hint string, domain []string) string {
	name := c.fresh(fmt.Sprintf("cT_%s_", sanitize(hint)))
	c.S.Declare(name, "Int")
	c.CodeVars = append(c.CodeVars, name)
	var alts, lens []string
	for _, d := range domain {
		alts = append(alts, fmt.Sprintf("(= %s %s)", name, intLit(InternLit(d))))
		lens = append(lens, fmt.Sprintf("(=> (= %s %s) (= (clen %s) %d))", name, intLit(InternLit(d)), name, len(d)))
	}
	c.addPC(orTerm(alts...))
	c.addPC(andTerm(lens...))
	return name
}
