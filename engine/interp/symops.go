package interp

import (
	"fmt"
	"os"
	"strconv"
	"strings"
	"go/token"
	"go/types"
	"unicode/utf8"
)

func mustDeref(t types.Type) types.Type {
	if p, ok := t.Underlying().(*types.Pointer); ok {
		return p.Elem()
	}
	panic(fmt.Sprintf("mustDeref: %s is not a pointer", t))
}

func toStringSym(v value) string {
	switch v := v.(type) {
	case iface:
		return toStringSym(v.v)
	case string:
		return v
	}
	return toString(v)
}

func isSym(v value) bool {
	switch v.(type) {
	case SymInt, SymBool, *Rope:
		return true
	}
	return false
}

// symBinop handles binary operators when an operand is symbolic.
func symBinop(op token.Token, t types.Type, x, y value) (value, bool) {
	if !isSym(x) && !isSym(y) {
		// structures / interfaces that contain symbolic parts
		if op == token.EQL || op == token.NEQ {
			switch x.(type) {
			case structure, iface, array:
				if containsSym(x) || containsSym(y) {
					r := symEquals(t, x, y)
					if op == token.NEQ {
						r = negate(r)
					}
					return r, true
				}
			}
		}
		return nil, false
	}
	// strings
	if isStr(x) && isStr(y) {
		switch op {
		case token.ADD:
			return ropeConcat(x, y), true
		case token.EQL:
			return ropeEq(x, y), true
		case token.NEQ:
			return negate(ropeEq(x, y)), true
		case token.LSS, token.LEQ, token.GTR, token.GEQ:
			a, b := StrTerm(x), StrTerm(y)
			switch op {
			case token.LSS:
				return SymBool{T: fmt.Sprintf("(str.< %s %s)", a, b)}, true
			case token.LEQ:
				return SymBool{T: fmt.Sprintf("(str.<= %s %s)", a, b)}, true
			case token.GTR:
				return SymBool{T: fmt.Sprintf("(str.< %s %s)", b, a)}, true
			default:
				return SymBool{T: fmt.Sprintf("(str.<= %s %s)", b, a)}, true
			}
		}
		panic(Inconclusive{fmt.Sprintf("unsupported string operator %s on symbolic string", op)})
	}
	// booleans
	if _, ok := x.(SymBool); ok || isSymBool(y) {
		a, b := boolTerm(x), boolTerm(y)
		switch op {
		case token.EQL:
			return mkBool(fmt.Sprintf("(= %s %s)", a, b)), true
		case token.NEQ:
			return mkBool(fmt.Sprintf("(not (= %s %s))", a, b)), true
		case token.AND:
			return mkBool(andTerm(a, b)), true
		case token.OR:
			return mkBool(orTerm(a, b)), true
		}
		panic(Inconclusive{fmt.Sprintf("unsupported boolean operator %s", op)})
	}
	// integers
	a, b := intTerm(x), intTerm(y)
	kind := intKind(x)
	if _, ok := x.(SymInt); !ok {
		kind = intKind(y)
	}
	switch op {
	case token.ADD:
		return SymInt{T: fmt.Sprintf("(+ %s %s)", a, b), Kind: kind}, true
	case token.SUB:
		return SymInt{T: fmt.Sprintf("(- %s %s)", a, b), Kind: kind}, true
	case token.MUL:
		_, xs := x.(SymInt)
		_, ys := y.(SymInt)
		if xs && ys {
			panic(Inconclusive{"symbolic * symbolic"})
		}
		return SymInt{T: fmt.Sprintf("(* %s %s)", a, b), Kind: kind}, true
	case token.EQL:
		return mkBool(fmt.Sprintf("(= %s %s)", a, b)), true
	case token.NEQ:
		return mkBool(fmt.Sprintf("(not (= %s %s))", a, b)), true
	case token.LSS:
		return mkBool(fmt.Sprintf("(< %s %s)", a, b)), true
	case token.LEQ:
		return mkBool(fmt.Sprintf("(<= %s %s)", a, b)), true
	case token.GTR:
		return mkBool(fmt.Sprintf("(> %s %s)", a, b)), true
	case token.GEQ:
		return mkBool(fmt.Sprintf("(>= %s %s)", a, b)), true
	}
	panic(Inconclusive{fmt.Sprintf("unsupported integer operator %s on symbolic value", op)})
}

func isSymBool(v value) bool { _, ok := v.(SymBool); return ok }

func negate(v value) value {
	switch v := v.(type) {
	case bool:
		return !v
	case SymBool:
		return mkBool(notTerm(v.T))
	}
	panic("negate")
}

func containsSym(v value) bool {
	switch v := v.(type) {
	case SymInt, SymBool, *Rope:
		return true
	case structure:
		for _, f := range v {
			if containsSym(f) {
				return true
			}
		}
	case array:
		for _, f := range v {
			if containsSym(f) {
				return true
			}
		}
	case iface:
		return containsSym(v.v)
	}
	return false
}

// symConv handles conversions of symbolic values.
// convNarrow is conv with Go's wrap-around for a symbolic integer converted
// to a narrower integer type: when the path condition does not confine the
// value to the destination's range, the result is the value modulo 2^width
// (two's complement for signed types).
func convNarrow(c *Ctx, tDst, tSrc types.Type, x value) value {
	if s, ok := x.(SymInt); ok && c != nil {
		if b, ok := tDst.Underlying().(*types.Basic); ok && b.Info()&types.IsInteger != 0 {
			var w uint
			signed := true
			switch b.Kind() {
			case types.Int8:
				w = 8
			case types.Int16:
				w = 16
			case types.Int32:
				w = 32
			case types.Uint8:
				w, signed = 8, false
			case types.Uint16:
				w, signed = 16, false
			case types.Uint32:
				w, signed = 32, false
			}
			srcNarrow := false
			if sb, ok := tSrc.Underlying().(*types.Basic); ok {
				switch sb.Kind() {
				case types.Int8, types.Uint8:
					srcNarrow = w >= 8 && (sb.Kind() == types.Uint8) == !signed
				}
			}
			if w != 0 && !srcNarrow && CellWidth(s.T) == 0 {
				lo, hi := int64(0), int64(1)<<w-1
				if signed {
					lo, hi = -(int64(1) << (w - 1)), int64(1)<<(w-1)-1
				}
				if c.Valid(fmt.Sprintf("(and (>= %s %s) (<= %s %s))", s.T, intLit(lo), s.T, intLit(hi))) != Unsat {
					m := intLit(int64(1) << w)
					t := fmt.Sprintf("(mod %s %s)", s.T, m)
					if signed {
						h := intLit(int64(1) << (w - 1))
						t = fmt.Sprintf("(- (mod (+ %s %s) %s) %s)", s.T, h, m, h)
					}
					return SymInt{T: t, Kind: b.Kind()}
				}
			}
		}
	}
	return conv(tDst, tSrc, x)
}

func symConv(utDst, utSrc types.Type, x value) (value, bool) {
	switch x := x.(type) {
	case SymInt:
		if b, ok := utDst.(*types.Basic); ok {
			if b.Info()&types.IsInteger != 0 {
				// widths: the harnesses keep symbolic integers far inside
				// the 64-bit range, so int<->int64 conversions are exact.
				return SymInt{T: x.T, Kind: b.Kind()}, true
			}
			if b.Kind() == types.String {
				// string(rune): a one-character string
				return charRope(x), true
			}
		}
		panic(Inconclusive{fmt.Sprintf("unsupported conversion of symbolic integer to %s", utDst)})
	case *Rope:
		if b, ok := utDst.(*types.Basic); ok && b.Kind() == types.String {
			return x, true
		}
		panic(Inconclusive{fmt.Sprintf("unsupported conversion of symbolic string to %s", utDst)})
	}
	return nil, false
}

// A symbolic input character is an Int variable named cell<w>_<k>, where w
// is its UTF-8 byte width; charRope builds the one-character string.
func charRope(x SymInt) value {
	w := CellWidth(x.T)
	if w == 0 {
		panic(Inconclusive{"string(rune) of a symbolic integer that is not an input cell"})
	}
	return &Rope{Parts: []Part{{Kind: PCell, Lit: x.T, Width: w}}}
}

// CellWidth returns the byte width of a cell variable (0 if t is not one).
func CellWidth(t string) int {
	if len(t) > 5 && t[:4] == "cell" && t[4] >= '1' && t[4] <= '4' && t[5] == '_' {
		return int(t[4] - '0')
	}
	return 0
}

// ---- indexing / slicing / ranging ropes

// ropeOffsets returns, for each part, its start offset, provided all parts
// before it have a fixed length; ok=false from the first unknown length on.
func ropeIndex(curCtx *Ctx, r *Rope, i int64) value {
	off := int64(0)
	for _, p := range r.Parts {
		n, t := partLenTerm(p)
		if t != "" && i == off && p.Kind == PCode && curCtx != nil && len(p.Lit) > 3 && p.Lit[0] == 'c' && p.Lit[2] == '_' && p.Lit[1] != 'T' {
			// the first character of an identifier-coded atom: an
			// uninterpreted function of the code, ranging over the characters an
			// identifier can start with (codes.go)
			c := curCtx
			if c.FirstSeen == nil {
				c.FirstSeen = map[string]bool{}
			}
			if !c.FirstSeen[p.Lit] {
				c.FirstSeen[p.Lit] = true
				f := "(cfirst " + p.Lit + ")"
				c.Assume(fmt.Sprintf("(and (or (= %s 95) (and (>= %s 65) (<= %s 90)) (and (>= %s 97) (<= %s 122))) (=> (= %s 95) (>= (clen %s) 2)))", f, f, f, f, f, f, p.Lit))
			}
			return SymInt{T: "(cfirst " + p.Lit + ")", Kind: types.Uint8}
		}
		if t != "" {
			panic(Inconclusive{"index into a string after a part of unknown length"})
		}
		if i < off+int64(n) {
			switch p.Kind {
			case PLit:
				return p.Lit[i-off]
			case PCell:
				if p.Width == 1 {
					return SymInt{T: p.Lit, Kind: types.Uint8}
				}
				panic(Inconclusive{"byte index into a multi-byte symbolic character"})
			}
		}
		off += int64(n)
	}
	panic(TargetPanic{Msg: fmt.Sprintf("index out of range [%d] with length %d", i, off)})
}

// lenMinus recognises the term "len(r) - k" (as built by the interpreter's
// subtraction) for a small constant k.
func lenMinus(r *Rope, v value) (int, bool) {
	s, ok := v.(SymInt)
	if !ok {
		return 0, false
	}
	lt, ok := ropeLen(r).(SymInt)
	if !ok {
		return 0, false
	}
	pre := "(- " + lt.T + " "
	if strings.HasPrefix(s.T, pre) && strings.HasSuffix(s.T, ")") {
		if k, err := strconv.Atoi(s.T[len(pre) : len(s.T)-1]); err == nil && k >= 0 && k <= 64 {
			return k, true
		}
	}
	return 0, false
}

// ropeTail splits r into (head, tail) with len(tail) == k, when the tail lies
// inside the last literal part or inside a final String atom (which is then
// split by a fresh variable); ok is false otherwise.
func ropeTail(c *Ctx, r *Rope, k int) (head, tail value, ok bool) {
	return partsTail(c, r.Parts, k)
}

func partsTail(c *Ctx, parts []Part, k int) (head, tail value, ok bool) {
	n := len(parts)
	if k == 0 {
		return mkRope(parts), "", true
	}
	if n == 0 {
		return nil, nil, false // the string is shorter than k
	}
	last := parts[n-1]
	rest := func(used int) (value, value, bool) {
		// the last part is shorter than k: the tail reaches into the parts before
		h, t, ok := partsTail(c, parts[:n-1], k-used)
		if !ok {
			return nil, nil, false
		}
		return h, ropeConcat(t, mkRope([]Part{last})), true
	}
	switch last.Kind {
	case PLit:
		if len(last.Lit) >= k {
			h := append([]Part{}, parts[:n-1]...)
			if r := last.Lit[:len(last.Lit)-k]; r != "" {
				h = append(h, Part{Kind: PLit, Lit: r})
			}
			return mkRope(h), last.Lit[len(last.Lit)-k:], true
		}
		return rest(len(last.Lit))
	case PAtom:
		// a = a1 ++ a2 with |a2| = k when |a| >= k
		if c.Decide(fmt.Sprintf("(>= (str.len %s) %d)", last.Lit, k)) {
			a1, a2 := c.NewStr("head"), c.NewStr("tail")
			c.addPC(fmt.Sprintf("(and (= %s (str.++ %s %s)) (= (str.len %s) %d))", last.Lit, a1, a2, a2, k))
			if ai := c.Atoms[last.Lit]; ai != nil {
				c.Atoms[a1] = &AtomInfo{Name: a1, Class: ai.Class, NoBytes: ai.NoBytes}
				c.Atoms[a2] = &AtomInfo{Name: a2, Class: ai.Class, NoBytes: ai.NoBytes}
			}
			h := append(append([]Part{}, parts[:n-1]...), Part{Kind: PAtom, Lit: a1})
			return mkRope(h), mkRope([]Part{{Kind: PAtom, Lit: a2}}), true
		}
		for j := 0; j < k; j++ {
			if c.Decide(fmt.Sprintf("(= (str.len %s) %d)", last.Lit, j)) {
				return rest(j)
			}
		}
	}
	return nil, nil, false
}

func ropeSlice(c *Ctx, r *Rope, lo, hi value) value {
	// s[len(s)-k:] and s[:len(s)-k]: the idiom for looking at / cutting off a
	// suffix of known size, without enumerating the possible lengths
	if hi == nil {
		if k, ok := lenMinus(r, lo); ok {
			if _, t, ok := ropeTail(c, r, k); ok {
				return t
			}
		}
	}
	if lo == nil {
		if k, ok := lenMinus(r, hi); ok {
			if h, _, ok := ropeTail(c, r, k); ok {
				return h
			}
		}
	}
	if os.Getenv("VERIF_DEBUG_SLICE") != "" {
		fmt.Fprintf(os.Stderr, "ropeSlice fallback: rope=%s lo=%v hi=%v len=%v\n", toString(r), lo, hi, ropeLen(r))
	}
	l := int64(0)
	if lo != nil {
		l = c.Concretize(lo, 0, 1<<20)
	}
	h := int64(-1)
	if hi != nil {
		h = c.Concretize(hi, 0, 1<<20)
	}
	var out []Part
	off := int64(0)
	unknown := false
	for _, p := range r.Parts {
		n, t := partLenTerm(p)
		if t != "" {
			// part of unknown length: only allowed if entirely inside an open-ended slice
			if h >= 0 {
				panic(Inconclusive{"slice with upper bound across a part of unknown length"})
			}
			if off < l {
				panic(Inconclusive{"slice boundary after a part of unknown length"})
			}
			unknown = true
			out = append(out, p)
			continue
		}
		if unknown {
			out = append(out, p)
			continue
		}
		ps, pe := off, off+int64(n)
		off = pe
		end := h
		if end < 0 {
			end = 1 << 40
		}
		if pe <= l || ps >= end {
			continue
		}
		s, e := ps, pe
		if l > s {
			s = l
		}
		if end < e {
			e = end
		}
		if s == ps && e == pe {
			out = append(out, p)
			continue
		}
		if p.Kind != PLit {
			panic(Inconclusive{"slice boundary inside a symbolic character"})
		}
		out = append(out, Part{Kind: PLit, Lit: p.Lit[s-ps : e-ps]})
	}
	if !unknown {
		if l > off || (h >= 0 && (h > off || l > h)) {
			panic(TargetPanic{Msg: fmt.Sprintf("slice bounds out of range [%d:%d] with length %d", l, h, off)})
		}
	}
	return mkRope(out)
}

type ropeIter struct {
	parts []Part
	pi    int
	li    int // offset inside literal part
	off   int
}

func newRopeIter(r *Rope) *ropeIter { return &ropeIter{parts: r.Parts} }

func (it *ropeIter) next() tuple {
	for it.pi < len(it.parts) {
		p := it.parts[it.pi]
		switch p.Kind {
		case PLit:
			if it.li >= len(p.Lit) {
				it.pi++
				it.li = 0
				continue
			}
			ch, n := utf8.DecodeRuneInString(p.Lit[it.li:])
			pos := it.off
			it.li += n
			it.off += n
			return tuple{true, pos, ch}
		case PCell:
			pos := it.off
			it.off += p.Width
			it.pi++
			return tuple{true, pos, SymInt{T: p.Lit, Kind: types.Int32}}
		default:
			panic(Inconclusive{"range over a string with a part of unknown content"})
		}
	}
	return tuple{false, nil, nil}
}
