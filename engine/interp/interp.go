// Copyright 2013 The Go Authors. All rights reserved.
// Use of this source code is governed by a BSD-style
// license that can be found in the LICENSE file.

// Package ssa/interp defines an interpreter for the SSA
// representation of Go programs.
//
// This interpreter is provided as an adjunct for testing the SSA
// construction algorithm.  Its purpose is to provide a minimal
// metacircular implementation of the dynamic semantics of each SSA
// instruction.  It is not, and will never be, a production-quality Go
// interpreter.
//
// The following is a partial list of Go features that are currently
// unsupported or incomplete in the interpreter.
//
// * Unsafe operations, including all uses of unsafe.Pointer, are
// impossible to support given the "boxed" value representation we
// have chosen.
//
// * The reflect package is only partially implemented.
//
// * The "testing" package is no longer supported because it
// depends on low-level details that change too often.
//
// * "sync/atomic" operations are not atomic due to the "boxed" value
// representation: it is not possible to read, modify and write an
// interface value atomically. As a consequence, Mutexes are currently
// broken.
//
// * recover is only partially implemented.  Also, the interpreter
// makes no attempt to distinguish target panics from interpreter
// crashes.
//
// * the sizes of the int, uint and uintptr types in the target
// program are assumed to be the same as those of the interpreter
// itself.
//
// * all values occupy space, even those of types defined by the spec
// to have zero size, e.g. struct{}.  This can cause asymptotic
// performance degradation.
//
// * os.Exit is implemented using panic, causing deferred functions to
// run.
package interp // import "golang.org/x/tools/go/ssa/interp"

import (
	"fmt"
	"go/token"
	"go/types"
	"log"
	"os"
	"slices"

	"golang.org/x/tools/go/ssa"
	)

type continuation int

const (
	kNext continuation = iota
	kReturn
	kJump
)

// Mode is a bitmask of options affecting the interpreter.
type Mode uint

const (
	DisableRecover Mode = 1 << iota // Disable recover() in target programs; show interpreter crash instead.
	EnableTracing                   // Print a trace of all instructions as they are interpreted.
)

type methodSet map[string]*ssa.Function

// State shared between all interpreted goroutines.
type interpreter struct {
	osArgs             []value                // the value of os.Args
	prog               *ssa.Program           // the SSA program
	globals            map[*ssa.Global]*value // addresses of global variables (immutable)
	mode               Mode                   // interpreter options
	runtimeErrorString types.Type             // the runtime.errorString type
	sizes              types.Sizes            // the effective type-sizing function
	goroutines         int32                  // atomically updated
	ctx                *Ctx                   // symbolic context of the current path (nil: concrete only)
	eng                *Engine
}

type deferred struct {
	fn    value
	args  []value
	instr *ssa.Defer
	tail  *deferred
}

type frame struct {
	i                *interpreter
	caller           *frame
	fn               *ssa.Function
	block, prevBlock *ssa.BasicBlock
	env              map[ssa.Value]value // dynamic values of SSA variables
	locals           []value
	defers           *deferred
	result           value
	panicking        bool
	panic            interface{}
	phitemps         []value // temporaries for parallel phi assignment
}

func (fr *frame) get(key ssa.Value) value {
	switch key := key.(type) {
	case nil:
		// Hack; simplifies handling of optional attributes
		// such as ssa.Slice.{Low,High}.
		return nil
	case *ssa.Function, *ssa.Builtin:
		return key
	case *ssa.Const:
		return constValue(key)
	case *ssa.Global:
		if r, ok := fr.i.globals[key]; ok {
			return r
		}
		if r, ok := hostUnicodeTable(key); ok {
			return r
		}
	}
	if r, ok := fr.env[key]; ok {
		return r
	}
	panic(fmt.Sprintf("get: no value for %T: %v", key, key.Name()))
}

// runDefer runs a deferred call d.
// It always returns normally, but may set or clear fr.panic.
func (fr *frame) runDefer(d *deferred) {
	if fr.i.mode&EnableTracing != 0 {
		fmt.Fprintf(os.Stderr, "%s: invoking deferred function call\n",
			fr.i.prog.Fset.Position(d.instr.Pos()))
	}
	var ok bool
	defer func() {
		if !ok {
			// Deferred call created a new state of panic.
			fr.panicking = true
			fr.panic = recover()
		}
	}()
	call(fr.i, fr, d.instr.Pos(), d.fn, d.args)
	ok = true
}

// runDefers executes fr's deferred function calls in LIFO order.
//
// On entry, fr.panicking indicates a state of panic; if
// true, fr.panic contains the panic value.
//
// On completion, if a deferred call started a panic, or if no
// deferred call recovered from a previous state of panic, then
// runDefers itself panics after the last deferred call has run.
//
// If there was no initial state of panic, or it was recovered from,
// runDefers returns normally.
func (fr *frame) runDefers() {
	for d := fr.defers; d != nil; d = d.tail {
		fr.runDefer(d)
	}
	fr.defers = nil
	if fr.panicking {
		panic(fr.panic) // new panic, or still panicking
	}
}

// lookupMethod returns the method set for type typ, which may be one
// of the interpreter's fake types.
func lookupMethod(i *interpreter, typ types.Type, meth *types.Func) *ssa.Function {
	return i.prog.LookupMethod(typ, meth.Pkg(), meth.Name())
}

// visitInstr interprets a single ssa.Instruction within the activation
// record frame.  It returns a continuation value indicating where to
// read the next instruction from.
func visitInstr(fr *frame, instr ssa.Instruction) continuation {
	switch instr := instr.(type) {
	case *ssa.DebugRef:
		// no-op

	case *ssa.UnOp:
		fr.env[instr] = unop(instr, fr.get(instr.X))

	case *ssa.BinOp:
		fr.env[instr] = binop(instr.Op, instr.X.Type(), fr.get(instr.X), fr.get(instr.Y))

	case *ssa.Call:
		fn, args := prepareCall(fr, &instr.Call)
		fr.env[instr] = call(fr.i, fr, instr.Pos(), fn, args)

	case *ssa.ChangeInterface:
		fr.env[instr] = fr.get(instr.X)

	case *ssa.ChangeType:
		fr.env[instr] = fr.get(instr.X) // (can't fail)

	case *ssa.Convert:
		fr.env[instr] = convNarrow(fr.i.ctx, instr.Type(), instr.X.Type(), fr.get(instr.X))

	case *ssa.SliceToArrayPointer:
		fr.env[instr] = sliceToArrayPointer(instr.Type(), instr.X.Type(), fr.get(instr.X))

	case *ssa.MakeInterface:
		fr.env[instr] = iface{t: instr.X.Type(), v: fr.get(instr.X)}

	case *ssa.Extract:
		fr.env[instr] = fr.get(instr.Tuple).(tuple)[instr.Index]

	case *ssa.Slice:
		fr.env[instr] = slice(fr.i.ctx, fr.get(instr.X), fr.get(instr.Low), fr.get(instr.High), fr.get(instr.Max))

	case *ssa.Return:
		switch len(instr.Results) {
		case 0:
		case 1:
			fr.result = fr.get(instr.Results[0])
		default:
			var res []value
			for _, r := range instr.Results {
				res = append(res, fr.get(r))
			}
			fr.result = tuple(res)
		}
		fr.block = nil
		return kReturn

	case *ssa.RunDefers:
		fr.runDefers()

	case *ssa.Panic:
		panic(targetPanic{fr.get(instr.X)})

	case *ssa.Store:
		store(mustDeref(instr.Addr.Type()), fr.get(instr.Addr).(*value), fr.get(instr.Val))

	case *ssa.If:
		succ := 1
		cond := fr.get(instr.Cond)
		if b, ok := cond.(bool); ok {
			if b {
				succ = 0
			}
		} else if fr.i.ctx.DecideValue(cond) {
			succ = 0
		}
		fr.prevBlock, fr.block = fr.block, fr.block.Succs[succ]
		return kJump

	case *ssa.Jump:
		fr.prevBlock, fr.block = fr.block, fr.block.Succs[0]
		return kJump

	case *ssa.Defer:
		fn, args := prepareCall(fr, &instr.Call)
		defers := &fr.defers
		if into := fr.get(instr.DeferStack); into != nil {
			defers = into.(**deferred)
		}
		*defers = &deferred{
			fn:    fn,
			args:  args,
			instr: instr,
			tail:  *defers,
		}

	case *ssa.Alloc:
		var addr *value
		if instr.Heap {
			// new
			addr = new(value)
			fr.env[instr] = addr
		} else {
			// local
			addr = fr.env[instr].(*value)
		}
		*addr = zero(mustDeref(instr.Type()))

	case *ssa.MakeSlice:
		slice := make([]value, fr.i.ctx.Concretize(fr.get(instr.Cap), 0, 64))
		tElt := instr.Type().Underlying().(*types.Slice).Elem()
		for i := range slice {
			slice[i] = zero(tElt)
		}
		fr.env[instr] = slice[:fr.i.ctx.Concretize(fr.get(instr.Len), 0, 64)]

	case *ssa.MakeMap:
		var reserve int64
		if instr.Reserve != nil {
			reserve = asInt64(fr.get(instr.Reserve))
		}
		if !fitsInt(reserve, fr.i.sizes) {
			panic(fmt.Sprintf("ssa.MakeMap.Reserve value %d does not fit in int", reserve))
		}
		fr.env[instr] = newOmap(instr.Type().Underlying().(*types.Map).Key())

	case *ssa.Range:
		fr.env[instr] = rangeIter(fr, instr, fr.get(instr.X), instr.X.Type())

	case *ssa.Next:
		fr.env[instr] = fr.get(instr.Iter).(iter).next()

	case *ssa.FieldAddr:
		fr.env[instr] = &(*fr.get(instr.X).(*value)).(structure)[instr.Field]

	case *ssa.Field:
		fr.env[instr] = fr.get(instr.X).(structure)[instr.Field]

	case *ssa.IndexAddr:
		x := fr.get(instr.X)
		idx := fr.get(instr.Index)
		if _, ok := idx.(SymInt); ok {
			n := int64(0)
			switch x := x.(type) {
			case []value:
				n = int64(len(x))
			case *value:
				n = int64(len((*x).(array)))
			}
			// out-of-range subscripts are explored too (as -1 / n)
			idx = int(fr.i.ctx.Concretize(idx, -1, n))
		}
		switch x := x.(type) {
		case []value:
			fr.env[instr] = &x[asInt64(idx)]
		case *value: // *array
			fr.env[instr] = &(*x).(array)[asInt64(idx)]
		default:
			panic(fmt.Sprintf("unexpected x type in IndexAddr: %T", x))
		}

	case *ssa.Index:
		x := fr.get(instr.X)
		idx := fr.get(instr.Index)

		switch x := x.(type) {
		case array:
			fr.env[instr] = x[asInt64(idx)]
		case string:
			fr.env[instr] = x[asInt64(idx)]
		case *Rope:
			fr.env[instr] = ropeIndex(fr.i.ctx, x, asInt64(idx))
		default:
			panic(fmt.Sprintf("unexpected x type in Index: %T", x))
		}

	case *ssa.Lookup:
		fr.env[instr] = lookup(fr.i.ctx, instr, fr.get(instr.X), fr.get(instr.Index))

	case *ssa.MapUpdate:
		m := fr.get(instr.Map)
		key := fr.get(instr.Key)
		v := fr.get(instr.Value)
		switch m := m.(type) {
		case *omap:
			m.insert(fr.i.ctx, key, v)
		default:
			panic(fmt.Sprintf("illegal map type: %T", m))
		}

	case *ssa.TypeAssert:
		fr.env[instr] = typeAssert(fr.i, instr, fr.get(instr.X).(iface))

	case *ssa.MakeClosure:
		var bindings []value
		for _, binding := range instr.Bindings {
			bindings = append(bindings, fr.get(binding))
		}
		fr.env[instr] = &closure{instr.Fn.(*ssa.Function), bindings}

	case *ssa.Phi:
		log.Fatal("unreachable") // phis are processed at block entry

	default:
		panic(fmt.Sprintf("unexpected instruction: %T", instr))
	}

	// if val, ok := instr.(ssa.Value); ok {
	// 	fmt.Println(toString(fr.env[val])) // debugging
	// }

	return kNext
}

// prepareCall determines the function value and argument values for a
// function call in a Call, Go or Defer instruction, performing
// interface method lookup if needed.
func prepareCall(fr *frame, call *ssa.CallCommon) (fn value, args []value) {
	v := fr.get(call.Value)
	if call.Method == nil {
		// Function call.
		fn = v
	} else {
		// Interface method invocation.
		recv := v.(iface)
		if recv.t == nil {
			panic("method invoked on nil interface")
		}
		if f := lookupMethod(fr.i, recv.t, call.Method); f == nil {
			// Unreachable in well-typed programs.
			panic(fmt.Sprintf("method set for dynamic type %v does not contain %s", recv.t, call.Method))
		} else {
			fn = f
		}
		args = append(args, recv.v)
	}
	for _, arg := range call.Args {
		args = append(args, fr.get(arg))
	}
	return
}

// call interprets a call to a function (function, builtin or closure)
// fn with arguments args, returning its result.
// callpos is the position of the callsite.
func call(i *interpreter, caller *frame, callpos token.Pos, fn value, args []value) value {
	switch fn := fn.(type) {
	case *ssa.Function:
		if fn == nil {
			panic("call of nil function") // nil of func type
		}
		return callSSA(i, caller, callpos, fn, args, nil)
	case *closure:
		return callSSA(i, caller, callpos, fn.Fn, args, fn.Env)
	case *ssa.Builtin:
		return callBuiltin(caller, callpos, fn, args)
	}
	panic(fmt.Sprintf("cannot call %T", fn))
}

func loc(fset *token.FileSet, pos token.Pos) string {
	if pos == token.NoPos {
		return ""
	}
	return " at " + fset.Position(pos).String()
}

// callSSA interprets a call to function fn with arguments args,
// and lexical environment env, returning its result.
// callpos is the position of the callsite.
func callSSA(i *interpreter, caller *frame, callpos token.Pos, fn *ssa.Function, args []value, env []value) value {
	if i.mode&EnableTracing != 0 {
		fset := fn.Prog.Fset
		// TODO(adonovan): fix: loc() lies for external functions.
		fmt.Fprintf(os.Stderr, "Entering %s%s.\n", fn, loc(fset, fn.Pos()))
		suffix := ""
		if caller != nil {
			suffix = ", resuming " + caller.fn.String() + loc(fset, callpos)
		}
		defer fmt.Fprintf(os.Stderr, "Leaving %s%s.\n", fn, suffix)
	}
	fr := &frame{
		i:      i,
		caller: caller, // for panic/recover
		fn:     fn,
	}
	if fn.Parent() == nil {
		name := fn.String()
		if i.ctx != nil && i.ctx.Hooks != nil {
			if h := i.ctx.Hooks[name]; h != nil {
				if r, ok := h(i.ctx, args); ok {
					return r
				}
			}
		}
		if ext := externals[name]; ext != nil {
			return ext(fr, args)
		}
		if !i.eng.interpretable(fn) {
			if r, ok := callHost(fr, name, args); ok {
				return r
			}
			if fn.Name() == "init" && fn.Signature.Recv() == nil {
				return nil // initialisers of foreign packages are not run
			}
			panic(Inconclusive{"no intrinsic for " + name})
		}
		if fn.Blocks == nil {
			panic("no code for function: " + name)
		}
	}

	// generic function body?
	if fn.TypeParams().Len() > 0 && len(fn.TypeArgs()) == 0 {
		panic("interp requires ssa.BuilderMode to include InstantiateGenerics to execute generics")
	}

	fr.env = make(map[ssa.Value]value)
	fr.block = fn.Blocks[0]
	fr.locals = make([]value, len(fn.Locals))
	for i, l := range fn.Locals {
		fr.locals[i] = zero(mustDeref(l.Type()))
		fr.env[l] = &fr.locals[i]
	}
	for i, p := range fn.Params {
		fr.env[p] = args[i]
	}
	for i, fv := range fn.FreeVars {
		fr.env[fv] = env[i]
	}
	for fr.block != nil {
		runFrame(fr)
	}
	// Destroy the locals to avoid accidental use after return.
	for i := range fn.Locals {
		fr.locals[i] = bad{}
	}
	if i.ctx != nil && i.ctx.PostHooks != nil && fn.Parent() == nil {
		if h := i.ctx.PostHooks[fn.String()]; h != nil {
			return h(i.ctx, args, fr.result)
		}
	}
	return fr.result
}

// runFrame executes SSA instructions starting at fr.block and
// continuing until a return, a panic, or a recovered panic.
//
// After a panic, runFrame panics.
//
// After a normal return, fr.result contains the result of the call
// and fr.block is nil.
//
// A recovered panic in a function without named return parameters
// (NRPs) becomes a normal return of the zero value of the function's
// result type.
//
// After a recovered panic in a function with NRPs, fr.result is
// undefined and fr.block contains the block at which to resume
// control.
func runFrame(fr *frame) {
	defer func() {
		if fr.block == nil {
			return // normal return
		}
		if true {
			return // the code under test has no recover(); let panics propagate to the explorer
		}
		fr.panicking = true
		fr.panic = recover()
		if fr.i.mode&EnableTracing != 0 {
			fmt.Fprintf(os.Stderr, "Panicking: %T %v.\n", fr.panic, fr.panic)
		}
		fr.runDefers()
		fr.block = fr.fn.Recover
	}()

	for {
		if fr.i.mode&EnableTracing != 0 {
			fmt.Fprintf(os.Stderr, ".%s:\n", fr.block)
		}

		nonPhis := executePhis(fr)
		if fr.i.eng != nil {
			fr.i.eng.cover(fr.block)
		}
		if c := fr.i.ctx; c != nil {
			c.Steps += int64(len(nonPhis))
			if c.Fuel > 0 && c.Steps > c.Fuel {
				fr.block = nil
				panic(FuelExhausted{c.Steps})
			}
		}
		for _, instr := range nonPhis {
			if fr.i.mode&EnableTracing != 0 {
				if v, ok := instr.(ssa.Value); ok {
					fmt.Fprintln(os.Stderr, "\t", v.Name(), "=", instr)
				} else {
					fmt.Fprintln(os.Stderr, "\t", instr)
				}
			}
			if visitInstr(fr, instr) == kReturn {
				return
			}
			// Inv: kNext (continue) or kJump (last instr)
		}
	}
}

// executePhis executes the phi-nodes at the start of the current
// block and returns the non-phi instructions.
func executePhis(fr *frame) []ssa.Instruction {
	firstNonPhi := -1
	for i, instr := range fr.block.Instrs {
		if _, ok := instr.(*ssa.Phi); !ok {
			firstNonPhi = i
			break
		}
	}
	// Inv: 0 <= firstNonPhi; every block contains a non-phi.

	nonPhis := fr.block.Instrs[firstNonPhi:]
	if firstNonPhi > 0 {
		phis := fr.block.Instrs[:firstNonPhi]
		// Execute parallel assignment of phis.
		//
		// See "the swap problem" in Briggs et al's "Practical Improvements
		// to the Construction and Destruction of SSA Form" for discussion.
		predIndex := slices.Index(fr.block.Preds, fr.prevBlock)
		fr.phitemps = fr.phitemps[:0]
		for _, phi := range phis {
			phi := phi.(*ssa.Phi)
			if fr.i.mode&EnableTracing != 0 {
				fmt.Fprintln(os.Stderr, "\t", phi.Name(), "=", phi)
			}
			fr.phitemps = append(fr.phitemps, fr.get(phi.Edges[predIndex]))
		}
		for i, phi := range phis {
			fr.env[phi.(*ssa.Phi)] = fr.phitemps[i]
		}
	}
	return nonPhis
}

// doRecover implements the recover() built-in (the code under test has none).
func doRecover(caller *frame) value {
	return iface{}
}
