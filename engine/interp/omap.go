package interp

// Ordered maps: every Go map of the interpreted program is an *omap, an
// association list in insertion order (so that iteration is deterministic and
// can be permuted on purpose) with solver-decided key equality for symbolic
// keys.

import (
	"fmt"
	"go/types"
)

type omap struct {
	keyT types.Type
	keys []value
	vals []value
	idx  map[value]int // concrete hashable keys -> position (-1 if deleted)
	nsym int           // number of keys that are not in idx
}

func newOmap(kt types.Type) *omap {
	return &omap{keyT: kt, idx: map[value]int{}}
}

// hostHashable reports whether k can be a key of a host map with the right
// equivalence (basic concrete values and pointers).
func hostHashable(k value) bool {
	switch k.(type) {
	case bool, int, int8, int16, int32, int64, uint, uint8, uint16, uint32, uint64, uintptr, string, *value, float32, float64:
		return true
	}
	return false
}

func (m *omap) len() int {
	if m == nil {
		return 0
	}
	return len(m.keys)
}

// find returns the position of key k, or -1. Symbolic comparisons are
// resolved with c.DecideValue.
func (m *omap) find(c *Ctx, k value) int {
	if m == nil {
		return -1
	}
	if hostHashable(k) {
		if i, ok := m.idx[k]; ok {
			return i
		}
		if m.nsym == 0 {
			return -1
		}
		for i, ek := range m.keys {
			if hostHashable(ek) {
				continue
			}
			if decideEq(c, m.keyT, ek, k) {
				return i
			}
		}
		return -1
	}
	for i, ek := range m.keys {
		if decideEq(c, m.keyT, ek, k) {
			return i
		}
	}
	return -1
}

func decideEq(c *Ctx, t types.Type, x, y value) bool {
	r := symEquals(t, x, y)
	if b, ok := r.(bool); ok {
		return b
	}
	if c == nil {
		panic(EngineError{"symbolic map key outside of an exploration"})
	}
	return c.DecideValue(r)
}

func (m *omap) lookup(c *Ctx, k value) (value, bool) {
	i := m.find(c, k)
	if i < 0 {
		return nil, false
	}
	return m.vals[i], true
}

func (m *omap) insert(c *Ctx, k, v value) {
	if m == nil {
		panic(TargetPanic{Msg: "assignment to entry in nil map"})
	}
	if i := m.find(c, k); i >= 0 {
		m.vals[i] = v
		return
	}
	if hostHashable(k) {
		m.idx[k] = len(m.keys)
	} else {
		m.nsym++
	}
	m.keys = append(m.keys, k)
	m.vals = append(m.vals, v)
}

func (m *omap) delete(c *Ctx, k value) {
	i := m.find(c, k)
	if i < 0 {
		return
	}
	if hostHashable(m.keys[i]) {
		delete(m.idx, m.keys[i])
	} else {
		m.nsym--
	}
	m.keys = append(m.keys[:i:i], m.keys[i+1:]...)
	m.vals = append(m.vals[:i:i], m.vals[i+1:]...)
	for j := i; j < len(m.keys); j++ {
		if hostHashable(m.keys[j]) {
			m.idx[m.keys[j]] = j
		}
	}
}

type omapIter struct {
	keys, vals []value
	i          int
}

func (it *omapIter) next() tuple {
	if it.i >= len(it.keys) {
		return tuple{false, nil, nil}
	}
	k, v := it.keys[it.i], it.vals[it.i]
	it.i++
	return tuple{true, k, v}
}

// rangeOmap creates an iterator; under PermuteMaps the order is a
// nondeterministic permutation chosen through c.Choose.
func rangeOmap(c *Ctx, m *omap, site string) iter {
	if m == nil {
		return &omapIter{}
	}
	keys := append([]value{}, m.keys...)
	vals := append([]value{}, m.vals...)
	if c != nil && len(keys) > 1 {
		if c.MapSitesSeen == nil {
			c.MapSitesSeen = map[string]int{}
		}
		if len(keys) > c.MapSitesSeen[site] {
			c.MapSitesSeen[site] = len(keys)
		}
	}
	if c != nil && (c.PermuteMaps || c.MapSitePermute[site]) && len(keys) > 1 {
		n := len(keys)
		pk := make([]value, 0, n)
		pv := make([]value, 0, n)
		for len(keys) > 0 {
			j := c.Choose(len(keys), fmt.Sprintf("maporder:%s:%d", site, len(keys)))
			pk = append(pk, keys[j])
			pv = append(pv, vals[j])
			keys = append(keys[:j:j], keys[j+1:]...)
			vals = append(vals[:j:j], vals[j+1:]...)
		}
		keys, vals = pk, pv
	}
	return &omapIter{keys: keys, vals: vals}
}

// symEquals is Go's == for type t on possibly symbolic values: the result is
// a bool or a SymBool.
func symEquals(t types.Type, x, y value) value {
	switch x := x.(type) {
	case string:
		if ys, ok := y.(string); ok {
			return x == ys
		}
		return ropeEq(x, y)
	case *Rope:
		return ropeEq(x, y)
	case SymInt:
		return mkBool(fmt.Sprintf("(= %s %s)", x.T, intTerm(y)))
	case SymBool:
		return mkBool(fmt.Sprintf("(= %s %s)", x.T, boolTerm(y)))
	case structure:
		ys := y.(structure)
		tStruct := t.Underlying().(*types.Struct)
		terms := []string{}
		for i, n := 0, tStruct.NumFields(); i < n; i++ {
			f := tStruct.Field(i)
			if f.Anonymous() && false {
				continue
			}
			r := symEquals(f.Type(), x[i], ys[i])
			if b, ok := r.(bool); ok {
				if !b {
					return false
				}
				continue
			}
			terms = append(terms, r.(SymBool).T)
		}
		return mkBool(andTerm(terms...))
	case array:
		ys := y.(array)
		tElt := t.Underlying().(*types.Array).Elem()
		terms := []string{}
		for i := range x {
			r := symEquals(tElt, x[i], ys[i])
			if b, ok := r.(bool); ok {
				if !b {
					return false
				}
				continue
			}
			terms = append(terms, r.(SymBool).T)
		}
		return mkBool(andTerm(terms...))
	case iface:
		yi := y.(iface)
		if !sameType(x.t, yi.t) {
			return false
		}
		if x.t == nil {
			return true
		}
		return symEquals(x.t, x.v, yi.v)
	}
	switch y := y.(type) {
	case SymInt:
		return mkBool(fmt.Sprintf("(= %s %s)", intTerm(x), y.T))
	case SymBool:
		return mkBool(fmt.Sprintf("(= %s %s)", boolTerm(x), y.T))
	case *Rope:
		return ropeEq(x, y)
	}
	return equals(t, x, y)
}
