package interp

// Post-lexing symbolisation (DESIGN.md §2.3): the real lexer runs concretely
// on the rendered skeleton text; afterwards placeholder literals are replaced
// by atoms and line numbers by symbolic integers.

import "regexp"

const nextTokenFn = "(*github.com/huderlem/poryscript/lexer.Lexer).NextToken"

// Token field indexes (token.Token).
const (
	TokType = iota
	TokLiteral
	TokLine
	TokStartChar
	TokStartUtf8
	TokEndLine
	TokEndChar
	TokEndUtf8
)

// EnableTokenSymbolisation installs the NextToken post-hook. placeholders
// maps exact IDENT/INT/STRINGTYPE literals to replacement string values; re
// (optional) finds placeholders inside STRING literals, each looked up in the
// same map; lineMap (optional) maps a concrete line number to a value.
func (c *Ctx) EnableTokenSymbolisation(placeholders map[string]Value, re *regexp.Regexp, lineMap func(int) Value) {
	c.Placeholders = placeholders
	c.PlaceholderRe = re
	c.LineMap = lineMap
	if c.PostHooks == nil {
		c.PostHooks = map[string]func(c *Ctx, args []value, result value) value{}
	}
	c.PostHooks[nextTokenFn] = func(c *Ctx, args []value, result value) value {
		tok := result.(structure)
		out := make(structure, len(tok))
		copy(out, tok)
		typ, _ := tok[TokType].(string)
		lit, isConc := tok[TokLiteral].(string)
		if isConc {
			switch typ {
			case "STRING":
				if c.PlaceholderRe != nil {
					out[TokLiteral] = substitutePlaceholders(c, lit)
				}
			case "RAWSTRING":
			default:
				if tr, ok := c.TypePlaceholders[lit]; ok {
					out[TokType], out[TokLiteral] = tr[0], tr[1]
				} else if r, ok := c.Placeholders[lit]; ok {
					out[TokLiteral] = r
				}
			}
		}
		if c.LineMap != nil {
			if ln, ok := tok[TokLine].(int); ok {
				out[TokLine] = c.LineMap(ln)
			}
			if ln, ok := tok[TokEndLine].(int); ok {
				out[TokEndLine] = c.LineMap(ln)
			}
		}
		return out
	}
}

func substitutePlaceholders(c *Ctx, lit string) value {
	idx := c.PlaceholderRe.FindAllStringIndex(lit, -1)
	if len(idx) == 0 {
		return lit
	}
	var parts []value
	pos := 0
	for _, m := range idx {
		name := lit[m[0]:m[1]]
		r, ok := c.Placeholders[name]
		if !ok {
			continue
		}
		parts = append(parts, lit[pos:m[0]], r)
		pos = m[1]
	}
	parts = append(parts, lit[pos:])
	return ropeConcat(parts...)
}
