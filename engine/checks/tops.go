package checks

// Top-level skeleton nodes other than scripts, and helpers for structural
// assertions on output ropes (DESIGN.md §4.3).

import (
	"fmt"
	"strings"

	"verif/engine/interp"
)

// ---- const

type ConstTop struct {
	Name  Tok
	Value []Tok
	Line  int
}

func (t *ConstTop) Print(p *printer) {
	t.Line = p.emit("const " + t.Name.Text() + " = " + toksText(t.Value))
}

// ---- text

// StrLit is one string-literal token: an optional type prefix and content
// pieces (atoms or literal text).
type StrLit struct {
	Type  *Tok  // nil: no prefix
	Parts []Tok // concatenated content
}

func (s *StrLit) text() string {
	var sb strings.Builder
	if s.Type != nil {
		sb.WriteString(s.Type.Text())
	}
	sb.WriteByte('"')
	for _, p := range s.Parts {
		sb.WriteString(p.Text())
	}
	sb.WriteByte('"')
	return sb.String()
}

// Content is the value of the literal's content.
func (s *StrLit) Content() interp.Value {
	var vs []interp.Value
	for _, p := range s.Parts {
		vs = append(vs, p.Val())
	}
	return interp.Concat(vs...)
}

type TextTop struct {
	Name  *Atom
	Scope string
	// Lits: adjacent string literals (the lexer merges them with "\n");
	// the type prefix of the first applies.
	Lits []*StrLit
	Line int
	LitLine int
}

func (t *TextTop) Print(p *printer) {
	h := "text"
	if t.Scope != "" {
		h += "(" + t.Scope + ")"
	}
	t.Line = p.emit(h + " " + t.Name.Placeholder() + " {")
	p.ind++
	for i, l := range t.Lits {
		ln := p.emit(l.text())
		if i == 0 {
			t.LitLine = ln
		}
	}
	p.ind--
	p.emit("}")
}

// ---- movement / mart

type Step struct {
	Name  Tok
	Mult  *Tok // "* N"
	Comma bool
	Line  int
}

type MovementTop struct {
	Name  *Atom
	Scope string
	Steps []*Step
	Line  int
}

func stepsText(p *printer, steps []*Step) {
	for _, s := range steps {
		t := s.Name.Text()
		if s.Mult != nil {
			t += " * " + s.Mult.Text()
		}
		if s.Comma {
			t += ","
		}
		s.Line = p.emit(t)
	}
}

func (t *MovementTop) Print(p *printer) {
	h := "movement"
	if t.Scope != "" {
		h += "(" + t.Scope + ")"
	}
	t.Line = p.emit(h + " " + t.Name.Placeholder() + " {")
	p.ind++
	stepsText(p, t.Steps)
	p.ind--
	p.emit("}")
}

type MartTop struct {
	Name  *Atom
	Scope string
	Items []*Step
	Line  int
}

func (t *MartTop) Print(p *printer) {
	h := "mart"
	if t.Scope != "" {
		h += "(" + t.Scope + ")"
	}
	t.Line = p.emit(h + " " + t.Name.Placeholder() + " {")
	p.ind++
	stepsText(p, t.Items)
	p.ind--
	p.emit("}")
}

// ---- raw

type RawTopStmt struct {
	Lines    []string
	KwLine   int
	TickLine int
	SameLine bool // backtick on the line of the keyword
}

func (t *RawTopStmt) Print(p *printer) {
	if t.SameLine {
		t.KwLine = p.emit("raw `")
		t.TickLine = t.KwLine
	} else {
		t.KwLine = p.emit("raw")
		t.TickLine = p.emit("`")
	}
	for _, l := range t.Lines {
		p.emit(l)
	}
	p.emit("`")
}

// ---- mapscripts

type MapEntry struct {
	Type   *Atom
	Kind   string // plain | inline | table
	Label  *Atom  // plain
	Body   []Stmt // inline
	Rows   []*MapRow
	Line   int
}

type MapRow struct {
	Cond  []Tok
	Value []Tok
	Label *Atom  // plain row
	Body  []Stmt // inline row (Label == nil)
	Line  int
}

type MapScriptsTop struct {
	Name    *Atom
	Scope   string
	Entries []*MapEntry
	Line    int
}

func (t *MapScriptsTop) Print(p *printer) {
	h := "mapscripts"
	if t.Scope != "" {
		h += "(" + t.Scope + ")"
	}
	t.Line = p.emit(h + " " + t.Name.Placeholder() + " {")
	p.ind++
	for _, e := range t.Entries {
		switch e.Kind {
		case "plain":
			e.Line = p.emit(e.Type.Placeholder() + ": " + e.Label.Placeholder())
		case "inline":
			e.Line = p.emit(e.Type.Placeholder() + " {")
			p.block(e.Body)
			p.emit("}")
		case "table":
			e.Line = p.emit(e.Type.Placeholder() + " [")
			p.ind++
			for _, r := range e.Rows {
				if r.Label != nil {
					r.Line = p.emit(toksText(r.Cond) + ", " + toksText(r.Value) + ": " + r.Label.Placeholder())
				} else {
					r.Line = p.emit(toksText(r.Cond) + ", " + toksText(r.Value) + " {")
					p.block(r.Body)
					p.emit("}")
				}
			}
			p.ind--
			p.emit("]")
		}
	}
	p.ind--
	p.emit("}")
}

// ---- structural assertions on outputs

// codeLines returns the output's lines without line markers; blank lines
// are kept (they separate top-level statements).
func outputLines(out interp.Value, keepMarkers bool) []interp.Value {
	var res []interp.Value
	for _, ln := range SplitLines(out) {
		ps := interp.Parts(ln)
		if !keepMarkers && len(ps) > 0 && ps[0].Kind == interp.PLit && strings.HasPrefix(ps[0].Lit, "# ") {
			continue
		}
		res = append(res, ln)
	}
	return res
}

// expectLines asserts that got equals want line by line for every model of
// the path condition.
func expectLines(x *OracleCtx, sub, what string, got, want []interp.Value) *Violation {
	n := len(got)
	if len(want) < n {
		n = len(want)
	}
	for i := 0; i < n; i++ {
		switch sameValue(x.C, got[i], want[i]) {
		case 1:
		case 0:
			return &Violation{Sub: sub, Msg: fmt.Sprintf("%s: line %d is %s, expected %s", what, i+1, interp.ToString(got[i]), interp.ToString(want[i]))}
		case -1:
			return &Violation{Sub: sub, Query: interp.Not(interp.BoolTerm(interp.StrEq(got[i], want[i]))), Msg: fmt.Sprintf("%s: line %d is %s, expected %s (for some names)", what, i+1, interp.ToString(got[i]), interp.ToString(want[i]))}
		default:
			panic(interp.Inconclusive{Msg: "solver unknown in line comparison"})
		}
	}
	if len(got) != len(want) {
		return &Violation{Sub: sub, Msg: fmt.Sprintf("%s: %d lines, expected %d", what, len(got), len(want))}
	}
	return nil
}

func vlines(vs ...interp.Value) []interp.Value { return vs }

func cat(vs ...interp.Value) interp.Value { return interp.Concat(vs...) }

// nonBlank drops empty lines (layout between top-level statements).
func nonBlank(ls []interp.Value) []interp.Value {
	var out []interp.Value
	for _, l := range ls {
		if !isEmpty(l) {
			out = append(out, l)
		}
	}
	return out
}
