package checks

import (
	"fmt"
	"strings"

	"verif/engine/interp"
)

type c12Shape struct {
	Template string `json:"template"`
	Forms    string `json:"forms"`
	Default  bool   `json:"default"`
	Lint     bool   `json:"lint"`
}

// c12Tpl: a program with one poryswitch (possibly with a nested one); splice(i)
// gives the program with the poryswitch replaced by case i's content
// (i == len(labels): the '_' case).
type c12Tpl struct {
	name    string
	forms   string
	atoms   *AtomTable
	key     *Atom
	val     *Atom
	labels  []*Atom
	hasDflt bool
	src     string
	spliced []string // one per label, then '_' if hasDflt
	typedDefault bool
}

// c12Build builds a template. forms is a string of 'c' (colon) / 'b' (brace)
// per named case; dflt adds a '_' case (colon form if dfltBrace is false).
func c12Build(kind, forms string, dflt, dfltBrace bool) *c12Tpl {
	t := &c12Tpl{name: kind, forms: forms, atoms: &AtomTable{Coded: true}, hasDflt: dflt}
	if dflt {
		if dfltBrace {
			t.forms += "+_b"
		} else {
			t.forms += "+_c"
		}
	}
	at := t.atoms
	t.key = at.New(ClsIdent, "swkey", "")
	t.val = at.New(ClsIdent, "swval", "")
	ph := func(a *Atom) string { return a.Placeholder() }
	n := len(forms)
	for i := 0; i < n; i++ {
		t.labels = append(t.labels, at.New(ClsIdent, "caselabel", "caselabels", "_"))
	}
	total := n
	if dflt {
		total++
	}
	// content of case i for each position kind: (colon-form content must be a single unit)
	var contents []string    // as written inside the case
	var contentsOut []string // as spliced into the surrounding construct
	wrap := func(i int, content string) string {
		brace := dfltBrace
		lbl := "_"
		if i < n {
			brace = forms[i] == 'b'
			lbl = ph(t.labels[i])
		}
		if brace {
			return lbl + " {\n" + content + "\n}"
		}
		return lbl + ": " + content
	}
	isBrace := func(i int) bool {
		if i < n {
			return forms[i] == 'b'
		}
		return dfltBrace
	}
	var pre, post string
	switch kind {
	case "statements-plain-selected":
		s := at.New(ClsUserName, "script", "names")
		c0 := at.New(ClsPlainCmd, "cmd", "")
		c1 := at.New(ClsPlainCmd, "cmd", "")
		pre = "script " + ph(s) + " {\n" + ph(c0) + "\npory"
		post = ph(c1) + "(\"after$\")\n}"
		for i := 0; i < total; i++ {
			ca := at.New(ClsPlainCmd, "cmd", "")
			var content string
			if i < n {
				// named cases: no inline text or moves() at all
				content = fmt.Sprintf("%s(%s)", ph(ca), ph(at.New(ClsIdent, "arg", "")))
				if isBrace(i) {
					content += "\n" + ph(at.New(ClsPlainCmd, "cmd", ""))
				}
			} else {
				content = fmt.Sprintf("%s(\"only in the default case$\")", ph(ca))
				if isBrace(i) {
					content += fmt.Sprintf("\n%s(moves(walk_up))", ph(at.New(ClsPlainCmd, "cmd", "")))
				}
			}
			contents = append(contents, content)
			contentsOut = append(contentsOut, content)
		}
	case "statements", "statements-nested", "statements-nested-default", "statements-nested-colon":
		s := at.New(ClsUserName, "script", "names")
		c0 := at.New(ClsPlainCmd, "cmd", "")
		c1 := at.New(ClsPlainCmd, "cmd", "")
		pre = "script " + ph(s) + " {\n" + ph(c0) + "\npory"
		post = ph(c1) + "(\"after$\")\n}"
		for i := 0; i < total; i++ {
			ca := at.New(ClsPlainCmd, "cmd", "")
			cb := at.New(ClsPlainCmd, "cmd", "")
			f := at.New(ClsIdent, "flag", "")
			var content string
			if isBrace(i) {
				content = fmt.Sprintf("%s(\"text %d$\")\nif (flag(%s)) {\n%s\n}", ph(ca), i, ph(f), ph(cb))
				if kind == "statements-nested" && i == 0 {
					// a nested poryswitch on the same key: its selection follows the same value
					content += fmt.Sprintf("\nporyswitch(%s) {\n%s: %s(\"nested$\")\n_: %s\n}", ph(t.key), ph(t.labels[0]), ph(cb), ph(ca))
				}
			} else {
				content = fmt.Sprintf("%s(\"text %d$\", %s)", ph(ca), i, ph(f))
				if kind == "statements-nested-colon" && i == 0 {
					// the single statement of a colon-form case is itself a
					// poryswitch (on the same key); other cases follow it
					content = fmt.Sprintf("poryswitch(%s) {\n%s: %s(\"nested$\")\n_: %s\n}", ph(t.key), ph(t.labels[0]), ph(cb), ph(ca))
				}
			}
			if kind == "statements-nested-default" && i == n {
				// inside the '_' case: a poryswitch on the same key that has a case
				// for label 0 only and no '_' - when the outer '_' is selected the
				// inner one matches nothing and the program must be rejected
				content += fmt.Sprintf("\nporyswitch(%s) {\n%s: %s\n}", ph(t.key), ph(t.labels[0]), ph(cb))
			}
			contents = append(contents, content)
			out := content
			if kind == "statements-nested-colon" && i == 0 && !isBrace(i) {
				out = fmt.Sprintf("%s(\"nested$\")", ph(cb))
			}
			if kind == "statements-nested" && i == 0 && isBrace(i) {
				// when case 0 is selected the nested poryswitch selects its first case too
				out = fmt.Sprintf("%s(\"text %d$\")\nif (flag(%s)) {\n%s\n}\n%s(\"nested$\")", ph(ca), i, ph(f), ph(cb), ph(cb))
			}
			contentsOut = append(contentsOut, out)
		}
	case "text":
		tn := at.New(ClsUserName, "text", "names")
		pre = "text " + ph(tn) + " {\npory"
		post = "}"
		types := []string{"", "ascii", "braille", ""}
		for i := 0; i < total; i++ {
			ty := types[i%len(types)]
			if i == total-1 && dflt {
				ty = "ascii"
				t.typedDefault = true
			}
			content := fmt.Sprintf("%s\"content %d\"", ty, i)
			contents = append(contents, content)
			contentsOut = append(contentsOut, content)
		}
	case "movement", "moves", "mart", "movement-empty-case", "mart-empty-case", "movement-nested", "moves-nested", "mart-nested":
		emptyFirst := strings.HasSuffix(kind, "-empty-case")
		nestedFirst := strings.HasSuffix(kind, "-nested")
		kind := strings.TrimSuffix(strings.TrimSuffix(kind, "-empty-case"), "-nested")
		var open, close string
		mk := func() string { return ph(at.New(ClsIdent, "step", "")) }
		switch kind {
		case "movement":
			m := at.New(ClsUserName, "mv", "names")
			open, close = "movement "+ph(m)+" {\n"+mk()+"\n", mk()+"\n}"
		case "moves":
			s := at.New(ClsUserName, "script", "names")
			c := at.New(ClsPlainCmd, "cmd", "")
			open, close = "script "+ph(s)+" {\n"+ph(c)+"(moves("+mk()+"\n", mk()+"))\n}"
		case "mart":
			m := at.New(ClsUserName, "mart", "names")
			open, close = "mart "+ph(m)+" {\n"+mk()+"\n", mk()+"\n}"
		}
		pre, post = open+"pory", close
		for i := 0; i < total; i++ {
			var content string
			if isBrace(i) {
				content = mk() + " " + mk()
				if kind != "mart" {
					content = mk() + " * 2 " + mk()
				}
				if emptyFirst && i == 0 {
					content = ""
				}
			} else {
				content = mk()
			}
			out := content
			if nestedFirst && i == 0 {
				// the first case consists of a nested poryswitch on the same key
				// (when it is selected, the inner one selects its first case too)
				inner := mk()
				content = fmt.Sprintf("poryswitch(%s) {\n%s: %s\n_: %s\n}", ph(t.key), ph(t.labels[0]), inner, mk())
				out = inner
			}
			contents = append(contents, content)
			contentsOut = append(contentsOut, out)
		}
	}
	var cases []string
	for i := 0; i < total; i++ {
		cases = append(cases, wrap(i, contents[i]))
	}
	sw := "poryswitch(" + ph(t.key) + ") {\n" + strings.Join(cases, "\n") + "\n}"
	t.src = strings.Replace(pre, "pory", sw, 1) + "\n" + post
	for i := 0; i < total; i++ {
		t.spliced = append(t.spliced, strings.Replace(pre, "pory", contentsOut[i], 1)+"\n"+post)
	}
	// no case selected and no default: spliced with nothing (lint mode)
	t.spliced = append(t.spliced, strings.Replace(pre, "pory", "", 1)+"\n"+post)
	return t
}

// c12WithConst puts a constant definition in front of the program and of
// every spliced reference; the constant's name is a free identifier, so it may
// be spelled like a case label or like the switch value (case labels and the
// -s value are not constant use sites).
func c12WithConst(t *c12Tpl) *c12Tpl {
	c := *t
	k := t.atoms.New(ClsIdent, "const", "")
	n := t.atoms.New(ClsNum, "cv", "")
	pre := "const " + k.Placeholder() + " = " + n.Placeholder() + "\n"
	c.name = t.name + "+const"
	c.src = pre + t.src
	c.spliced = nil
	for _, s := range t.spliced {
		c.spliced = append(c.spliced, pre+s)
	}
	return &c
}

// c12ManyTextsCase: n text statements whose body is a poryswitch, then a
// script, a movement and a mart with one each: every one of them selects its
// case as if it were the only poryswitch of the file.
func c12ManyTextsCase(n int) *Case {
	atoms := &AtomTable{Coded: true}
	key := atoms.New(ClsIdent, "swkey", "")
	val := atoms.New(ClsIdent, "swval", "", "_")
	cmd := atoms.New(ClsPlainCmd, "cmd", "")
	var sb strings.Builder
	for i := 0; i < n; i++ {
		fmt.Fprintf(&sb, "text ManyText%d {\n  poryswitch(%s) {\n    %s: \"sel %d$\"\n    _: \"other$\"\n  }\n}\n", i, key.Placeholder(), val.Placeholder(), i)
	}
	fmt.Fprintf(&sb, "script AfterTexts {\n  poryswitch(%s) {\n    %s { %s }\n    _ { end }\n  }\n}\nmovement AfterMove {\n  poryswitch(%s) {\n    %s: walk_up\n    _: walk_down\n  }\n}\nmart AfterMart {\n  poryswitch(%s) {\n    %s: ITEM_A\n    _: ITEM_B\n  }\n}",
		key.Placeholder(), val.Placeholder(), cmd.Placeholder(), key.Placeholder(), val.Placeholder(), key.Placeholder(), val.Placeholder())
	prog := &Program{Atoms: atoms, Tops: []interface{}{&TopRaw{Text: sb.String()}}}
	cs := &Case{Name: fmt.Sprintf("c12/many-text-poryswitches/%d", n), Prog: prog, NonTrivial: true,
		Variants: []Variant{{Name: "opt", Opt: CompileOpts{Optimize: true, SwKeys: []Tok{A(key)}, SwVals: []Tok{A(val)}}}},
		Shape:    c12Shape{Template: fmt.Sprintf("many-text-poryswitches-%d", n)}, MaxPaths: 16}
	cs.Oracle = func(x *OracleCtx) *Violation {
		res := x.Res["opt"]
		if res.Err.IsErr || res.Err.Panic != "" {
			return &Violation{Sub: "accept", Msg: "the program with the poryswitches is rejected: " + interp.ToString(res.Err.Msg) + res.Err.Panic}
		}
		lines := nonBlank(outputLines(res.Out, false))
		count := func(w interp.Value) int {
			k := 0
			for _, l := range lines {
				if sameValue(x.C, l, w) == 1 {
					k++
				}
			}
			return k
		}
		for i := 0; i < n; i++ {
			if count(fmt.Sprintf("\t.string \"sel %d$\"", i)) != 1 {
				return &Violation{Sub: "equivalence", Msg: fmt.Sprintf("text %d does not carry its selected case exactly once", i)}
			}
		}
		for _, w := range []interp.Value{cat("\t", cmd.Val), "\twalk_up", "\t.2byte ITEM_A"} {
			if count(w) != 1 {
				return &Violation{Sub: "equivalence", Msg: "the selected case " + interp.ToString(w) + " after the texts is not emitted exactly once"}
			}
		}
		if count("\t.string \"other$\"")+count("\twalk_down")+count("\t.2byte ITEM_B") != 0 {
			return &Violation{Sub: "equivalence", Msg: "content of a '_' case is emitted although the named case matches"}
		}
		return nil
	}
	return cs
}

func c12Case(t *c12Tpl, lint bool) *Case {
	prog := &Program{Atoms: t.atoms, Tops: []interface{}{&TopRaw{Text: t.src}}}
	opt := CompileOpts{Optimize: true, SwKeys: []Tok{A(t.key)}, SwVals: []Tok{A(t.val)}, Lint: lint}
	if lint {
		opt.SwKeys, opt.SwVals = nil, nil
	}
	variants := []Variant{{Name: "base", Opt: opt}}
	for i, s := range t.spliced {
		so := CompileOpts{Optimize: true, Lint: lint}
		if !lint && strings.Contains(s, "poryswitch(") {
			so.SwKeys, so.SwVals = opt.SwKeys, opt.SwVals // the reference still contains a (nested) poryswitch
		}
		variants = append(variants, Variant{Name: fmt.Sprintf("spliced%d", i), Opt: so, Prog: &Program{Atoms: t.atoms, Tops: []interface{}{&TopRaw{Text: s}}}})
	}
	shape := c12Shape{Template: t.name, Forms: t.forms, Default: t.hasDflt, Lint: lint}
	cs := &Case{Name: fmt.Sprintf("c12/%s/%s/lint=%v", t.name, t.forms, lint), Prog: prog, Variants: variants, NonTrivial: true, Shape: shape, MaxPaths: 256}
	cs.Oracle = func(x *OracleCtx) *Violation {
		base := x.Res["base"]
		if base.Err.Panic != "" {
			return &Violation{Sub: "panic", Msg: base.Err.Panic}
		}
		n := len(t.labels)
		sel := -1
		if !lint {
			for i, l := range t.labels {
				if decideSame(x.C, t.val.Val, l.Val) {
					sel = i
					break
				}
			}
		}
		tags := []string{}
		if sel == -1 && t.hasDflt {
			sel = n
			if t.typedDefault {
				tags = append(tags, "typed_default_selected")
			}
		}
		if sel == -1 {
			if lint {
				// lint mode: switches are not given; no case is selected, never an error
				if base.Err.IsErr {
					return &Violation{Sub: "lint", Msg: "lint mode failed although only the switch value is missing: " + interp.ToString(base.Err.Msg)}
				}
				return nil
			}
			if !base.Err.IsErr {
				return &Violation{Sub: "no-match", Msg: "no case matches and there is no '_' case, but compilation succeeded"}
			}
			return nil
		}
		want := x.Res[fmt.Sprintf("spliced%d", sel)]
		if want.Err.IsErr {
			// the program with the selected case spliced in is itself rejected
			// (e.g. a nested poryswitch in it has no matching case): so must be
			// the program with the poryswitch
			if !base.Err.IsErr {
				return &Violation{Sub: "accept", Msg: fmt.Sprintf("the program compiles although the program with case #%d spliced in is rejected (%s)", sel, interp.ToString(want.Err.Msg)), Tags: tags}
			}
			return nil
		}
		if base.Err.IsErr {
			if strings.HasPrefix(t.name, "statements-nested-default") && sel != n && strings.Contains(interp.ToString(base.Err.Msg), "no poryswitch case found") {
				// explanation of known finding C12-unselected-case-nested-no-match:
				// the '_' case is not the selected one, and the only poryswitch
				// without a matching case is the one nested inside it
				tags = append(tags, "unselected_case_nested_no_match")
			}
			return &Violation{Sub: "accept", Msg: fmt.Sprintf("the program with the poryswitch is rejected (%s) although the program with case %d spliced in compiles", interp.ToString(base.Err.Msg), sel), Tags: append(tags, "form:"+t.forms)}
		}
		v := expectLines(x, "equivalence", fmt.Sprintf("output vs output of the program with case #%d spliced in", sel), outputLines(base.Out, false), outputLines(want.Out, false))
		if v != nil {
			v.Tags = append(v.Tags, tags...)
		}
		return v
	}
	return cs
}

func matchKnownC12(k *KnownFinding, f *Finding) bool {
	var sh c12Shape
	shapeOfFinding(f, &sh)
	has := func(tag string) bool {
		for _, t := range f.Tags {
			if t == tag {
				return true
			}
		}
		return false
	}
	switch kindOf(k) {
	case "poryswitch_fallback_type_dropped":
		return sh.Template == "text" && has("typed_default_selected") && f.ReplaySub == "equivalence"
	case "unselected_case_nested_no_match":
		return strings.HasPrefix(sh.Template, "statements-nested-default") && has("unselected_case_nested_no_match") && f.ReplaySub == "accept" && strings.Contains(f.ReplayMsg, "no poryswitch case found")
	case "brace_case_in_moves":
		return sh.Template == "moves" && strings.Contains(sh.Forms, "b") && (f.ReplaySub == "accept" || f.ReplaySub == "lint") && strings.Contains(f.ReplayMsg, "expected movement command, but got '}'")
	}
	return false
}

// RunC12 is the check of property C12.
func RunC12(env *Env, rep *Report) {
	var cases []*Case
	forms := []string{"c", "b", "cb", "bc"}
	if env.Tier == "thorough" {
		forms = []string{"c", "b", "cc", "cb", "bc", "bb", "ccb", "bcb", "cbc"}
	}
	for _, kind := range []string{"statements", "text", "movement", "moves", "mart", "statements-nested"} {
		for _, f := range forms {
			if kind == "statements-nested" && f[0] != 'b' {
				continue
			}
			for _, d := range []int{0, 1, 2} {
				t := c12Build(kind, f, d > 0, d == 2)
				cases = append(cases, c12Case(t, false))
				if d == 0 && len(f) == 1 {
					cases = append(cases, c12Case(c12Build(kind, f, false, false), true))
				}
			}
		}
	}
	// nested poryswitch in list cases (colon and brace form, followed by
	// another case) and inside the '_' case of a statement poryswitch
	for _, kind := range []string{"movement-nested", "moves-nested", "mart-nested"} {
		for _, f := range []string{"cc", "bc", "cb"} {
			if kind == "moves-nested" && f[0] == 'b' {
				continue // brace-form cases in moves() are exercised by the plain families
			}
			for _, d := range []int{0, 1} {
				cases = append(cases, c12Case(c12Build(kind, f, d > 0, false), false))
			}
		}
	}
	for _, f := range []string{"c", "cb"} {
		cases = append(cases, c12Case(c12Build("statements-nested-default", f, true, true), false))
	}
	for _, f := range []string{"cc", "cb"} {
		for _, d := range []int{0, 1, 2} {
			cases = append(cases, c12Case(c12Build("statements-nested-colon", f, d > 0, d == 2), false))
		}
	}
	// a constant that may be spelled like a case label or the switch value
	for _, kind := range []string{"statements", "text", "movement", "mart"} {
		for _, f := range []string{"c", "cb"} {
			for _, d := range []int{0, 1} {
				cases = append(cases, c12Case(c12WithConst(c12Build(kind, f, d > 0, false)), false))
			}
		}
	}
	// numeric case labels / -s values: cases are matched by spelling, so 0x1
	// or 01 is not the case for the value 1 (and the other way round)
	for _, kind := range []string{"statements", "text", "movement", "moves", "mart"} {
		for _, pr := range [][2]string{{"0x1", "1"}, {"01", "1"}, {"1", "0x1"}, {"16", "0x10"}, {"1", "1"}} {
			for _, d := range []int{0, 1} {
				t := c12Build(kind, "c", d > 0, false)
				lbl, val := pr[0], pr[1]
				t.labels[0].Fixed, t.val.Fixed = &lbl, &val
				cs := c12Case(t, false)
				cs.Name += "/numeric:" + lbl + "~" + val
				cases = append(cases, cs)
			}
		}
	}
	cases = append(cases, c12ManyTextsCase(17), c12ManyTextsCase(40))
	for _, f := range []string{"c", "b", "cb"} {
		for _, d := range []int{1, 2} {
			cases = append(cases, c12Case(c12Build("statements-plain-selected", f, true, d == 2), false))
		}
	}
	for _, kind := range []string{"movement-empty-case", "mart-empty-case"} {
		for _, d := range []int{1, 2} {
			cases = append(cases, c12Case(c12Build(kind, "b", true, d == 2), false))
			cases = append(cases, c12Case(c12Build(kind, "bc", true, d == 2), false))
		}
	}
	rep.Technique = "symbolic execution of the real poryswitch parsing (go/ssa) with symbolic -s value and case labels; relational assertion between the compilation of P and of P with the selected case spliced in, the match pattern decided by the solver (z3)"
	rep.Explanation = "Bounded symbolic verification, not a proof. Programs with a poryswitch in each of its four positions (statements - also with a nested poryswitch -, text, movement / moves() steps, mart items), up to the stated number of named cases in colon and brace form, with and without a '_' case, are compiled by symbolic execution with the -s value and every case label symbolic; in the same symbolic state the program with each case's content spliced in place of the poryswitch is compiled too. Which case matches is a solver-decided fork (first named case equal to the value, else '_', else none). Asserted: the output equals, line by line as ropes, the output of the program with exactly the selected case spliced in (so no token of another case influences it; inline text numbering included); no match and no '_' is an error; in lint mode a missing switch value is never an error. A subset is repeated with a constant definition in front whose name is free to coincide with a case label or with the -s value (neither is a constant use site)."
	rep.Bounds = map[string]interface{}{"positions": []string{"statements", "statements with nested poryswitch (in a named case; in the '_' case without a match)", "movement / moves() / mart with a nested poryswitch as a case's content", "text", "movement", "moves()", "mart"}, "case_forms": forms, "default_case": "absent / colon form / brace form", "cases": len(cases)}
	rep.Outside = []string{"more named cases", "deeper nesting", "parsing of the -s key=value flag (main.mapOption.Set)", "programs whose unselected cases do not parse (rejected by design)"}
	rep.Assumptions = []string{"case labels are pairwise distinct identifiers other than '_'", "names are generic identifiers (Int-coded)"}
	rep.Functions = []string{"parsePoryswitchHeader", "parsePoryswitchStatement", "parsePoryswitchStatementCases", "parsePoryswitchStatements", "parsePoryswitchTextStatement", "parsePoryswitchTextCases", "parsePoryswitchListStatement", "parsePoryswitchListCases", "parseMovementValue", "parseMartValue"}
	rep.Match = matchKnownC12
	src, _ := cases[0].Prog.Render()
	rep.AddSample(map[string]interface{}{"case": cases[0].Name, "source_with_holes": src})
	runWitness(env, rep, "c12-witness-wrong-case", func() *Case {
		t := c12Build("statements", "cb", true, false)
		// twin: splice the contents in the wrong order
		t.spliced[0], t.spliced[1] = t.spliced[1], t.spliced[0]
		return c12Case(t, false)
	})
	env.RunJobs(len(cases), rep, func(w *Worker, i int) { w.RunCase(cases[i], rep) })
}
