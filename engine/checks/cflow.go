package checks

// Shared pieces of the control-flow family (C01, C02, C03, C05, C11, C08):
// turning shapes into skeleton programs and the bisimulation oracle.

import (
	"fmt"

	"verif/engine/interp"
)

// shapeBuilder turns shapes into statements, creating atoms on the way.
type shapeBuilder struct {
	atoms   *AtomTable
	labels  []*Atom
	undef   *Atom
	condGen func(b *shapeBuilder) *Expr
	ncmd    int
}

func (b *shapeBuilder) cond() *Expr {
	if b.condGen != nil {
		return b.condGen(b)
	}
	return LeafFlag(b.atoms.New(ClsIdent, "flag", ""))
}

func (b *shapeBuilder) collectLabels(sh []*Sh) {
	walkSh(sh, func(s *Sh) {
		if s.K == "label" {
			b.labels = append(b.labels, b.atoms.New(ClsUserName, "lbl", "names"))
		}
	})
}

func (b *shapeBuilder) block(sh []*Sh, li *int) []Stmt {
	var out []Stmt
	for _, s := range sh {
		switch s.K {
		case "cmd":
			b.ncmd++
			out = append(out, &Cmd{Name: A(b.atoms.New(ClsPlainCmd, "cmd", ""))})
		case "end", "return":
			out = append(out, &Cmd{Name: L(s.K)})
		case "label":
			out = append(out, &Label{Name: b.labels[*li]})
			*li++
		case "goto":
			var t *Atom
			if s.Goto >= 0 {
				t = b.labels[s.Goto]
			} else {
				if b.undef == nil {
					b.undef = b.atoms.New(ClsUserName, "ext", "names")
				}
				t = b.undef
			}
			out = append(out, &Cmd{Name: L("goto"), Args: [][]Tok{{A(t)}}})
		case "break":
			out = append(out, &Break{})
		case "continue":
			out = append(out, &Continue{})
		case "if":
			out = append(out, &If{Conds: []*Expr{b.cond()}, Bodies: [][]Stmt{b.block(s.Blocks[0], li)}})
		case "ifelse":
			c := b.cond()
			b0 := b.block(s.Blocks[0], li)
			b1 := b.block(s.Blocks[1], li)
			out = append(out, &If{Conds: []*Expr{c}, Bodies: [][]Stmt{b0}, Else: b1, HasElse: true})
		case "ifelif":
			c0 := b.cond()
			b0 := b.block(s.Blocks[0], li)
			c1 := b.cond()
			b1 := b.block(s.Blocks[1], li)
			out = append(out, &If{Conds: []*Expr{c0, c1}, Bodies: [][]Stmt{b0, b1}})
		case "ifelifelse":
			c0 := b.cond()
			b0 := b.block(s.Blocks[0], li)
			c1 := b.cond()
			b1 := b.block(s.Blocks[1], li)
			b2 := b.block(s.Blocks[2], li)
			out = append(out, &If{Conds: []*Expr{c0, c1}, Bodies: [][]Stmt{b0, b1}, Else: b2, HasElse: true})
		case "ifchain", "ifchainelse":
			// if + (len(Blocks)-1 or -2) elifs [+ else]
			n := len(s.Blocks)
			if s.K == "ifchainelse" {
				n--
			}
			st := &If{}
			for i := 0; i < n; i++ {
				st.Conds = append(st.Conds, b.cond())
				st.Bodies = append(st.Bodies, b.block(s.Blocks[i], li))
			}
			if s.K == "ifchainelse" {
				st.HasElse = true
				st.Else = b.block(s.Blocks[n], li)
			}
			out = append(out, st)
		case "while":
			c := b.cond()
			out = append(out, &While{Cond: c, Body: b.block(s.Blocks[0], li)})
		case "whileinf":
			out = append(out, &While{Body: b.block(s.Blocks[0], li)})
		case "dowhile":
			body := b.block(s.Blocks[0], li)
			out = append(out, &DoWhile{Cond: b.cond(), Body: body})
		default:
			panic("shape kind " + s.K)
		}
	}
	return out
}

// scriptsOf lists the scripts of a program.
func scriptsOf(p *Program) []*Script {
	var res []*Script
	for _, t := range p.Tops {
		if s, ok := t.(*Script); ok {
			res = append(res, s)
		}
	}
	return res
}

// bisimOracle checks every variant's output against the reference semantics
// of every script.
func bisimOracle(sub string, scripts func(x *OracleCtx) []*Script, refOpt func(x *OracleCtx) RefOptions) func(x *OracleCtx) *Violation {
	return func(x *OracleCtx) *Violation {
		ss := scripts(x)
		var ro RefOptions
		if refOpt != nil {
			ro = refOpt(x)
		}
		ro.Coded = x.Case.Prog.Atoms.Coded
		_, entries := BuildRef(ss, ro)
		isEntry := func(name interp.Value) bool {
			for _, s := range ss {
				if sameValue(x.C, s.NameValue(), name) == 1 {
					return true
				}
			}
			return false
		}
		for _, v := range x.Case.Variants {
			res := x.Res[v.Name]
			if res.Err.Panic != "" {
				return &Violation{Sub: sub, Msg: "compilation panicked: " + res.Err.Panic}
			}
			if res.Err.IsErr {
				return &Violation{Sub: sub, Msg: fmt.Sprintf("variant %s: an accepted program was rejected: %s", v.Name, interp.ToString(res.Err.Msg))}
			}
			ag := BuildAsmGraph(x.C, res.Out, isEntry, x.Case.Prog.Atoms.Coded)
			for _, s := range ss {
				a0 := ag.EntryNode(x.C, s.NameValue())
				if a0 == nil {
					return &Violation{Sub: sub, Msg: fmt.Sprintf("variant %s: entry label of script %s is not defined in the output", v.Name, interp.ToString(s.NameValue()))}
				}
				var st bisimStats
				if m := Bisimulate(x.C, entries[s], a0, &st); m != nil {
					return &Violation{Sub: sub, Msg: fmt.Sprintf("variant %s, script %s: %s", v.Name, interp.ToString(s.NameValue()), m.Msg), Query: m.Query,
						Detail: []string{"source does: " + m.RefOut, "assembly does: " + m.AsmOut, fmt.Sprintf("after events: %v", m.Trail)}}
				}
			}
		}
		return nil
	}
}

var optVariants = []Variant{
	{Name: "opt", Opt: CompileOpts{Optimize: true}},
	{Name: "noopt", Opt: CompileOpts{Optimize: false}},
}
