package checks

import (
	"fmt"
	"strings"

	"verif/engine/interp"
)

// c06Use is one inline text or moves() argument in processing order.
type c06Use struct {
	owner   func() interp.Value // owning script's name
	isMove  bool
	content *Atom   // text: LINE atom
	fixed   string  // text: concrete content instead of an atom
	typ     string  // "", ascii, braille, custom
	typAtom *Atom   // custom type
	steps   []*Atom // moves: step atoms
	// the command line that carries the label: pieces before/after the label
	linePre, linePost func() interp.Value
	dead              bool // the use sits in an unselected poryswitch case: must leave no trace
}

type c06Prog struct {
	atoms  *AtomTable
	src    strings.Builder
	uses   []*c06Use
	cmds   int
	sw     [][2]Tok
	avs    []AVSpec
	userTexts []*Atom
	userMoves []*Atom
	scripts   []*Atom
}

func (p *c06Prog) newCmd() *Atom { p.cmds++; return p.atoms.New(ClsPlainCmd, "cmd", "cmds") }

func (u *c06Use) typeVal() interp.Value {
	if u.typAtom != nil {
		return u.typAtom.Val
	}
	return u.typ
}

func (u *c06Use) contentVal() interp.Value {
	if u.content != nil {
		return u.content.Val
	}
	return u.fixed
}

// fixedText creates a text use with a concrete content.
func (p *c06Prog) fixedText(owner func() interp.Value, typ, content string) (*c06Use, string) {
	u := &c06Use{owner: owner, typ: typ, fixed: content}
	p.uses = append(p.uses, u)
	return u, typ + "\"" + content + "\""
}

// text creates a text use and returns its source spelling.
func (p *c06Prog) text(owner func() interp.Value, typ string, shareWith *c06Use) (*c06Use, string) {
	u := &c06Use{owner: owner, typ: typ}
	if shareWith != nil {
		u.content = shareWith.content
		u.fixed = shareWith.fixed
	} else {
		u.content = p.atoms.New(ClsLine, "txt", "")
	}
	prefix := ""
	switch typ {
	case "custom":
		u.typAtom = p.atoms.New(ClsIdent, "strtype", "")
		prefix = u.typAtom.Placeholder()
	default:
		prefix = typ
	}
	p.uses = append(p.uses, u)
	if u.content != nil {
		return u, prefix + "\"" + u.content.Placeholder() + "\""
	}
	return u, prefix + "\"" + u.fixed + "\""
}

func (p *c06Prog) moves(owner func() interp.Value, n int) (*c06Use, string) {
	u := &c06Use{owner: owner, isMove: true}
	var parts []string
	for i := 0; i < n; i++ {
		a := p.atoms.New(ClsIdent, "step", "")
		u.steps = append(u.steps, a)
		parts = append(parts, a.Placeholder())
	}
	p.uses = append(p.uses, u)
	return u, "moves(" + strings.Join(parts, " ") + ")"
}

// cmdWith writes a command whose arguments are given; the argument equal to
// "@" is the hoisted one (use u).
func (p *c06Prog) cmdWith(u *c06Use, args ...string) string {
	c := p.newCmd()
	var pre, post []interp.Value
	var srcArgs []string
	seen := false
	var argAtoms []*Atom
	for _, a := range args {
		if strings.HasPrefix(a, "@") {
			seen = true
			srcArgs = append(srcArgs, a[1:])
			continue
		}
		at := p.atoms.New(ClsIdent, "arg", "")
		argAtoms = append(argAtoms, at)
		srcArgs = append(srcArgs, at.Placeholder())
		if !seen {
			pre = append(pre, at.Val)
		} else {
			post = append(post, at.Val)
		}
	}
	idxBefore := 0
	for _, a := range args {
		if strings.HasPrefix(a, "@") {
			break
		}
		idxBefore++
	}
	before := argAtoms[:idxBefore]
	after := argAtoms[idxBefore:]
	u.linePre = func() interp.Value {
		v := cat("\t", c.Val, " ")
		for _, a := range before {
			v = cat(v, a.Val, ", ")
		}
		return v
	}
	u.linePost = func() interp.Value {
		var v interp.Value = ""
		for _, a := range after {
			v = cat(v, ", ", a.Val)
		}
		return v
	}
	return c.Placeholder() + "(" + strings.Join(srcArgs, ", ") + ")"
}

type c06Shape struct {
	Template string `json:"template"`
}

func c06Build(template string) (*c06Prog, bool) {
	p := &c06Prog{atoms: &AtomTable{Coded: true}}
	w := func(format string, a ...interface{}) { fmt.Fprintf(&p.src, format+"\n", a...) }
	script := func() (*Atom, func() interp.Value) {
		s := p.atoms.New(ClsUserName, "script", "names")
		p.scripts = append(p.scripts, s)
		return s, func() interp.Value { return s.Val }
	}
	flag := func() string { return "flag(" + p.atoms.New(ClsIdent, "flag", "").Placeholder() + ")" }
	switch template {
	case "one":
		s, o := script()
		u, t := p.text(o, "", nil)
		w("script %s {\n  %s\n}", s.Placeholder(), p.cmdWith(u, "@"+t))
	case "second-arg":
		s, o := script()
		u, t := p.text(o, "", nil)
		w("script %s {\n  %s\n}", s.Placeholder(), p.cmdWith(u, "a", "@"+t, "b"))
	case "two":
		s, o := script()
		u0, t0 := p.text(o, "", nil)
		u1, t1 := p.text(o, "", nil)
		w("script %s {\n  %s\n  %s\n}", s.Placeholder(), p.cmdWith(u0, "@"+t0), p.cmdWith(u1, "@"+t1))
	case "four":
		s, o := script()
		var ls []string
		for i := 0; i < 4; i++ {
			u, t := p.text(o, "", nil)
			ls = append(ls, "  "+p.cmdWith(u, "@"+t))
		}
		w("script %s {\n%s\n}", s.Placeholder(), strings.Join(ls, "\n"))
	case "three-scripts":
		for i := 0; i < 3; i++ {
			s, o := script()
			u0, t0 := p.text(o, "", nil)
			u1, m1 := p.moves(o, 1)
			w("script %s {\n  %s\n  %s\n}", s.Placeholder(), p.cmdWith(u0, "@"+t0), p.cmdWith(u1, "@"+m1))
		}
	case "types":
		s, o := script()
		var lines []string
		for _, ty := range []string{"", "braille", "custom"} {
			u, t := p.text(o, ty, nil)
			lines = append(lines, "  "+p.cmdWith(u, "@"+t))
		}
		w("script %s {\n%s\n}", s.Placeholder(), strings.Join(lines, "\n"))
	case "same-content-different-type":
		s, o := script()
		u0, t0 := p.text(o, "", nil)
		u1, t1 := p.text(o, "braille", u0)
		u2, t2 := p.text(o, "custom", u0)
		w("script %s {\n  %s\n  %s\n  %s\n}", s.Placeholder(), p.cmdWith(u0, "@"+t0), p.cmdWith(u1, "@"+t1), p.cmdWith(u2, "@"+t2))
	case "two-scripts":
		s1, o1 := script()
		u0, t0 := p.text(o1, "", nil)
		w("script %s {\n  %s\n}", s1.Placeholder(), p.cmdWith(u0, "@"+t0))
		s2, o2 := script()
		u1, t1 := p.text(o2, "", nil)
		u2, t2 := p.text(o2, "", nil)
		w("script %s {\n  %s\n  %s\n}", s2.Placeholder(), p.cmdWith(u1, "@"+t1), p.cmdWith(u2, "a", "@"+t2))
	case "control-flow":
		s, o := script()
		u0, t0 := p.text(o, "", nil)
		u1, t1 := p.text(o, "", nil)
		u2, t2 := p.text(o, "", nil)
		w("script %s {\n  if (%s) {\n    %s\n  } else {\n    %s\n  }\n  while (%s) {\n    %s\n  }\n}", s.Placeholder(), flag(), p.cmdWith(u0, "@"+t0), p.cmdWith(u1, "@"+t1), flag(), p.cmdWith(u2, "@"+t2))
	case "switch":
		s, o := script()
		u0, t0 := p.text(o, "", nil)
		u1, t1 := p.text(o, "", nil)
		v := p.atoms.New(ClsIdent, "var", "")
		w("script %s {\n  switch (var(%s)) {\n    case 1:\n      %s\n    default:\n      %s\n  }\n}", s.Placeholder(), v.Placeholder(), p.cmdWith(u0, "@"+t0), p.cmdWith(u1, "@"+t1))
	case "autovar-chain", "autovar-group":
		s, o := script()
		u0, t0 := p.text(o, "", nil)
		u1, t1 := p.text(o, "", nil)
		av := p.atoms.New(ClsPlainCmd, "av", "cmds")
		res := p.atoms.New(ClsIdent, "res", "")
		p.avs = append(p.avs, AVSpec{Name: A(av), VarName: A(res), Pos: -1})
		u0.linePre = func() interp.Value { return cat("\t", av.Val, " ") }
		u0.linePost = func() interp.Value { return "" }
		cond := fmt.Sprintf("%s && %s(%s) || %s", flag(), av.Placeholder(), t0, flag())
		if template == "autovar-group" {
			cond = fmt.Sprintf("(%s(%s) == 1 || %s) && %s", av.Placeholder(), t0, flag(), flag())
		}
		w("script %s {\n  if (%s) {\n    %s\n  }\n}", s.Placeholder(), cond, p.cmdWith(u1, "@"+t1))
	case "autovar-and-run", "dowhile-autovar":
		s, o := script()
		av := p.atoms.New(ClsPlainCmd, "av", "cmds")
		res := p.atoms.New(ClsIdent, "res", "")
		p.avs = append(p.avs, AVSpec{Name: A(av), VarName: A(res), Pos: -1})
		avLine := func(u *c06Use) {
			u.linePre = func() interp.Value { return cat("\t", av.Val, " ") }
			u.linePost = func() interp.Value { return "" }
		}
		if template == "autovar-and-run" {
			// a run of four '&&' operands: the AutoVar commands with inline text
			// are the second and third (middle) ones
			u0, t0 := p.text(o, "", nil)
			u1, t1 := p.text(o, "", nil)
			u2, t2 := p.text(o, "", nil)
			av2 := p.atoms.New(ClsPlainCmd, "av", "cmds")
			p.avs = append(p.avs, AVSpec{Name: A(av2), VarName: A(res), Pos: -1})
			avLine(u0)
			u1.linePre = func() interp.Value { return cat("\t", av2.Val, " ") }
			u1.linePost = func() interp.Value { return "" }
			cond := fmt.Sprintf("%s && %s(%s) && %s(%s) == 2 && %s", flag(), av.Placeholder(), t0, av2.Placeholder(), t1, flag())
			w("script %s {\n  if (%s) {\n    %s\n  }\n}", s.Placeholder(), cond, p.cmdWith(u2, "@"+t2))
		} else {
			// do...while: the body is written (and numbered) before the condition
			u0, t0 := p.text(o, "", nil)
			u1, t1 := p.text(o, "", nil)
			u2, m2 := p.moves(o, 1)
			avLine(u1)
			w("script %s {\n  do {\n    %s\n    %s\n  } while (%s(%s) == 1)\n}", s.Placeholder(), p.cmdWith(u0, "@"+t0), p.cmdWith(u2, "@"+m2), av.Placeholder(), t1)
		}
	case "poryswitch-selected", "poryswitch-fallback":
		s, o := script()
		key := p.atoms.New(ClsIdent, "swkey", "")
		val := p.atoms.New(ClsIdent, "swval", "swvals", "_")
		other := p.atoms.New(ClsIdent, "swother", "swvals", "_")
		p.sw = append(p.sw, [2]Tok{A(key), A(val)})
		uA, tA := p.text(o, "", nil)
		lineA := p.cmdWith(uA, "@"+tA)
		uB, tB := p.text(o, "", nil)
		lineB := p.cmdWith(uB, "@"+tB)
		uC, tC := p.text(o, "", nil)
		lineC := p.cmdWith(uC, "@"+tC)
		if template == "poryswitch-selected" {
			uB.dead = true
			w("script %s {\n  poryswitch(%s) {\n    %s: %s\n    _: %s\n  }\n  %s\n}", s.Placeholder(), key.Placeholder(), val.Placeholder(), lineA, lineB, lineC)
		} else {
			uA.dead = true
			w("script %s {\n  poryswitch(%s) {\n    %s: %s\n    _: %s\n  }\n  %s\n}", s.Placeholder(), key.Placeholder(), other.Placeholder(), lineA, lineB, lineC)
		}
	case "poryswitch-selected-without-text":
		s, o := script()
		key := p.atoms.New(ClsIdent, "swkey", "")
		val := p.atoms.New(ClsIdent, "swval", "swvals", "_")
		p.sw = append(p.sw, [2]Tok{A(key), A(val)})
		plain := p.newCmd()
		uB, tB := p.text(o, "", nil)
		lineB := p.cmdWith(uB, "@"+tB)
		uB.dead = true
		uM, mM := p.moves(o, 1)
		lineM := p.cmdWith(uM, "@"+mM)
		uM.dead = true
		uC, tC := p.text(o, "", nil)
		lineC := p.cmdWith(uC, "@"+tC)
		w("script %s {\n  poryswitch(%s) {\n    %s: %s\n    _ {\n      %s\n      %s\n    }\n  }\n  %s\n}", s.Placeholder(), key.Placeholder(), val.Placeholder(), plain.Placeholder(), lineB, lineM, lineC)
	case "mapscripts":
		m := p.atoms.New(ClsUserName, "map", "names")
		ty1 := p.atoms.New(ClsIdent, "mstype", "mstypes")
		ty2 := p.atoms.New(ClsIdent, "mstype", "mstypes")
		ty3 := p.atoms.New(ClsIdent, "mstype", "mstypes")
		o1 := func() interp.Value { return cat(m.Val, "_", ty1.Val) }
		o2 := func() interp.Value { return cat(m.Val, "_", ty2.Val, "_0") }
		o3 := func() interp.Value { return cat(m.Val, "_", ty3.Val) }
		u0, t0 := p.text(o1, "", nil)
		l0 := p.cmdWith(u0, "@"+t0)
		u1, t1 := p.text(o2, "", nil)
		l1 := p.cmdWith(u1, "@"+t1)
		u2, t2 := p.text(o3, "", nil)
		l2 := p.cmdWith(u2, "@"+t2)
		w("mapscripts %s {\n  %s {\n    %s\n  }\n  %s [\n    VAR_A, 1 {\n      %s\n    }\n  ]\n  %s {\n    %s\n  }\n}", m.Placeholder(), ty1.Placeholder(), l0, ty2.Placeholder(), l1, ty3.Placeholder(), l2)
	case "mapscripts-moves":
		m := p.atoms.New(ClsUserName, "map", "names")
		ty1 := p.atoms.New(ClsIdent, "mstype", "mstypes")
		ty2 := p.atoms.New(ClsIdent, "mstype", "mstypes")
		ty3 := p.atoms.New(ClsIdent, "mstype", "mstypes")
		o1 := func() interp.Value { return cat(m.Val, "_", ty1.Val) }
		o2 := func() interp.Value { return cat(m.Val, "_", ty2.Val, "_0") }
		o3 := func() interp.Value { return cat(m.Val, "_", ty3.Val) }
		u0, m0 := p.moves(o1, 1)
		l0 := p.cmdWith(u0, "@"+m0)
		u1, m1 := p.moves(o2, 2)
		l1 := p.cmdWith(u1, "a", "@"+m1)
		u2, m2 := p.moves(o3, 1)
		l2 := p.cmdWith(u2, "@"+m2)
		u3, t3 := p.text(o3, "", nil)
		l3 := p.cmdWith(u3, "@"+t3)
		w("mapscripts %s {\n  %s {\n    %s\n  }\n  %s [\n    VAR_A, 1 {\n      %s\n    }\n  ]\n  %s {\n    %s\n    %s\n  }\n}", m.Placeholder(), ty1.Placeholder(), l0, ty2.Placeholder(), l1, ty3.Placeholder(), l2, l3)
	case "const-named-like-content":
		// a constant whose name is the whole content of an inline string, and
		// another string spelled like the constant's value: string contents are
		// not constant use sites, the two texts stay different
		s, o := script()
		w("const HELLO = 5")
		u0, t0 := p.fixedText(o, "", "HELLO")
		u1, t1 := p.fixedText(o, "", "5")
		u2, t2 := p.fixedText(o, "ascii", "HELLO")
		w("script %s {\n  %s\n  %s\n  %s\n}", s.Placeholder(), p.cmdWith(u0, "@"+t0), p.cmdWith(u1, "@"+t1), p.cmdWith(u2, "@"+t2))
	case "moves-two":
		s, o := script()
		u0, m0 := p.moves(o, 2)
		u1, m1 := p.moves(o, 2)
		w("script %s {\n  %s\n  %s\n}", s.Placeholder(), p.cmdWith(u0, "a", "@"+m0), p.cmdWith(u1, "b", "@"+m1))
	case "moves-and-text":
		s, o := script()
		u0, m0 := p.moves(o, 1)
		u1, t1 := p.text(o, "", nil)
		u2, m2 := p.moves(o, 2)
		w("script %s {\n  %s\n  %s\n  %s\n}", s.Placeholder(), p.cmdWith(u0, "@"+m0), p.cmdWith(u1, "@"+t1), p.cmdWith(u2, "@"+m2))
	default:
		return nil, false
	}
	return p, true
}

// c06FinalContent: content after terminator processing.
func c06FinalContent(x *OracleCtx, u *c06Use) interp.Value {
	typ := u.typeVal()
	suffix, known := "", false
	switch t := typ.(type) {
	case string:
		suffix, known = c09Suffix[t]
	default:
		for _, k := range []string{"ascii", "braille"} {
			if decideSame(x.C, typ, k) {
				suffix, known = c09Suffix[k], true
				break
			}
		}
	}
	c := u.contentVal()
	if known && !x.C.DecideValue(hasSuffixValue(c, suffix)) {
		return cat(c, suffix)
	}
	return c
}

func c06Case(template string) *Case {
	p, ok := c06Build(template)
	if !ok {
		panic("unknown C06 template " + template)
	}
	prog := &Program{Atoms: p.atoms, Tops: []interface{}{&TopRaw{Text: strings.TrimRight(p.src.String(), "\n")}}}
	var swK, swV []Tok
	for _, kv := range p.sw {
		swK, swV = append(swK, kv[0]), append(swV, kv[1])
	}
	variants := []Variant{
		{Name: "opt", Opt: CompileOpts{Optimize: true, AVs: p.avs, SwKeys: swK, SwVals: swV}},
		{Name: "noopt", Opt: CompileOpts{Optimize: false, AVs: p.avs, SwKeys: swK, SwVals: swV}},
	}
	cs := &Case{Name: "c06/" + template, Prog: prog, Variants: variants, NonTrivial: true, Shape: c06Shape{Template: template}, MaxPaths: 512}
	cs.Oracle = func(x *OracleCtx) *Violation {
		// expected labels in processing order
		type assigned struct {
			u     *c06Use
			final interp.Value
			label interp.Value
			first bool
		}
		var as []*assigned
		textCount := map[string]int{}
		moveCount := map[string]int{}
		ownerKey := func(v interp.Value) string { return interp.ToString(v) }
		for _, u := range p.uses {
			if u.dead {
				continue
			}
			a := &assigned{u: u}
			if u.isMove {
				for _, b := range as {
					if !b.u.isMove || len(b.u.steps) != len(u.steps) {
						continue
					}
					same := true
					for i := range u.steps {
						if !decideSame(x.C, u.steps[i].Val, b.u.steps[i].Val) {
							same = false
							break
						}
					}
					if same {
						a.label = b.label
						break
					}
				}
				if a.label == nil {
					k := ownerKey(u.owner())
					a.label = cat(u.owner(), fmt.Sprintf("_Movement_%d", moveCount[k]))
					moveCount[k]++
					a.first = true
				}
			} else {
				a.final = c06FinalContent(x, u)
				for _, b := range as {
					if b.u.isMove {
						continue
					}
					if decideSame(x.C, a.final, b.final) && decideSame(x.C, u.typeVal(), b.u.typeVal()) {
						a.label = b.label
						break
					}
				}
				if a.label == nil {
					k := ownerKey(u.owner())
					a.label = cat(u.owner(), fmt.Sprintf("_Text_%d", textCount[k]))
					textCount[k]++
					a.first = true
				}
			}
			as = append(as, a)
		}
		for _, v := range x.Case.Variants {
			res := x.Res[v.Name]
			if res.Err.Panic != "" {
				return &Violation{Sub: "panic", Msg: res.Err.Panic}
			}
			if res.Err.IsErr {
				return &Violation{Sub: "accept", Msg: "a well-formed program was rejected: " + interp.ToString(res.Err.Msg)}
			}
			lines := outputLines(res.Out, false)
			for _, a := range as {
				if a.u.linePre != nil && a.u.linePost != nil && a.u.linePre() != nil {
					want := cat(a.u.linePre(), a.label, a.u.linePost())
					n := 0
					for _, l := range lines {
						if sameValue(x.C, l, want) == 1 {
							n++
						}
					}
					if n != 1 {
						return &Violation{Sub: "argument", Msg: fmt.Sprintf("variant %s: expected exactly one line %s, found %d", v.Name, interp.ToString(want), n)}
					}
				}
				if !a.first {
					continue
				}
				sec, n := sectionAfterLabel(x, res.Out, a.label)
				if n != 1 {
					return &Violation{Sub: "definition", Msg: fmt.Sprintf("variant %s: hoisted label %s is defined %d times", v.Name, interp.ToString(a.label), n)}
				}
				var want []interp.Value
				if a.u.isMove {
					term := false
					for _, s := range a.u.steps {
						want = append(want, cat("\t", s.Val))
						if decideSame(x.C, s.Val, "step_end") {
							term = true
							break
						}
					}
					if !term {
						want = append(want, "\tstep_end")
					}
				} else {
					directive := interp.Value("string")
					if tv := a.u.typeVal(); !isEmpty(tv) {
						directive = tv
					}
					want = []interp.Value{cat("\t.", directive, " \"", a.final, "\"")}
				}
				if vv := expectLines(x, "content", fmt.Sprintf("variant %s: definition of %s", v.Name, interp.ToString(a.label)), sec, want); vv != nil {
					return vv
				}
			}
			// nothing else is hoisted: count text/movement definitions
			nDefs := 0
			for _, a := range as {
				if a.first {
					nDefs++
				}
			}
			got := 0
			for _, al := range ParseAsm(res.Out) {
				if al.Kind != "label" {
					continue
				}
				ps := interp.Parts(al.Name)
				if len(ps) > 0 && ps[len(ps)-1].Kind == interp.PLit && (strings.Contains(ps[len(ps)-1].Lit, "_Text_") || strings.Contains(ps[len(ps)-1].Lit, "_Movement_")) {
					got++
				}
			}
			if got != nDefs {
				return &Violation{Sub: "definition", Msg: fmt.Sprintf("variant %s: %d hoisted definitions in the output, expected %d", v.Name, got, nDefs)}
			}
			// no command line with an empty argument (a lost label)
			for _, al := range ParseAsm(res.Out) {
				if al.Kind == "instr" && al.Rest != nil {
					if s, ok := al.Rest.(string); ok && (strings.HasPrefix(s, ",") || strings.HasSuffix(s, ", ") || strings.Contains(s, ", ,")) || al.Kind == "instr" && endsWithSpace(al.Raw) {
						return &Violation{Sub: "argument", Msg: fmt.Sprintf("variant %s: a command has an empty argument: %s", v.Name, interp.ToString(al.Raw))}
					}
				}
			}
		}
		return nil
	}
	return cs
}

func endsWithSpace(v interp.Value) bool {
	ps := interp.Parts(v)
	if n := len(ps); n > 0 && ps[n-1].Kind == interp.PLit {
		return strings.HasSuffix(ps[n-1].Lit, " ") || strings.HasSuffix(ps[n-1].Lit, ",")
	}
	return false
}

// c06ClashCase: a user-defined text (or movement) whose name is a free
// String atom: if it can equal a generated label the program must be
// rejected, never silently overwritten.
func c06ClashCase(kind string) *Case { return c06ClashCaseAt(kind, false) }

// c06ClashCaseAt: userFirst puts the user-defined statement before the script
// whose generated label it may equal.
func c06ClashCaseAt(kind string, userFirst bool) *Case { return c06ClashCaseFull(kind, userFirst, false) }

// c06ClashCaseFull: with sameContent the user-defined text / movement has
// exactly the content of the inline one whose generated label it may take.
func c06ClashCaseFull(kind string, userFirst, sameContent bool) *Case {
	atoms := &AtomTable{Coded: false}
	sname := atoms.New(ClsIdent, "script", "")
	uname := atoms.New(ClsIdent, "user", "")
	cmd := atoms.New(ClsPlainCmd, "cmd", "")
	var src string
	var gen func() interp.Value
	if kind == "text" {
		src = fmt.Sprintf("script %s {\n  %s(\"hello$\")\n}\ntext %s {\n  \"other$\"\n}", sname.Placeholder(), cmd.Placeholder(), uname.Placeholder())
		gen = func() interp.Value { return cat(sname.Val, "_Text_0") }
	} else {
		src = fmt.Sprintf("script %s {\n  %s(moves(walk_up))\n}\nmovement %s {\n  walk_down\n}", sname.Placeholder(), cmd.Placeholder(), uname.Placeholder())
		gen = func() interp.Value { return cat(sname.Val, "_Movement_0") }
	}
	if sameContent {
		src = strings.Replace(src, "\"other$\"", "\"hello$\"", 1)
		src = strings.Replace(src, "walk_down", "walk_up", 1)
	}
	name := "clash-" + kind
	if sameContent {
		name += "-same-content"
	}
	if userFirst {
		i := strings.Index(src, "\n}\n") + 3
		src = src[i:] + "\n" + src[:i-1]
		name += "-user-statement-first"
	}
	prog := &Program{Atoms: atoms, Tops: []interface{}{&TopRaw{Text: src}}}
	cs := &Case{Name: "c06/" + name, Prog: prog, Variants: optVariants[:1], NonTrivial: true, Shape: c06Shape{Template: name}, MaxPaths: 64}
	cs.Setup = func(x *OracleCtx) {
		if !x.Replay {
			x.C.Assume(fmt.Sprintf("(distinct %s %s)", sname.Var, uname.Var))
			// keep the string queries small
			x.C.Assume(fmt.Sprintf("(and (<= (str.len %s) 6) (<= (str.len %s) 14))", sname.Var, uname.Var))
		}
	}
	cs.Oracle = func(x *OracleCtx) *Violation {
		res := x.Res["opt"]
		if res.Err.Panic != "" {
			return &Violation{Sub: "panic", Msg: res.Err.Panic}
		}
		clash := decideSame(x.C, uname.Val, gen())
		if clash && !res.Err.IsErr {
			return &Violation{Sub: "clash", Msg: "a user-defined " + kind + " named like a generated label was accepted (silent overwrite)"}
		}
		if !clash && res.Err.IsErr {
			return &Violation{Sub: "clash", Msg: "a program without a name clash was rejected: " + interp.ToString(res.Err.Msg)}
		}
		if !clash {
			for _, nm := range []interp.Value{uname.Val, gen()} {
				if n := countLabelDefs(x.C, res.Out, nm); n != 1 {
					return &Violation{Sub: "clash", Msg: fmt.Sprintf("label %s is defined %d times", interp.ToString(nm), n)}
				}
			}
		}
		return nil
	}
	return cs
}

var c06Templates = []string{"one", "second-arg", "two", "types", "same-content-different-type", "two-scripts", "control-flow", "switch",
	"autovar-chain", "autovar-group", "autovar-and-run", "dowhile-autovar", "poryswitch-selected", "poryswitch-fallback", "poryswitch-selected-without-text", "mapscripts", "mapscripts-moves", "const-named-like-content", "moves-two", "moves-and-text"}

// RunC06 is the check of property C06.
func RunC06(env *Env, rep *Report) {
	var cases []*Case
	tpls := c06Templates
	if env.Tier == "thorough" {
		// four texts in one script (all 15 equality patterns) and three scripts
		// with a text and a moves() each (sharing across scripts)
		tpls = append(append([]string{}, c06Templates...), "four", "three-scripts")
	}
	for _, t := range tpls {
		cases = append(cases, c06Case(t))
	}
	cases = append(cases, c06SpelledNamesCase("text"), c06SpelledNamesCase("movement"), c06LongRunCase(),
		c06RepeatVsSuffixCase(11, "1"), c06RepeatVsSuffixCase(11, "11"), c06RepeatVsSuffixCase(21, "2"), c06RepeatVsSuffixCase(2, "2"))
	cases = append(cases, c06PairCase(), c06ClashCase("text"), c06ClashCase("movement"), c06ClashCaseAt("text", true), c06ClashCaseAt("movement", true), c06ClashCaseFull("text", false, true), c06ClashCaseFull("text", true, true), c06ClashCaseFull("movement", false, true))
	rep.Technique = "symbolic execution of the real inline-text / moves() hoisting (go/ssa) with symbolic contents; the sharing pattern (which contents are equal) is enumerated by the solver through the parser's own set lookups (z3 seq + LIA)"
	rep.Explanation = "Bounded symbolic verification, not a proof. Program templates placing inline texts and moves() in every position the property names (plain command, later argument, two in one command, inside if/else/while, switch, an autovar condition in an &&-chain and in a parenthesised group, a poryswitch case selected / not selected, inline map scripts incl. table rows, several scripts) are compiled by symbolic execution of the real code with the text contents as unconstrained SMT strings, string types none/ascii/braille/symbolic, step names symbolic. The parser's dedup lookups (inlineTextsSet / inlineMovementsSet) and the terminator test are decision points, so the solver enumerates every equality pattern among the contents and every 'already terminated' combination. Per path the oracle recomputes - forking on any equality the code did not decide - the expected label of every use (first appearance numbering per owning script, shared iff same final content and same type) and asserts: the command carries exactly that label; the label is defined exactly once with exactly that content and directive; nothing else is hoisted; no command is left with an empty argument. Two clash cases use String-sorted names so that 'user text/movement name = generated label' is found by the solver: it must be a compile error."
	rep.Bounds = map[string]interface{}{"templates": append(append([]string{}, tpls...), "typed-then-untyped-one-command", "clash-text", "clash-movement", "clash-text-user-statement-first", "clash-movement-user-statement-first", "clash-text-same-content", "clash-text-same-content-user-statement-first", "clash-movement-same-content"), "max_inline_texts_per_program": map[string]int{"quick": 3, "thorough": 4}[env.Tier], "max_moves_per_program": map[string]int{"quick": 2, "thorough": 3}[env.Tier]}
	rep.Outside = []string{"more than 3 inline texts / 2 moves() per program", "format() texts (C07)", "text contents outside printable ASCII"}
	rep.Assumptions = []string{"text contents are printable ASCII without '\"'", "names are generic identifiers (Int-coded) except in the clash cases"}
	rep.Functions = []string{"parseCommandStatement", "addImplicitData", "addImplicitTexts", "addImplicitMovements", "getMovementsKey", "getImplicitTextLabel", "getImplicitMovementLabel", "ParseProgram", "formatTextTerminator", "emitText", "emitMovementStatement", "parseMovesOperator", "parsePoryswitchStatement", "parseMapscriptsStatement"}
	rep.Match = func(k *KnownFinding, f *Finding) bool { return false }
	src, _ := cases[2].Prog.Render()
	rep.AddSample(map[string]interface{}{"case": cases[2].Name, "source_with_holes": src})
	runWitness(env, rep, "c06-witness-never-shared", func() *Case {
		cs := c06Case("two")
		orig := cs.Oracle
		cs.Oracle = func(x *OracleCtx) *Violation {
			// twin: claim that two texts never share a label
			if v := orig(x); v != nil {
				return v
			}
			n := 0
			for _, al := range ParseAsm(x.Res["opt"].Out) {
				if al.Kind == "label" {
					n++
				}
			}
			if n != 3 {
				return &Violation{Sub: "witness", Msg: "the two texts share one label"}
			}
			return nil
		}
		return cs
	})
	env.RunJobs(len(cases), rep, func(w *Worker, i int) { w.RunCase(cases[i], rep) })
}

// c06SpelledNamesCase: two scripts whose names are SMT strings (so that one
// may be spelled as a prefix / extension of the other, or like the other's
// generated labels): each script's first inline text is <script>_Text_0
// whatever the other script is called.
func c06SpelledNamesCase(kind string) *Case {
	atoms := &AtomTable{Coded: false}
	a := atoms.New(ClsIdent, "script", "")
	b := atoms.New(ClsIdent, "script", "")
	cmd := atoms.New(ClsPlainCmd, "cmd", "")
	var src string
	var want func() []interp.Value
	if kind == "text" {
		src = fmt.Sprintf("script %s {\n  %s(\"one$\")\n}\nscript %s {\n  %s(\"two$\")\n}", a.Placeholder(), cmd.Placeholder(), b.Placeholder(), cmd.Placeholder())
		want = func() []interp.Value {
			la, lb := cat(a.Val, "_Text_0"), cat(b.Val, "_Text_0")
			return []interp.Value{cat(a.Val, "::"), cat("\t", cmd.Val, " ", la), "\treturn", cat(b.Val, "::"), cat("\t", cmd.Val, " ", lb), "\treturn",
				cat(la, ":"), "\t.string \"one$\"", cat(lb, ":"), "\t.string \"two$\""}
		}
	} else {
		src = fmt.Sprintf("script %s {\n  %s(moves(walk_up))\n}\nscript %s {\n  %s(moves(walk_down))\n}", a.Placeholder(), cmd.Placeholder(), b.Placeholder(), cmd.Placeholder())
		want = func() []interp.Value {
			la, lb := cat(a.Val, "_Movement_0"), cat(b.Val, "_Movement_0")
			return []interp.Value{cat(a.Val, "::"), cat("\t", cmd.Val, " ", la), "\treturn", cat(b.Val, "::"), cat("\t", cmd.Val, " ", lb), "\treturn",
				cat(la, ":"), "\twalk_up", "\tstep_end", cat(lb, ":"), "\twalk_down", "\tstep_end"}
		}
	}
	prog := &Program{Atoms: atoms, Tops: []interface{}{&TopRaw{Text: src}}}
	name := "spelled-script-names-" + kind
	cs := &Case{Name: "c06/" + name, Prog: prog, Variants: optVariants[:1], NonTrivial: true, Shape: c06Shape{Template: name}, MaxPaths: 64}
	cs.Setup = func(x *OracleCtx) {
		if !x.Replay {
			x.C.Assume(fmt.Sprintf("(distinct %s %s)", a.Var, b.Var))
			// keep the string queries small
			x.C.Assume(fmt.Sprintf("(and (<= (str.len %s) 14) (<= (str.len %s) 14))", a.Var, b.Var))
		}
	}
	cs.Oracle = func(x *OracleCtx) *Violation {
		res := x.Res["opt"]
		if res.Err.IsErr || res.Err.Panic != "" {
			return &Violation{Sub: "accept", Msg: "rejected: " + interp.ToString(res.Err.Msg) + res.Err.Panic}
		}
		return expectLines(x, "numbering", "output", nonBlank(outputLines(res.Out, false)), want())
	}
	return cs
}

// c06LongRunCase: two moves() lists of one step that differ only in the
// repeat count, 257 against 1 (counts that agree modulo 256): they are
// different movements and get different labels.
func c06LongRunCase() *Case {
	atoms := &AtomTable{Coded: true}
	a := atoms.New(ClsUserName, "script", "names")
	cmd := atoms.New(ClsPlainCmd, "cmd", "cmds")
	step := atoms.New(ClsIdent, "step", "", "step_end")
	src := fmt.Sprintf("script %s {\n  %s(moves(%s * 257))\n  %s(moves(%s))\n}", a.Placeholder(), cmd.Placeholder(), step.Placeholder(), cmd.Placeholder(), step.Placeholder())
	prog := &Program{Atoms: atoms, Tops: []interface{}{&TopRaw{Text: src}}}
	name := "moves-repeat-257-vs-1"
	cs := &Case{Name: "c06/" + name, Prog: prog, Variants: optVariants[:1], NonTrivial: true, Shape: c06Shape{Template: name}, MaxPaths: 16}
	cs.Oracle = func(x *OracleCtx) *Violation {
		res := x.Res["opt"]
		if res.Err.IsErr || res.Err.Panic != "" {
			return &Violation{Sub: "accept", Msg: "rejected: " + interp.ToString(res.Err.Msg) + res.Err.Panic}
		}
		l0, l1 := cat(a.Val, "_Movement_0"), cat(a.Val, "_Movement_1")
		want := []interp.Value{cat(a.Val, "::"), cat("\t", cmd.Val, " ", l0), cat("\t", cmd.Val, " ", l1), "\treturn", cat(l0, ":")}
		for i := 0; i < 257; i++ {
			want = append(want, cat("\t", step.Val))
		}
		want = append(want, "\tstep_end", cat(l1, ":"), cat("\t", step.Val), "\tstep_end")
		return expectLines(x, "sharing", "output", nonBlank(outputLines(res.Out, false)), want)
	}
	return cs
}

// c06RepeatVsSuffixCase: 'walk_a * n' in one moves() and the single step
// 'walk_a<suffix>' in another (a step whose name ends in the digits a
// run-length would be written with): different movements, different labels.
func c06RepeatVsSuffixCase(n int, suffix string) *Case {
	atoms := &AtomTable{Coded: true}
	a := atoms.New(ClsUserName, "script", "names")
	cmd := atoms.New(ClsPlainCmd, "cmd", "cmds")
	src := fmt.Sprintf("script %s {\n  %s(moves(walk_a * %d))\n  %s(moves(walk_a%s))\n}", a.Placeholder(), cmd.Placeholder(), n, cmd.Placeholder(), suffix)
	prog := &Program{Atoms: atoms, Tops: []interface{}{&TopRaw{Text: src}}}
	name := fmt.Sprintf("moves-repeat-%d-vs-step-named-walk_a%s", n, suffix)
	cs := &Case{Name: "c06/" + name, Prog: prog, Variants: optVariants[:1], NonTrivial: true, Shape: c06Shape{Template: name}, MaxPaths: 16}
	cs.Oracle = func(x *OracleCtx) *Violation {
		res := x.Res["opt"]
		if res.Err.IsErr || res.Err.Panic != "" {
			return &Violation{Sub: "accept", Msg: "rejected: " + interp.ToString(res.Err.Msg) + res.Err.Panic}
		}
		l0, l1 := cat(a.Val, "_Movement_0"), cat(a.Val, "_Movement_1")
		want := []interp.Value{cat(a.Val, "::"), cat("\t", cmd.Val, " ", l0), cat("\t", cmd.Val, " ", l1), "\treturn", cat(l0, ":")}
		for i := 0; i < n; i++ {
			want = append(want, "\twalk_a")
		}
		want = append(want, "\tstep_end", cat(l1, ":"), "\twalk_a"+suffix, "\tstep_end")
		return expectLines(x, "sharing", "output", nonBlank(outputLines(res.Out, false)), want)
	}
	return cs
}

// c06PairCase: cmd(ascii"t0", "t1") - both labels on one line.
func c06PairCase() *Case {
	atoms := &AtomTable{Coded: true}
	sname := atoms.New(ClsUserName, "script", "names")
	cmd := atoms.New(ClsPlainCmd, "cmd", "cmds")
	t0 := atoms.New(ClsLine, "txt", "")
	t1 := atoms.New(ClsLine, "txt", "")
	src := fmt.Sprintf("script %s {\n  %s(ascii\"%s\", \"%s\")\n}", sname.Placeholder(), cmd.Placeholder(), t0.Placeholder(), t1.Placeholder())
	prog := &Program{Atoms: atoms, Tops: []interface{}{&TopRaw{Text: src}}}
	cs := &Case{Name: "c06/typed-then-untyped-one-command", Prog: prog, Variants: optVariants[:1], NonTrivial: true, Shape: c06Shape{Template: "typed-then-untyped-one-command"}, MaxPaths: 64}
	cs.Oracle = func(x *OracleCtx) *Violation {
		res := x.Res["opt"]
		if res.Err.IsErr || res.Err.Panic != "" {
			return &Violation{Sub: "accept", Msg: "rejected: " + interp.ToString(res.Err.Msg) + res.Err.Panic}
		}
		u0 := &c06Use{content: t0, typ: "ascii"}
		u1 := &c06Use{content: t1, typ: ""}
		f0, f1 := c06FinalContent(x, u0), c06FinalContent(x, u1)
		l0, l1 := cat(sname.Val, "_Text_0"), cat(sname.Val, "_Text_1")
		want := []interp.Value{cat(sname.Val, "::"), cat("\t", cmd.Val, " ", l0, ", ", l1), "\treturn",
			cat(l0, ":"), cat("\t.ascii \"", f0, "\""), cat(l1, ":"), cat("\t.string \"", f1, "\"")}
		return expectLines(x, "content", "output", nonBlank(outputLines(res.Out, false)), want)
	}
	return cs
}
