package checks

import (
	"fmt"
	"regexp"

	"verif/engine/interp"
)

var subLabelSuffixRe = regexp.MustCompile(`^_-?[0-9]+$`)

// isSubLabelOf reports whether name is <script>_<digits> (structurally).
func isSubLabelOf(name, script interp.Value) bool {
	np, sp := interp.Parts(name), interp.Parts(script)
	if len(np) < len(sp) {
		return false
	}
	// all but the last script part must be identical; the last may be a
	// literal that the name's corresponding literal extends
	for i := 0; i < len(sp); i++ {
		if i == len(sp)-1 && sp[i].Kind == interp.PLit && np[i].Kind == interp.PLit {
			if len(np) != len(sp) || len(np[i].Lit) <= len(sp[i].Lit) || np[i].Lit[:len(sp[i].Lit)] != sp[i].Lit {
				return false
			}
			return subLabelSuffixRe.MatchString(np[i].Lit[len(sp[i].Lit):])
		}
		if np[i] != sp[i] {
			return false
		}
	}
	if len(np) != len(sp)+1 {
		return false
	}
	last := np[len(np)-1]
	return last.Kind == interp.PLit && subLabelSuffixRe.MatchString(last.Lit)
}

// jumpTargets lists the label operands of all jump-like instructions.
func jumpTargets(lines []*AsmLine) []interp.Value {
	var res []interp.Value
	for _, al := range lines {
		if al.Kind != "instr" {
			continue
		}
		switch {
		case al.Mnem == "goto":
			res = append(res, al.Rest)
		case al.Mnem == "goto_if_set" || al.Mnem == "goto_if_unset" || al.Mnem == "case" || al.Mnem == "goto_if":
			if _, l, ok := splitLast(al.Rest, ", "); ok {
				res = append(res, l)
			}
		case condOps[al.Mnem] != "":
			res = append(res, al.Rest)
		}
	}
	return res
}

// layoutChecks: (iii) no goto to the label on the very next line, (iv) no
// generated sub-label that nothing refers to.
func layoutChecks(x *OracleCtx, variant string, out interp.Value, scripts []interp.Value) *Violation {
	lines := ParseAsm(out)
	var code []*AsmLine
	for _, al := range lines {
		if al.Kind == "label" || al.Kind == "instr" || al.Kind == "other" {
			code = append(code, al)
		}
	}
	isSub := func(name interp.Value) bool {
		for _, s := range scripts {
			if isSubLabelOf(name, s) {
				return true
			}
		}
		return false
	}
	for i, al := range code {
		if al.Kind == "instr" && al.Mnem == "goto" && isSub(al.Rest) && i+1 < len(code) {
			// the next line(s): labels directly following
			for j := i + 1; j < len(code) && code[j].Kind == "label"; j++ {
				switch sameValue(x.C, code[j].Name, al.Rest) {
				case 1:
					return &Violation{Sub: "redundant-goto", Msg: fmt.Sprintf("variant %s: generated 'goto %s' targets the label on the very next line", variant, interp.ToString(al.Rest))}
				case -1:
					q := interp.BoolTerm(interp.StrEq(code[j].Name, al.Rest))
					return &Violation{Sub: "redundant-goto", Query: q, Msg: fmt.Sprintf("variant %s: generated 'goto %s' can target the label on the very next line", variant, interp.ToString(al.Rest))}
				case -2:
					panic(interp.Inconclusive{Msg: "solver unknown in layout check"})
				}
				break // only the very next line counts
			}
		}
	}
	targets := jumpTargets(lines)
	for _, al := range code {
		if al.Kind != "label" || !isSub(al.Name) {
			continue
		}
		used := false
		for _, t := range targets {
			if sameValue(x.C, t, al.Name) == 1 {
				used = true
				break
			}
		}
		if !used {
			return &Violation{Sub: "unreferenced-sublabel", Msg: fmt.Sprintf("variant %s: generated sub-label %s is emitted but nothing refers to it", variant, interp.ToString(al.Name))}
		}
	}
	return nil
}

// dataAndLabels extracts user-visible labels (all labels that are not
// generated sub-labels) and the data lines of an output.
func dataAndLabels(out interp.Value, scripts []interp.Value) (labels []interp.Value, data []interp.Value) {
	for _, al := range ParseAsm(out) {
		switch {
		case al.Kind == "label":
			sub := false
			for _, s := range scripts {
				if isSubLabelOf(al.Name, s) {
					sub = true
				}
			}
			if !sub {
				labels = append(labels, al.Raw)
			}
		case isDataLine(al):
			data = append(data, al.Raw)
		}
	}
	return
}

func sameMultiset(c *interp.Ctx, a, b []interp.Value) (bool, string) {
	if len(a) != len(b) {
		return false, fmt.Sprintf("%d vs %d items", len(a), len(b))
	}
	used := make([]bool, len(b))
	for _, x := range a {
		found := false
		for j, y := range b {
			if !used[j] && sameValue(c, x, y) == 1 {
				used[j] = true
				found = true
				break
			}
		}
		if !found {
			return false, "no counterpart for " + interp.ToString(x)
		}
	}
	return true, ""
}

// c05Oracle: the relational oracle between the optimised and unoptimised
// outputs of one program.
func c05Oracle(prog *Program) func(x *OracleCtx) *Violation {
	return c05OracleS(prog.Atoms.Coded, func() []*Script { return scriptsOf(prog) })
}

// c05OracleS is c05Oracle for an explicit list of scripts (inline map scripts
// have labels read off the output).
func c05OracleS(_ bool, scripts func() []*Script) func(x *OracleCtx) *Violation {
	return func(x *OracleCtx) *Violation {
		// read at oracle time: a case may be re-run with SMT-string names
		coded := x.Case.Prog.Atoms.Coded
		ss := scripts()
		var names []interp.Value
		for _, s := range ss {
			names = append(names, s.NameValue())
		}
		isEntry := func(name interp.Value) bool {
			for _, n := range names {
				if sameValue(x.C, n, name) == 1 {
					return true
				}
			}
			return false
		}
		ro, rn := x.Res["opt"], x.Res["noopt"]
		for _, r := range []*CompileResult{ro, rn} {
			if r.Err.Panic != "" {
				return &Violation{Sub: "panic", Msg: "compilation panicked: " + r.Err.Panic}
			}
		}
		if ro.Err.IsErr != rn.Err.IsErr {
			return &Violation{Sub: "acceptance", Msg: "the program is accepted under one optimize setting and rejected under the other"}
		}
		if ro.Err.IsErr {
			return nil
		}
		go_, gn := BuildAsmGraph(x.C, ro.Out, isEntry, coded), BuildAsmGraph(x.C, rn.Out, isEntry, coded)
		for _, s := range ss {
			a, b := go_.EntryNode(x.C, s.NameValue()), gn.EntryNode(x.C, s.NameValue())
			if a == nil || b == nil {
				return &Violation{Sub: "entry", Msg: "script entry label missing in one of the outputs"}
			}
			var st bisimStats
			if m := Bisimulate(x.C, b, a, &st); m != nil {
				return &Violation{Sub: "behaviour", Query: m.Query, Msg: fmt.Sprintf("script %s: optimised and unoptimised outputs behave differently: %s", interp.ToString(s.NameValue()), m.Msg),
					Detail: []string{"unoptimised does: " + m.RefOut, "optimised does: " + m.AsmOut, fmt.Sprintf("after events: %v", m.Trail)}}
			}
		}
		lo, do := dataAndLabels(ro.Out, names)
		ln, dn := dataAndLabels(rn.Out, names)
		if ok, why := sameMultiset(x.C, lo, ln); !ok {
			return &Violation{Sub: "labels", Msg: "optimised and unoptimised outputs define different user-visible labels: " + why}
		}
		if ok, why := sameMultiset(x.C, do, dn); !ok {
			return &Violation{Sub: "data", Msg: "optimised and unoptimised outputs define different hoisted data: " + why}
		}
		if v := layoutChecks(x, "opt", ro.Out, names); v != nil {
			return v
		}
		if v := layoutChecks(x, "noopt", rn.Out, names); v != nil {
			return v
		}
		return nil
	}
}

// RunC05 is the check of property C05.
func RunC05(env *Env, rep *Report) {
	maxNodes, maxLen := 3, 3
	swBodies := []string{"empty", "cmd", "break", "cmdbreakcmd", "cmdend"}
	swContexts := []string{"only", "first", "while"}
	if env.Tier == "thorough" {
		maxNodes, maxLen = 4, 4
		swContexts = []string{"only", "first", "last", "while", "if", "nested"}
	}
	if v := envInt("VERIF_C05_NODES"); v > 0 {
		maxNodes = v
	}
	var cases []*Case
	shapes := c01Shapes(maxNodes)
	for _, c := range c01ContextShapes() {
		shapes = append(shapes, expandGotos(c)...)
	}
	shapes = append(shapes, c01ElifChainShapes()...)
	for _, sh := range shapes {
		cs := c01Case(sh, "c05/"+ShString(sh))
		cs.Oracle = c05Oracle(cs.Prog)
		cases = append(cases, cs)
	}
	// labels inside constructs that follow break / end / return (dead code)
	for _, sh := range c04DeadCodeShapes() {
		cs := c01Case(sh, "c05/"+ShString(sh))
		cs.Oracle = c05Oracle(cs.Prog)
		cases = append(cases, cs)
	}
	for _, sh := range c01SpelledShapes() {
		cs := c01CaseMode(sh, "c05/spelled/"+ShString(sh), false)
		cs.Oracle = c05Oracle(cs.Prog)
		cases = append(cases, cs)
	}
	// files mixing script statements and inline map scripts
	nmixed := 0
	for _, mf := range mixedFiles(maxNodes - 1) {
		mf := mf
		cases = append(cases, &Case{Name: "c05/" + mf.name(), Prog: mf.prog, Variants: optVariants, Shape: mf.shape, NonTrivial: true,
			Oracle: mf.wrap(c05OracleS(true, func() []*Script { return mf.scripts }))})
		nmixed++
	}
	nflow := len(cases)
	for m := 1; m <= maxLen; m++ {
		for _, sh := range enumSwitchShapes(m, swBodies) {
			for _, ctx := range swContexts {
				cs := c03Case(sh, ctx)
				cs.Name = "c05/" + cs.Name
				cs.Oracle = c05Oracle(cs.Prog)
				cases = append(cases, cs)
			}
		}
	}
	for _, ctx := range swContexts {
		for _, first := range []string{"ifbreak", "cmd"} {
			for n := 2; n <= 4; n++ {
				sh := []swEntry{{Body: first}, {Default: true, Body: "cmd"}}
				for i := 0; i < n; i++ {
					sh = append(sh, swEntry{Body: "empty"})
				}
				cs := c03Case(sh, ctx)
				cs.Name = "c05/" + cs.Name
				cs.Oracle = c05Oracle(cs.Prog)
				cases = append(cases, cs)
			}
		}
	}
	// case values that are different spellings of one number (the parser's
	// duplicate check is textual, so both are accepted and both bodies emitted)
	for _, pair := range [][2]string{{"10", "0xA"}, {"1", "01"}, {"0x1", "1"}} {
		cs := c03Case([]swEntry{{Body: "cmd"}, {Body: "cmd"}, {Default: true, Body: "cmd"}}, "first")
		sw := scriptsOf(cs.Prog)[0].Body[0].(*Switch)
		sw.Cases[0].Value, sw.Cases[1].Value = []Tok{L(pair[0])}, []Tok{L(pair[1])}
		cs.Name = "c05/same-number-spellings/" + pair[0] + "," + pair[1]
		cs.Oracle = c05Oracle(cs.Prog)
		cases = append(cases, cs)
	}
	for m := 1; m <= 2; m++ {
		for _, sh := range enumSwitchShapes(m, c03Bodies) {
			for _, ctx := range []string{"last", "if", "nested"} {
				cs := c03Case(sh, ctx)
				cs.Name = "c05/" + cs.Name
				cs.Oracle = c05Oracle(cs.Prog)
				cases = append(cases, cs)
			}
		}
	}
	rep.Technique = "symbolic execution of the real parser and emitter under both optimize settings on one symbolic input (go/ssa) + SMT-discharged bisimulation between the two outputs + structural assertions on the output ropes"
	rep.Explanation = "Bounded symbolic verification, not a proof. For every skeleton of the C01 (statement trees, the dead-code label shapes, and files mixing script statements with inline map scripts - entries and table rows - whose labels are read off the emitted header) and C03 (switch) families within the bounds, the real code is executed symbolically with -optimize on and off on the same symbolic input (all names symbolic). Asserted: (i) the two outputs are bisimilar from every script entry for every game state (SMT-discharged, runs of any length), (ii) they define the same user-visible labels and data lines, (iii) in neither output does a generated goto target the label on the very next line, (iv) every generated sub-label that is emitted is the operand of some jump or case."
	rep.Bounds = map[string]interface{}{"statement_tree_max_nodes": maxNodes, "statement_tree_cases": nflow, "mixed_file_cases": nmixed, "switch_max_length": maxLen, "switch_cases": len(cases) - nflow, "switch_bodies": swBodies, "switch_contexts": swContexts}
	rep.Outside = []string{"shapes beyond the bounds", "programs with inline text / movements (their hoisting is C06; the data comparison here sees only what the families contain)"}
	rep.Assumptions = []string{"assembly semantics of DESIGN.md §4.1", "a generated goto is one whose operand is <script>_<digits>; a generated sub-label is a label of that form"}
	rep.Functions = []string{"optimizeChunkOrder", "renderChunks", "renderBranching", "renderBranchConditions", "getTailChunkID", "emitScriptStatement", "createIfStatementChunks", "createWhileStatementChunks", "createDoWhileStatementChunks", "createSwitchStatementChunks", "splitBooleanExpressionChunks", "renderLabel"}
	rep.Match = func(k *KnownFinding, f *Finding) bool { return false }
	if len(cases) > 3 {
		src, _ := cases[len(cases)/2].Prog.Render()
		rep.AddSample(map[string]interface{}{"case": cases[len(cases)/2].Name, "source_with_holes": src})
	}
	runWitness(env, rep, "c05-witness-different-programs", func() *Case {
		// twin: 'optimised' output of a different program must be refuted
		cs := c01Case([]*Sh{{K: "if", Blocks: [][]*Sh{{{K: "cmd"}}}}, {K: "cmd"}}, "witness")
		other := c01Case([]*Sh{{K: "if", Blocks: [][]*Sh{{{K: "end"}}}}, {K: "cmd"}}, "witness-other")
		_ = other
		prog := cs.Prog
		s := scriptsOf(prog)[0]
		alt := &Program{Atoms: prog.Atoms, Tops: []interface{}{&Script{Name: s.Name, Body: []Stmt{s.Body[1], s.Body[0]}}}}
		cs.Variants = []Variant{{Name: "opt", Opt: CompileOpts{Optimize: true}}, {Name: "noopt", Opt: CompileOpts{Optimize: false}, Prog: alt}}
		cs.Oracle = c05Oracle(prog)
		return cs
	})
	env.RunJobs(len(cases), rep, func(w *Worker, i int) { w.RunCase(cases[i], rep) })
}
