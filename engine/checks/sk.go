package checks

// The skeleton language SK (DESIGN.md §3.1): program shapes with holes, a
// pretty-printer to .pory text, and the line bookkeeping for symbolic
// positions.

import (
	"fmt"
	"strings"

	"verif/engine/interp"
)

// Tok is one source token of a skeleton: an atom (hole) or fixed text.
type Tok struct {
	A   *Atom
	Lit string
	V   interp.Value // reference-only: an explicit string value
}

func L(s string) Tok  { return Tok{Lit: s} }
func A(a *Atom) Tok   { return Tok{A: a} }
func (t Tok) Text() string {
	if t.A != nil {
		return t.A.Placeholder()
	}
	return t.Lit
}

// Val is the string value the token's literal has after symbolisation.
func (t Tok) Val() interp.Value {
	if t.V != nil {
		return t.V
	}
	if t.A != nil {
		return t.A.Val
	}
	return t.Lit
}

// JoinToks is the reference rendering of a token run: literals joined by
// single spaces.
func JoinToks(ts []Tok) interp.Value {
	var parts []interp.Value
	for i, t := range ts {
		if i > 0 {
			parts = append(parts, " ")
		}
		parts = append(parts, t.Val())
	}
	return interp.Concat(parts...)
}

// ---- statements

type Stmt interface{}

// Cmd is a command statement: name [ "(" args ")" ].
type Cmd struct {
	Name    Tok
	Args    [][]Tok // nil: no parenthesis; each arg a token run
	NoParen bool
	Line    int // set by the printer
}

type Label struct {
	Name   *Atom
	Scope  string // "", "global", "local"
	Line   int
}
type Break struct{ Line int }
type Continue struct{ Line int }

type If struct {
	Conds  []*Expr
	Bodies [][]Stmt
	Else   []Stmt
	HasElse bool
}
type While struct {
	Cond *Expr // nil: no condition
	Body []Stmt
}
type DoWhile struct {
	Cond *Expr
	Body []Stmt
}
type SwCase struct {
	Default bool
	Value   []Tok
	Body    []Stmt
	Line    int
}
type Switch struct {
	Operand []Tok // var( ... ) operand tokens
	AV      *AVUse
	Cases   []*SwCase
	Line    int
}

// Raw source text spliced into a body (for constructs the skeleton language
// does not model); it has no reference semantics.
type RawStmt struct{ Text string }

// ---- expressions

type EKind int

const (
	ELeaf EKind = iota
	EAnd
	EOr
	ENot   // '!' applied to a parenthesised group
	EParen // redundant parentheses
)

type Expr struct {
	Kind EKind
	L, R *Expr
	Leaf *Leaf
}

// AVUse is an autovar command used as an operand.
type AVUse struct {
	Name Tok
	Args [][]Tok
	// The var compared: fixed name or the argument at Pos.
	VarName interp.Value
}

type Leaf struct {
	Kind    string // "flag", "var", "defeated", "autovar"
	Operand []Tok
	AV      *AVUse
	Not     bool   // leading '!'
	Op      string // "", "==", "!=", "<", "<=", ">", ">="
	Value   []Tok  // comparison value tokens (var) or TRUE/FALSE spelling (flag-like)
	Strict  bool   // value( ... )
	Line    int
}

// ---- top level

type Script struct {
	Name  *Atom
	Scope string
	Body  []Stmt
	Line  int
	// NameV, if set, is the script's label (inline map scripts have composite
	// names); Name may then be nil.
	NameV func() interp.Value
}

// NameValue is the script's entry label.
func (s *Script) NameValue() interp.Value {
	if s.NameV != nil {
		return s.NameV()
	}
	return s.Name.Val
}

type TopRaw struct{ Text string } // any other top-level text

type Program struct {
	Atoms *AtomTable
	Tops  []interface{} // *Script | *TopRaw | other top-level skeleton nodes
}

// ---- printer

type printer struct {
	sb   strings.Builder
	line int
	ind  int
}

func (p *printer) nl() {
	p.sb.WriteByte('\n')
	p.line++
}

func (p *printer) emit(s string) int {
	for i := 0; i < p.ind; i++ {
		p.sb.WriteString("  ")
	}
	p.sb.WriteString(s)
	ln := p.line
	p.nl()
	return ln
}

func toksText(ts []Tok) string {
	parts := make([]string, len(ts))
	for i, t := range ts {
		parts[i] = t.Text()
	}
	return strings.Join(parts, " ")
}

func argsText(args [][]Tok) string {
	parts := make([]string, len(args))
	for i, a := range args {
		parts[i] = toksText(a)
	}
	return strings.Join(parts, ", ")
}

func (l *Leaf) text() string {
	var sb strings.Builder
	if l.Not {
		sb.WriteString("!")
	}
	if l.Kind == "autovar" {
		sb.WriteString(l.AV.Name.Text() + "(" + argsText(l.AV.Args) + ")")
	} else {
		sb.WriteString(l.Kind + "(" + toksText(l.Operand) + ")")
	}
	if l.Op != "" {
		sb.WriteString(" " + l.Op + " ")
		if l.Strict {
			sb.WriteString("value(" + toksText(l.Value) + ")")
		} else {
			sb.WriteString(toksText(l.Value))
		}
	}
	return sb.String()
}

func (e *Expr) Text() string {
	switch e.Kind {
	case ELeaf:
		return e.Leaf.text()
	case EAnd:
		return e.L.Text() + " && " + e.R.Text()
	case EOr:
		return e.L.Text() + " || " + e.R.Text()
	case ENot:
		return "!(" + e.L.Text() + ")"
	case EParen:
		return "(" + e.L.Text() + ")"
	}
	panic("expr kind")
}

func (e *Expr) setLine(n int) {
	switch e.Kind {
	case ELeaf:
		e.Leaf.Line = n
	default:
		if e.L != nil {
			e.L.setLine(n)
		}
		if e.R != nil {
			e.R.setLine(n)
		}
	}
}

func (p *printer) block(stmts []Stmt) {
	p.ind++
	for _, s := range stmts {
		p.stmt(s)
	}
	p.ind--
}

func (p *printer) stmt(s Stmt) {
	switch s := s.(type) {
	case *Cmd:
		t := s.Name.Text()
		if !s.NoParen && s.Args != nil {
			t += "(" + argsText(s.Args) + ")"
		}
		s.Line = p.emit(t)
	case *Label:
		t := s.Name.Placeholder()
		if s.Scope != "" {
			t += "(" + s.Scope + ")"
		}
		s.Line = p.emit(t + ":")
	case *Break:
		s.Line = p.emit("break")
	case *Continue:
		s.Line = p.emit("continue")
	case *If:
		for i, c := range s.Conds {
			kw := "if"
			if i > 0 {
				kw = "} elif"
			}
			c.setLine(p.emit(kw + " (" + c.Text() + ") {"))
			p.block(s.Bodies[i])
		}
		if s.HasElse {
			p.emit("} else {")
			p.block(s.Else)
		}
		p.emit("}")
	case *While:
		if s.Cond == nil {
			p.emit("while {")
		} else {
			s.Cond.setLine(p.emit("while (" + s.Cond.Text() + ") {"))
		}
		p.block(s.Body)
		p.emit("}")
	case *DoWhile:
		p.emit("do {")
		p.block(s.Body)
		s.Cond.setLine(p.emit("} while (" + s.Cond.Text() + ")"))
	case *Switch:
		if s.AV != nil {
			s.Line = p.emit("switch (" + s.AV.Name.Text() + "(" + argsText(s.AV.Args) + ")) {")
		} else {
			s.Line = p.emit("switch (var(" + toksText(s.Operand) + ")) {")
		}
		p.ind++
		for _, c := range s.Cases {
			if c.Default {
				c.Line = p.emit("default:")
			} else {
				c.Line = p.emit("case " + toksText(c.Value) + ":")
			}
			p.block(c.Body)
		}
		p.ind--
		p.emit("}")
	case *RawStmt:
		for _, ln := range strings.Split(s.Text, "\n") {
			p.emit(ln)
		}
	default:
		panic(fmt.Sprintf("printer: unknown statement %T", s))
	}
}

// Render pretty-prints the program; it returns the text and the number of
// lines. Line fields of the skeleton nodes are set (1-based).
func (pr *Program) Render() (string, int) {
	p := &printer{line: 1}
	for _, t := range pr.Tops {
		switch t := t.(type) {
		case *Script:
			h := "script"
			if t.Scope != "" {
				h += "(" + t.Scope + ")"
			}
			t.Line = p.emit(h + " " + t.Name.Placeholder() + " {")
			p.block(t.Body)
			p.emit("}")
		case *TopRaw:
			for _, ln := range strings.Split(t.Text, "\n") {
				p.emit(ln)
			}
		case TopPrinter:
			t.Print(p)
		default:
			panic(fmt.Sprintf("Render: unknown top %T", t))
		}
	}
	return p.sb.String(), p.line - 1
}

// TopPrinter is implemented by property-specific top-level skeleton nodes.
type TopPrinter interface {
	Print(p *printer)
}

// ---- helpers to build skeletons

func LeafFlag(a *Atom) *Expr { return &Expr{Kind: ELeaf, Leaf: &Leaf{Kind: "flag", Operand: []Tok{A(a)}}} }

// SymLines installs symbolic line numbers: Λ strictly increasing, Λ(1) ≥ 1.
// It returns the map function and the term for the total number of lines N
// (Λ(last) ≤ N).
// With shared set, consecutive rendered lines may lie on the same source line
// (L is non-decreasing): several constructs written on one line.
func SymLines(c *interp.Ctx, nlines int, shared bool) (func(int) interp.Value, []string, string) {
	terms := make([]string, nlines+2)
	prev := ""
	for k := 1; k <= nlines; k++ {
		v := c.NewInt(fmt.Sprintf("ln%d", k))
		terms[k] = v.T
		if prev == "" {
			c.Assume(fmt.Sprintf("(>= %s 1)", v.T))
		} else {
			if shared {
				c.Assume(fmt.Sprintf("(>= %s %s)", v.T, prev))
			} else {
				c.Assume(fmt.Sprintf("(> %s %s)", v.T, prev))
			}
		}
		prev = v.T
	}
	n := c.NewInt("nlines")
	if prev != "" {
		c.Assume(fmt.Sprintf("(and (>= %s %s) (< %s 1000000))", n.T, prev, n.T))
	}
	return func(k int) interp.Value {
		if k >= 1 && k <= nlines {
			return interp.SymInt{T: terms[k], Kind: 2}
		}
		return k
	}, terms, n.T
}
