package checks

import (
	"encoding/json"
	"fmt"
	"os"
	"time"
)

// ReplayFile re-runs the concrete inputs of a replay file against the
// natively built current tree and prints what it does now.
func ReplayFile(prop, path string) int {
	b, err := os.ReadFile(path)
	if err != nil {
		fmt.Fprintln(os.Stderr, err)
		return 2
	}
	var f Finding
	if err := json.Unmarshal(b, &f); err != nil {
		fmt.Fprintln(os.Stderr, err)
		return 2
	}
	env, err := NewEnv("replay", 0)
	if err != nil {
		fmt.Fprintln(os.Stderr, "CHECK-ERROR:", err)
		return 3
	}
	defer env.Close()
	n, err := StartNative(env.NativeBin)
	if err != nil {
		fmt.Fprintln(os.Stderr, "CHECK-ERROR:", err)
		return 3
	}
	defer n.Close()
	fmt.Printf("replay of %s / %s: %s\n", f.Case, f.Sub, f.Msg)
	for _, d := range f.Detail {
		fmt.Println("  ", d)
	}
	same := true
	for name, src := range f.Sources {
		opt := name == "opt" || name == "lm" || name == "base"
		req := NativeReq{Op: "compile", Src: src, Optimize: opt, FontPath: "font_config.json"}
		resp, _, err := n.Do(req, 10*time.Second)
		if err != nil {
			fmt.Println("native error:", err)
			return 3
		}
		fmt.Printf("---- variant %s source:\n%s---- output now:\n%s", name, src, resp.Out)
		if resp.IsErr {
			fmt.Println("error:", resp.Err)
		}
		if resp.Out != f.Outputs[name] {
			same = false
		}
	}
	if same {
		fmt.Println("VIOLATION property=" + prop + " replay=" + path + " (outputs unchanged since the finding was recorded)")
		return 1
	}
	fmt.Println("outputs differ from the recorded ones: re-run the check to decide")
	return 0
}
