package checks

import (
	"fmt"
	"os"
	"regexp"
	"strings"
	"sync/atomic"
	"time"

	"verif/engine/interp"
)

type c18Shape struct {
	Sub     string `json:"sub"`
	Context string `json:"context"`
	Kinds   string `json:"kinds"`
	Lint    bool   `json:"lint"`
}

// ---- lexer: symbolic characters in concrete contexts

var c18LexContexts = []string{"|", "a|", "0|", "-|", "\"|\"", "`|`", "#|\n", "\"x\" | \"y\"", "ascii|\"x\"", "0x|", "foo(|)", "|script", "//|", "\"x\"|", "a |\n|"}

func c18LexRun(w *Worker, context string, widths []int, rep *Report) {
	lexFn := w.E.Func(HzPkg, "Lex")
	shape := c18Shape{Sub: "lexer", Context: context, Kinds: fmt.Sprint(widths)}
	name := fmt.Sprintf("c18/lexer/%q/%v", context, widths)
	stopped := false
	var curIn interp.Value
	report := func(c *interp.Ctx, msg string) {
		if stopped {
			return
		}
		stopped = true
		_, model := c.CheckModel("true", c.IntVars)
		f := &Finding{Property: "C18", Case: name, Sub: "lexer", Msg: msg, Model: model, Shape: shape}
		src, err := interp.Instantiate(curIn, model)
		if err != nil {
			rep.unconfirmed(f)
			return
		}
		f.Sources = map[string]string{"source": src, "source_quoted": fmt.Sprintf("%q", src)}
		ntoks, p, ok := nativeTokens(w, src)
		f.Outputs = map[string]string{"native": p}
		if ok && len(ntoks) > 20*len(src)+50 {
			ok = false
			p = fmt.Sprintf("the native lexer produced %d tokens for a %d-byte input without reaching EOF (no progress)", len(ntoks), len(src))
			f.Outputs["native"] = p
		}
		if ok {
			rep.unconfirmed(f)
			return
		}
		f.ReplayMsg = p
		f.Confirmed = true
		if strings.Contains(p, "invalid UTF-8") && strings.ContainsRune(src, 0xFFFD) {
			f.Tags = append(f.Tags, "replacement_character_panics")
		}
		rep.violation(f)
	}
	body := func(c *interp.Ctx) {
		c.Fuel = 400000
		var parts []interp.Part
		k := 0
		for i, seg := range strings.Split(context, "|") {
			if i > 0 {
				for _, wd := range widths {
					_ = k
					parts = append(parts, interp.CellPart(c.NewCell(wd, 0)))
				}
			}
			if seg != "" {
				parts = append(parts, interp.LitPart(seg))
			}
		}
		in := interp.MkRope(parts)
		curIn = in
		toks := interp.Elems(w.E.Call(c, lexFn, in))
		if len(toks) > 5000 {
			report(c, fmt.Sprintf("the lexer produced %d tokens for a %d-part input (no progress)", len(toks), len(parts)))
		}
	}
	done := func(c *interp.Ctx, r interp.PathResult) {
		switch r.Outcome {
		case interp.PathTargetPanic:
			report(c, "the lexer panicked: "+r.Msg)
		case interp.PathFuel, interp.PathBeyondBound:
			report(c, "the lexer does not reach EOF within the instruction / decision budget: "+r.Msg)
		case interp.PathDone:
			rep.crossOK()
		}
	}
	st, hit := w.E.Explore(w.S, 20000, body, done)
	rep.addExplore(nil, st, hit)
}

// ---- parser / emitter: concrete prefix + free tokens

var c18Prefixes = []string{"", "script S {", "script S {\ncmd(", "script S {\nif (", "script S {\nif (flag(A)", "script S {\nif (var(V) ==", "script S {\nif (var(V) == value(",
	"script S {\nif (av(", "script S {\nswitch (var(V)) {", "script S {\nswitch (var(V)) {\ncase", "script S {\nswitch (av(1)) {\ncase 1:", "script S {\nwhile", "script S {\ndo {\n}\nwhile (",
	"script S {\nporyswitch(K) {", "script S {\nporyswitch(K) {\nA", "text T {", "text T {\nformat(", "text T {\nformat(\"x\",", "text T {\nporyswitch(K) {", "movement M {", "movement M {\na *",
	"mart M {", "mart M {\nporyswitch(K) {\nA:", "mapscripts M {", "mapscripts M {\nT [", "mapscripts M {\nT [\nA,", "mapscripts M {\nT [\nA, 1", "const K =", "raw", "script S {\ncmd(moves(", "script(", "script S {\nlbl(",
	"script S {\nwhile (flag(A)) {\nbreak", "script S {\nif (flag(A)) {\nx\n} elif", "script S {\nif (flag(A)) {\nx\n} else", "script S {\ncmd(format(\"x\",", "script S {\nif (flag(A) &&", "script S {\nif (!(flag(A)) ||"}

var c18Kinds = []string{"I", "N", "S", "T", "R", "F"}

// closers complete the construct a prefix opened, so that the free tokens
// can also be followed by well-formed text instead of EOF.
var c18Closers = map[string]string{
	"script S {": "}", "script S {\ncmd(": ")\n}", "script S {\nif (": ") {\n}\n}", "script S {\nif (var(V) ==": ") {\n}\n}",
	"script S {\nif (var(V) == value(": ")) {\n}\n}", "script S {\nif (av(": ")) {\n}\n}", "script S {\nswitch (var(V)) {\ncase": ":\nx\n}\n}",
	"text T {": "}", "text T {\nformat(": ")\n}", "text T {\nformat(\"x\",": ")\n}", "movement M {": "}", "movement M {\na *": "\n}", "mart M {": "}",
	"mapscripts M {": "}", "mapscripts M {\nT [\nA,": ": L\n]\n}", "script S {\ncmd(moves(": "))\n}", "script S {\ncmd(format(\"x\",": "))\n}", "const K =": "\nscript S {\n}",
}

func c18ParserCase(prefix string, kinds []string, lint bool, closed bool) *Case {
	atoms := &AtomTable{Coded: true}
	var lines []string
	if prefix != "" {
		lines = append(lines, prefix)
	}
	for i, k := range kinds {
		switch k {
		case "I":
			lines = append(lines, atoms.New(ClsIdent, "free", "").Placeholder())
		case "N":
			lines = append(lines, atoms.New(ClsNum, "free", "").Placeholder())
		case "S":
			lines = append(lines, fmt.Sprintf("\"str%d$\"", i))
		case "T":
			lines = append(lines, fmt.Sprintf("ascii\"typed%d\"", i))
		case "R":
			lines = append(lines, "`raw text`")
		case "F":
			lines = append(lines, atoms.New(ClsFixedTok, "free", "").Placeholder())
		}
	}
	if closed {
		lines = append(lines, c18Closers[prefix])
	}
	prog := &Program{Atoms: atoms, Tops: []interface{}{&TopRaw{Text: strings.Join(lines, "\n")}}}
	opt := CompileOpts{Optimize: true, LM: true, Path: "in.pory", Lint: lint,
		AVs:    []AVSpec{{Name: L("av"), VarName: L("VAR_RESULT"), Pos: -1}},
		SwKeys: []Tok{L("K")}, SwVals: []Tok{L("A")}}
	if lint {
		opt.SwKeys, opt.SwVals = nil, nil
	}
	variants := []Variant{{Name: "main", Opt: opt}}
	if !lint {
		lo := opt
		lo.Lint, lo.SwKeys, lo.SwVals = true, nil, nil
		variants = append(variants, Variant{Name: "lint", Opt: lo})
		no := opt
		no.Optimize, no.LM = false, false
		variants = append(variants, Variant{Name: "noopt", Opt: no})
	}
	cs := &Case{Name: fmt.Sprintf("c18/parser/%q/%s/lint=%v/closed=%v", prefix, strings.Join(kinds, ""), lint, closed), Prog: prog, Variants: variants, NonTrivial: true,
		Shape: c18Shape{Sub: "parser", Context: prefix, Kinds: strings.Join(kinds, ""), Lint: lint}, MaxPaths: 3000}
	cs.Setup = func(x *OracleCtx) { x.C.Fuel = 2_000_000; x.C.MaxDecide = 80 }
	cs.Oracle = func(x *OracleCtx) *Violation {
		// lines of the input, counting the (empty) line after a trailing
		// newline: the EOF token is reported there
		n := x.NLines + 1
		for _, v := range x.Case.Variants {
			res := x.Res[v.Name]
			if res.Err.Panic != "" {
				tags := []string{}
				return &Violation{Sub: "crash", Msg: fmt.Sprintf("variant %s: compilation panicked or hung: %s", v.Name, res.Err.Panic), Tags: tags}
			}
			if res.Err.IsErr {
				if !res.Err.IsParseError {
					return &Violation{Sub: "error-location", Msg: fmt.Sprintf("variant %s: the error carries no line range: %s", v.Name, interp.ToString(res.Err.Msg))}
				}
				s, e := interp.IntTerm(res.Err.LineStart), interp.IntTerm(res.Err.LineEnd)
				okRange := fmt.Sprintf("(and (<= 1 %s) (<= %s %s) (<= %s %d))", s, s, e, e, n)
				if x.C.Valid(okRange) != interp.Unsat {
					return &Violation{Sub: "error-location", Query: interp.Not(okRange), Msg: fmt.Sprintf("variant %s: the error's line range %s..%s is not inside the input (1..%d) or is inverted: %s", v.Name, s, e, n, interp.ToString(res.Err.Msg))}
				}
			}
		}
		if m, l := x.Res["main"], x.Res["lint"]; l != nil && !m.Err.IsErr && l.Err.IsErr {
			return &Violation{Sub: "lint", Msg: "lint mode rejects a program that normal mode accepts: " + interp.ToString(l.Err.Msg)}
		}
		return nil
	}
	return cs
}

func matchKnownC18(k *KnownFinding, f *Finding) bool {
	switch kindOf(k) {
	case "replacement_character_panics":
		for _, t := range f.Tags {
			if t == "replacement_character_panics" {
				return true
			}
		}
	case "default_font_error_line_zero":
		return f.ReplaySub == "error-location" && strings.Contains(f.ReplayMsg, "line range 0..0") && strings.Contains(f.ReplayMsg, "unknown fontID") && strings.Contains(f.Case, "cli-font=nofont")
	case "error_without_line":
		var sh c18Shape
		shapeOfFinding(f, &sh)
		return f.ReplaySub == "error-location" && strings.Contains(f.ReplayMsg, "could not emit 'break'")
	}
	return false
}

// RunC18 is the check of property C18.
func RunC18(env *Env, rep *Report) {
	maxCells, maxFree := 2, 2
	if env.Tier == "thorough" {
		maxCells, maxFree = 3, 3
	}
	type lexJob struct {
		ctx    string
		widths []int
	}
	var lexJobs []lexJob
	var widthLists [][]int
	for a := 1; a <= 4; a++ {
		widthLists = append(widthLists, []int{a})
		for b := 1; b <= 4; b++ {
			widthLists = append(widthLists, []int{a, b})
			if maxCells >= 3 {
				for _, d := range []int{1, 3} {
					widthLists = append(widthLists, []int{a, b, d})
				}
			}
		}
	}
	for _, cx := range c18LexContexts {
		for _, ws := range widthLists {
			if strings.Count(cx, "|") > 1 && len(ws) > 1 {
				continue
			}
			lexJobs = append(lexJobs, lexJob{cx, ws})
		}
	}
	var cases []*Case
	for _, p := range c18Prefixes {
		for _, seq := range enumEntryLists(maxFree, c18Kinds) {
			bad := false
			for i := 0; i+1 < len(seq); i++ {
				if (seq[i] == "S" || seq[i] == "T") && seq[i+1] == "S" {
					bad = true // two adjacent string literals are one token
				}
			}
			if bad || strings.HasSuffix(p, "\"") && len(seq) > 0 && seq[0] == "S" {
				continue
			}
			if len(seq) == maxFree && maxFree >= 3 {
				// the longest streams: fixed-spelling and identifier tokens only
				only := true
				for _, k := range seq {
					if k != "F" && k != "I" && k != "N" {
						only = false
					}
				}
				if !only {
					continue
				}
			}
			cases = append(cases, c18ParserCase(p, seq, false, false))
			if _, ok := c18Closers[p]; ok && len(seq) > 0 {
				cases = append(cases, c18ParserCase(p, seq, false, true))
			}
		}
	}
	// format(...) parameter streams, closed, also with an unknown CLI default font
	for _, p := range []string{"text T {\nformat(\"x\",", "script S {\ncmd(format(\"x\","} {
		for _, seq := range enumEntryLists(3, []string{"N", "S", "F", "I"}) {
			if len(seq) < 3 {
				continue
			}
			bad := false
			for i := 0; i+1 < len(seq); i++ {
				if seq[i] == "S" && seq[i+1] == "S" {
					bad = true
				}
			}
			if !bad {
				cases = append(cases, c18ParserCase(p, seq, false, true))
			}
		}
	}
	for _, p := range []string{"text T {\nformat(", "script S {\ncmd(format("} {
		for _, seq := range [][]string{{"S"}, {"S", "F", "S"}, {"S", "F", "N"}} {
			cs := c18ParserCase(p, seq, false, true)
			cs.Name += "/cli-font=nofont"
			for i := range cs.Variants {
				cs.Variants[i].Opt.FontID = "nofont"
			}
			cases = append(cases, cs)
		}
	}
	// complete programs with deep chunk structures under the robustness oracle
	robust := func(base *Case) *Case {
		out := *base
		out.Name = "c18/program/" + base.Name
		out.Shape = c18Shape{Sub: "program", Context: base.Name}
		out.Variants = []Variant{{Name: "main", Opt: CompileOpts{Optimize: true, LM: true, Path: "in.pory"}}, {Name: "noopt", Opt: CompileOpts{}}, {Name: "lint", Opt: CompileOpts{Optimize: true, Lint: true}}}
		tmpl := c18ParserCase("", nil, false, false)
		out.Oracle = tmpl.Oracle
		out.Setup = func(x *OracleCtx) { x.C.Fuel = 3_000_000; x.C.MaxDecide = 400 }
		return &out
	}
	for _, ctx := range []string{"only", "first", "while"} {
		for _, first := range []string{"ifbreak", "cmd", "iflabelcmd"} {
			for n := 1; n <= 4; n++ {
				sh := []swEntry{{Body: first}, {Default: true, Body: "cmd"}}
				for i := 0; i < n; i++ {
					sh = append(sh, swEntry{Body: "empty"})
				}
				cases = append(cases, robust(c03Case(sh, ctx)))
			}
		}
	}
	for _, sh := range c01ContextShapes() {
		for _, e := range expandGotos(sh) {
			cases = append(cases, robust(c01Case(e, ShString(e))))
		}
	}
	for i := range c18LintPrograms {
		cases = append(cases, c18LintAcceptCase(i))
	}
	// every one-token corruption of the well-formed programs
	corrupt := c18CorruptCases(env.Tier)
	cases = append(cases, corrupt...)
	// lint mode on its own (no switches, no fonts)
	for _, p := range c18Prefixes {
		cases = append(cases, c18ParserCase(p, []string{"F"}, true, false))
	}
	rep.Technique = "symbolic execution of the real lexer on symbolic characters and of the real parser/emitter on token streams with symbolic token types (go/ssa); no-panic / termination by exhaustive path exploration with an instruction budget, error line ranges as validity queries (z3)"
	rep.Explanation = "Bounded symbolic verification, not a proof. Lexer: inputs made of up to the stated number of symbolic source characters (every ASCII byte incl. NUL; representative 2-, 3- and 4-byte letters, digits, spaces, symbols and U+FFFD) placed in each of the listed concrete contexts are lexed to EOF by symbolic execution of the real lexer; every feasible path must end without a panic and within the instruction budget. Parser/emitter: token streams consisting of a concrete prefix that reaches each parsing loop, followed by up to the stated number of free tokens - identifier, number, string, typed string, raw string, or a token whose TYPE is symbolic over all 48 fixed-spelling token types (keywords, operators, delimiters, illegal character) - and EOF are compiled by symbolic execution of the real parser and emitter (the type comparisons of the parser split the symbolic type lazily, so every distinguishable continuation is explored), in normal mode with optimize/line markers on and off, and in lint mode. The same is done for every one-token corruption of the listed well-formed programs (which together use every construct): at every token position a free token - of symbolic fixed-spelling type, or an identifier; in the thorough tier also a number or a string - is inserted or put in place of the token, or the token is deleted. Well-formed programs whose compilation needs a font table or -s switches (format() with an explicit font id in every parameter form, poryswitch in every position) must be accepted by the lint parser, which has neither. Asserted on every path: no panic (nil dereference, index out of range, failed assertion, explicit panic), termination within the budget, a returned error is located with 1 <= start <= end <= number of input lines, lint accepts what normal accepts. Paths ending in a panic or running out of budget are replayed on the native build (with a timeout) before they are reported."
	rep.Bounds = map[string]interface{}{"lexer_contexts": c18LexContexts, "max_symbolic_characters": maxCells, "lexer_cases": len(lexJobs), "parser_prefixes": len(c18Prefixes), "max_free_tokens": maxFree, "parser_cases": len(cases), "corrupted_program_cases": len(corrupt), "wellformed_programs": c18Wellformed, "instruction_budget": map[string]int{"lexer": 400000, "compile": 2000000}}
	rep.Outside = []string{"longer symbolic stretches", "non-ASCII characters outside the representative set", "memory growth other than through the instruction budget", "font / command config files (main.go I/O)"}
	rep.Assumptions = []string{"Unicode classification of the representative non-ASCII characters from the host's tables", "free tokens are rendered one per line (their line numbers are those of the rendered text)"}
	rep.Functions = []string{"lexer.", "parser.", "emitter."}
	rep.Match = matchKnownC18
	rep.AddSample(map[string]interface{}{"lexer_case": map[string]interface{}{"context": lexJobs[5].ctx, "symbolic_character_widths": lexJobs[5].widths}})
	src, _ := cases[len(cases)/2].Prog.Render()
	rep.AddSample(map[string]interface{}{"parser_case": cases[len(cases)/2].Name, "source_with_holes": src})
	// reachability witness: a twin claiming "no input is ever rejected" must be refuted
	runWitness(env, rep, "c18-witness-some-error", func() *Case {
		cs := c18ParserCase("script S {", []string{"F"}, false, false)
		cs.Oracle = func(x *OracleCtx) *Violation {
			if x.Res["main"].Err.IsErr {
				return &Violation{Sub: "witness", Msg: "rejected"}
			}
			return nil
		}
		return cs
	})
	if os.Getenv("VERIF_C18_PART") == "parser" {
		lexJobs = nil
	}
	if os.Getenv("VERIF_C18_PART") == "lexer" {
		cases = nil
	}
	if os.Getenv("VERIF_C18_PART") == "corrupt" {
		lexJobs, cases = nil, corrupt
	}
	if n := envInt("VERIF_C18_LIMIT"); n > 0 {
		if len(lexJobs) > n {
			lexJobs = lexJobs[:n]
		}
		if len(cases) > n {
			cases = cases[:n]
		}
	}
	env.RunJobs(len(lexJobs), rep, func(w *Worker, i int) {
		rep.mu.Lock()
		rep.Cases++
		rep.NonTrivial++
		rep.mu.Unlock()
		c18LexRun(w, lexJobs[i].ctx, lexJobs[i].widths, rep)
	})
	env.RunJobs(len(cases), rep, func(w *Worker, i int) {
		t0 := time.Now()
		if os.Getenv("VERIF_DEBUG") != "" {
			fmt.Fprintf(os.Stderr, "start %d %s\n", i, cases[i].Name)
		}
		w.RunCase(cases[i], rep)
		if os.Getenv("VERIF_DEBUG") != "" {
			fmt.Fprintf(os.Stderr, "end %d %v\n", i, time.Since(t0))
		}
	})
	acc := 0
	for i := range c18Wellformed {
		acc += int(atomic.LoadInt32(&c18Accepted[i]))
	}
	rep.Bounds["wellformed_programs_accepted_uncorrupted"] = fmt.Sprintf("%d of %d", acc, len(c18Wellformed))
}

// ---- lint mode never fails because switches or fonts are missing

// c18LintPrograms are well-formed programs whose compilation needs a font
// table or -s switches; the lint parser has neither and must accept them.
var c18LintPrograms = []string{
	"text T {\n  format(\"a b c\", \"1_latin_frlg\")\n}",
	"text T {\n  format(\"a b c\", 100, \"1_latin_frlg\")\n}",
	"text T {\n  format(\"a b c\", fontId=\"some_font\", numLines=3)\n}",
	"script S {\n  cmd(format(\"a b c\", \"1_latin_frlg\", 80))\n  cmd2(format(\"x\", maxLineLength=50, fontId=\"f\"))\n}",
	"text T {\n  poryswitch(LANG) {\n    DE: format(\"a b\", \"font_de\")\n    _: format(\"c d\", \"font_x\", 90)\n  }\n}",
	"script S {\n  poryswitch(GAME) {\n    RUBY { cmd(moves(poryswitch(LANG) { DE: walk_up }))\n }\n  }\n  if (av(format(\"q\", \"f2\")) == 1) {\n    c\n  }\n}",
	"movement M {\n  poryswitch(GAME) {\n    RUBY: walk_up\n  }\n}\nmart Z {\n  poryswitch(GAME) {\n    RUBY { ITEM_A }\n  }\n}",
	// format() parameters of huge magnitude (beyond 2^61, beyond 64 bits)
	"text T {\n  format(\"a b c\", numLines=4611686018427387904)\n}\ntext U {\n  format(\"a b c\", 99999999999999999999, numLines=99999999999999999999, cursorOverlapWidth=9223372036854775807)\n}",
}

func c18LintAcceptCase(i int) *Case {
	atoms := &AtomTable{Coded: true}
	prog := &Program{Atoms: atoms, Tops: []interface{}{&TopRaw{Text: c18LintPrograms[i]}}}
	opt := CompileOpts{Optimize: true, Lint: true, AVs: []AVSpec{{Name: L("av"), VarName: L("VAR_RESULT"), Pos: -1}}}
	cs := &Case{Name: fmt.Sprintf("c18/lint-accepts/%d", i), Prog: prog, Variants: []Variant{{Name: "lint", Opt: opt}, {Name: "lint-noopt", Opt: CompileOpts{Lint: true, AVs: opt.AVs}}}, NonTrivial: true,
		Shape: c18Shape{Sub: "lint-accepts", Context: c18LintPrograms[i], Lint: true}, MaxPaths: 64}
	cs.Oracle = func(x *OracleCtx) *Violation {
		for _, v := range x.Case.Variants {
			res := x.Res[v.Name]
			if res.Err.Panic != "" {
				return &Violation{Sub: "crash", Msg: "variant " + v.Name + ": " + res.Err.Panic}
			}
			if res.Err.IsErr {
				return &Violation{Sub: "lint", Msg: "lint mode rejects a well-formed program that only lacks fonts / switches: " + interp.ToString(res.Err.Msg)}
			}
		}
		return nil
	}
	return cs
}

// ---- one-token corruptions of well-formed programs

// c18Wellformed are accepted programs that together use every construct; each
// is corrupted at every token position by a free token.
var c18Wellformed = []string{
	`script S { if ( flag ( Z ) || flag ( A ) && flag ( B ) && ! ( var ( V ) == 2 || defeated ( T ) ) ) { foo } elif ( ! flag ( C ) ) { bar ( 1 , X ) } else { baz } }`,
	`script S { while ( var ( V ) < 3 && ( flag ( A ) || ! defeated ( T ) ) || av ( 1 ) == 2 ) { cmd continue } do { cmd ( "hi$" ) break } while ( flag ( A ) == false ) while { end } }`,
	`script S { switch ( var ( V ) ) { case 1 : case 2 : cmd break default : cmd2 ( moves ( walk_up * 2 , walk_down ) ) case K : } lbl ( global ) : goto ( lbl ) }`,
	`script ( local ) S { switch ( av ( 1 , 2 ) ) { case 1 : cmd } poryswitch ( K ) { A { cmd } B : cmd2 _ : end } cmd ( format ( "a b c" , 100 ) , ascii"x" ) return }`,
	`const K = 1 + 2 const J = K text ( global ) T { poryswitch ( K ) { A : "a$" B { braille"b" } _ : format ( "c d" , numLines = 3 , maxLineLength = 50 ) } } raw ` + "`x y`",
	`movement M { walk_up * 3 poryswitch ( K ) { A : walk_left _ { walk_right * 2 step_end } } face_down } mart ( global ) Z { ITEM_A K poryswitch ( K ) { A { ITEM_B } _ : ITEM_NONE } }`,
	`script S { cmd ( 1 , moves ( poryswitch ( K ) { A : walk_up B { walk_down * 2 } } ) ) } movement M { poryswitch ( K ) { A : walk_up } } mart Z { poryswitch ( K ) { A { ITEM_B } } } text T { poryswitch ( K ) { A : "a$" } }`,
	`script S { switch ( var ( V ) ) { case 1 : break foo case 2 : switch ( var ( W ) ) { case 3 : a case 4 : b } } } script S2 { while ( flag ( A ) ) { c break d } if ( flag ( B ) ) { e } else { f } do { continue } while ( flag ( A ) ) }`,
	`const P = ( BASE + 1 ) const Q = ITEM_A ITEM_B mart M { P ITEM_C Q } movement V { Q * 2 P } script S3 { switch ( var ( P ) ) { case Q : cmd ( P , Q ) } }`,
	`mapscripts M { T1 : L T2 { cmd if ( flag ( A ) ) { end } } T3 [ VAR_A , 1 : L2 VAR_B , K { cmd ( "t$" ) } ] }`,
	// texts named like the labels of inline map scripts (and of their sub-labels)
	`mapscripts M { T2 { cmd if ( flag ( A ) ) { end } } T3 [ VAR_A , 1 { cmd } ] } text M_T2 { "x$" } text M_T3_0 { "y$" } text M_T2_1 { "z$" }`,
}

var c18TokRe = regexp.MustCompile("`[^`]*`|[A-Za-z_][A-Za-z0-9_]*\"[^\"]*\"|\"[^\"]*\"|[A-Za-z_][A-Za-z0-9_]*|[0-9]+|&&|\\|\\||==|!=|<=|>=|\\S")

// c18CorruptCase: mode "insert" puts the free token before position pos,
// "replace" puts it instead of the token at pos, "delete" just drops the token.
func c18CorruptCase(ti int, pos int, mode string, kind string) *Case {
	toks := c18TokRe.FindAllString(c18Wellformed[ti], -1)
	atoms := &AtomTable{Coded: true}
	var free string
	switch kind {
	case "F":
		free = atoms.New(ClsFixedTok, "free", "").Placeholder()
	case "I":
		free = atoms.New(ClsIdent, "free", "").Placeholder()
	case "N":
		free = atoms.New(ClsNum, "free", "").Placeholder()
	case "S":
		free = "\"str$\""
	}
	var lines []string
	for i, t := range toks {
		if i == pos {
			switch mode {
			case "insert":
				lines = append(lines, free, t)
			case "replace":
				lines = append(lines, free)
			case "delete":
			}
			continue
		}
		lines = append(lines, t)
	}
	if pos == len(toks) && mode == "insert" {
		lines = append(lines, free)
	}
	base := c18ParserCase("", nil, false, false)
	prog := &Program{Atoms: atoms, Tops: []interface{}{&TopRaw{Text: strings.Join(lines, "\n")}}}
	cs := &Case{Name: fmt.Sprintf("c18/corrupt/%d/%s-%s@%d", ti, mode, kind, pos), Prog: prog, Variants: base.Variants, NonTrivial: true,
		Shape: c18Shape{Sub: "corrupt", Context: fmt.Sprintf("program %d, %s %s at token %d", ti, mode, kind, pos)}, MaxPaths: 3000}
	cs.Setup = func(x *OracleCtx) { x.C.Fuel = 3_000_000; x.C.MaxDecide = 200 }
	cs.Oracle = base.Oracle
	return cs
}

// c18Accepted counts the uncorrupted programs the real code accepts (evidence
// that the corruptions start from well-formed programs; not an assertion).
var c18Accepted [16]int32

func c18CorruptCases(tier string) []*Case {
	var cases []*Case
	for ti, src := range c18Wellformed {
		ti := ti
		n := len(c18TokRe.FindAllString(src, -1))
		plain := c18CorruptCase(ti, -1, "none", "")
		orig := plain.Oracle
		plain.Oracle = func(x *OracleCtx) *Violation {
			if !x.Res["main"].Err.IsErr && x.Res["main"].Err.Panic == "" {
				atomic.StoreInt32(&c18Accepted[ti], 1)
			}
			return orig(x)
		}
		cases = append(cases, plain)
		for pos := 0; pos <= n; pos++ {
			cases = append(cases, c18CorruptCase(ti, pos, "insert", "F"))
			if pos < n {
				cases = append(cases, c18CorruptCase(ti, pos, "replace", "F"), c18CorruptCase(ti, pos, "delete", ""))
			}
			if tier == "thorough" {
				for _, k := range []string{"I", "N", "S"} {
					cases = append(cases, c18CorruptCase(ti, pos, "insert", k))
					if pos < n {
						cases = append(cases, c18CorruptCase(ti, pos, "replace", k))
					}
				}
			} else if pos%2 == 0 {
				cases = append(cases, c18CorruptCase(ti, pos, "insert", "I"))
			}
		}
	}
	return cases
}
