package checks

import (
	"encoding/json"
	"fmt"
	"strings"

	"verif/engine/interp"
)

// swEntry is one entry of a switch shape.
type swEntry struct {
	Default bool   `json:"default"`
	Body    string `json:"body"` // empty cmd cmdbreakcmd ifbreak labelcmd
}

type c03Shape struct {
	Entries []swEntry `json:"entries"`
	Context string    `json:"context"`
}

func (s c03Shape) String() string {
	var parts []string
	for _, e := range s.Entries {
		k := "case"
		if e.Default {
			k = "default"
		}
		parts = append(parts, k+":"+e.Body)
	}
	return s.Context + "[" + strings.Join(parts, " ") + "]"
}

var c03Bodies = []string{"empty", "cmd", "break", "cmdbreakcmd", "cmdend", "ifbreak", "labelcmd", "label"}

func enumSwitchShapes(m int, bodies []string) [][]swEntry {
	var res [][]swEntry
	var rec func(cur []swEntry, haveDefault bool)
	rec = func(cur []swEntry, haveDefault bool) {
		if len(cur) == m {
			res = append(res, append([]swEntry{}, cur...))
			return
		}
		for _, b := range bodies {
			rec(append(cur, swEntry{Body: b}), haveDefault)
			if !haveDefault {
				rec(append(cur, swEntry{Default: true, Body: b}), true)
			}
		}
	}
	rec(nil, false)
	return res
}

func c03Case(entries []swEntry, context string) *Case { return c03CaseMode(entries, context, true) }

// c03CaseMode with coded=false uses SMT-string names (spelling-dependent
// decisions become solver queries, see c01SpelledShapes).
func c03CaseMode(entries []swEntry, context string, coded bool) *Case {
	atoms := &AtomTable{Coded: coded}
	sname := atoms.New(ClsIdent, "script", "names")
	operand := atoms.New(ClsIdent, "var", "")
	newCmd := func() *Cmd { return &Cmd{Name: A(atoms.New(ClsPlainCmd, "cmd", ""))} }
	var vals []*Atom
	sw := &Switch{Operand: []Tok{A(operand)}}
	for _, e := range entries {
		c := &SwCase{Default: e.Default}
		if !e.Default {
			v := atoms.New(ClsNum, "case", "")
			vals = append(vals, v)
			c.Value = []Tok{A(v)}
		}
		switch e.Body {
		case "empty":
		case "cmd":
			c.Body = []Stmt{newCmd()}
		case "break":
			c.Body = []Stmt{&Break{}}
		case "cmdend":
			c.Body = []Stmt{newCmd(), &Cmd{Name: L("end")}}
		case "cmdbreakcmd":
			c.Body = []Stmt{newCmd(), &Break{}, newCmd()}
		case "ifbreak":
			c.Body = []Stmt{&If{Conds: []*Expr{LeafFlag(atoms.New(ClsIdent, "flag", ""))}, Bodies: [][]Stmt{{&Break{}}}}, newCmd()}
		case "labelcmd":
			c.Body = []Stmt{&Label{Name: atoms.New(ClsUserName, "lbl", "names")}, newCmd()}
		case "label":
			// a body that is only a label is still a body: nothing is shared
			c.Body = []Stmt{&Label{Name: atoms.New(ClsUserName, "lbl", "names")}}
		case "iflabelcmd":
			c.Body = []Stmt{&If{Conds: []*Expr{LeafFlag(atoms.New(ClsIdent, "flag", ""))}, Bodies: [][]Stmt{{newCmd()}}}, &Label{Name: atoms.New(ClsUserName, "lbl", "names")}, newCmd()}
		}
		sw.Cases = append(sw.Cases, c)
	}
	var body []Stmt
	switch context {
	case "only":
		body = []Stmt{sw}
	case "first":
		body = []Stmt{sw, newCmd()}
	case "last":
		body = []Stmt{newCmd(), sw}
	case "while":
		body = []Stmt{&While{Cond: LeafFlag(atoms.New(ClsIdent, "flag", "")), Body: []Stmt{sw, newCmd()}}, newCmd()}
	case "if":
		body = []Stmt{&If{Conds: []*Expr{LeafFlag(atoms.New(ClsIdent, "flag", ""))}, Bodies: [][]Stmt{{sw}}, Else: []Stmt{newCmd()}, HasElse: true}, newCmd()}
	case "nested":
		outerV := atoms.New(ClsNum, "ocase", "")
		outer := &Switch{Operand: []Tok{A(atoms.New(ClsIdent, "ovar", ""))}, Cases: []*SwCase{
			{Value: []Tok{A(outerV)}, Body: []Stmt{sw, newCmd()}},
			{Default: true, Body: []Stmt{newCmd()}},
		}}
		body = []Stmt{outer, newCmd()}
	}
	prog := &Program{Atoms: atoms, Tops: []interface{}{&Script{Name: sname, Body: body}}}
	shape := c03Shape{Entries: entries, Context: context}
	cs := &Case{Name: "c03/" + shape.String(), Prog: prog, Variants: optVariants, NonTrivial: true, Shape: shape,
		Setup: func(x *OracleCtx) {
			// distinct spellings are assumed to denote distinct values
			var ts []string
			for _, v := range vals {
				if v.IntT != "" {
					ts = append(ts, v.IntT)
				}
			}
			if len(ts) > 1 && !x.Replay {
				x.C.Assume("(distinct " + strings.Join(ts, " ") + ")")
			}
		},
	}
	main := bisimOracle("switch", func(x *OracleCtx) []*Script { return scriptsOf(prog) }, nil)
	alt := bisimOracle("switch-alt", func(x *OracleCtx) []*Script { return scriptsOf(prog) }, func(x *OracleCtx) RefOptions { return RefOptions{SwitchQuirk: true} })
	cs.Oracle = func(x *OracleCtx) *Violation {
		v := main(x)
		if v != nil && c03KnownPredicate(entries) {
			if av := alt(x); av == nil {
				v.Tags = append(v.Tags, "explained_by_trailing_empty_case_quirk")
			}
		}
		return v
	}
	return cs
}

// c03ConstCase: case values written with constants, also in the second and
// third token of a multi-token value; the output must equal that of the
// switch with the values written out, for all names and numbers.
func c03ConstCase() *Case {
	atoms := &AtomTable{Coded: true}
	ph := func(a *Atom) string { return a.Placeholder() }
	s := atoms.New(ClsIdent, "script", "names")
	v := atoms.New(ClsIdent, "var", "consts") // the operand is itself a use site: keep it distinct from the constants
	k1, k2 := atoms.New(ClsIdent, "const", "consts"), atoms.New(ClsIdent, "const", "consts")
	n1, n2, n3 := atoms.New(ClsNum, "cv", ""), atoms.New(ClsNum, "cv", ""), atoms.New(ClsNum, "case", "")
	c1, c2, c3, c4 := atoms.New(ClsPlainCmd, "cmd", ""), atoms.New(ClsPlainCmd, "cmd", ""), atoms.New(ClsPlainCmd, "cmd", ""), atoms.New(ClsPlainCmd, "cmd", "")
	body := func(a, b string) string {
		return "script " + ph(s) + " {\nswitch (var(" + ph(v) + ")) {\ncase " + a + ":\n" + ph(c1) + "\ncase " + ph(n3) + " + " + b + ":\n" + ph(c2) + "\ncase " + ph(n3) + " + " + a + " + " + b + ":\ncase " + b + ":\n" + ph(c3) + "\ndefault:\n" + ph(c4) + "\n}\n}"
	}
	with := "const " + ph(k1) + " = " + ph(n1) + "\nconst " + ph(k2) + " = " + ph(n2) + "\n" + body(ph(k1), ph(k2))
	written := body(ph(n1), ph(n2))
	prog := &Program{Atoms: atoms, Tops: []interface{}{&TopRaw{Text: with}}}
	ref := &Program{Atoms: atoms, Tops: []interface{}{&TopRaw{Text: written}}}
	variants := []Variant{{Name: "opt", Opt: CompileOpts{Optimize: true}}, {Name: "noopt", Opt: CompileOpts{}},
		{Name: "opt-written", Opt: CompileOpts{Optimize: true}, Prog: ref}, {Name: "noopt-written", Opt: CompileOpts{}, Prog: ref}}
	cs := &Case{Name: "c03/const-case-values", Prog: prog, Variants: variants, NonTrivial: true, Shape: c03Shape{Context: "const-case-values"}, MaxPaths: 64}
	cs.Setup = func(x *OracleCtx) {
		if !x.Replay {
			x.C.Assume(fmt.Sprintf("(distinct %s %s)", n1.IntT, n2.IntT))
		}
	}
	cs.Oracle = func(x *OracleCtx) *Violation {
		for _, vn := range []string{"opt", "noopt"} {
			a, b := x.Res[vn], x.Res[vn+"-written"]
			if a.Err.Panic != "" || a.Err.IsErr != b.Err.IsErr {
				return &Violation{Sub: "switch-const", Msg: fmt.Sprintf("variant %s: with constants error=%v %s%s, with the values written out error=%v", vn, a.Err.IsErr, interp.ToString(a.Err.Msg), a.Err.Panic, b.Err.IsErr)}
			}
			if a.Err.IsErr {
				continue
			}
			if v := expectLines(x, "switch-const", "variant "+vn+": switch with constant case values vs the same switch with the values written out", outputLines(a.Out, false), outputLines(b.Out, false)); v != nil {
				return v
			}
		}
		return nil
	}
	return cs
}

// c03KnownPredicate: a body-less non-default case after the last body AND a
// default whose label group reaches a body.
func c03KnownPredicate(entries []swEntry) bool {
	lastBody := -1
	for i, e := range entries {
		if e.Body != "empty" {
			lastBody = i
		}
	}
	trailingEmptyCase := false
	for i, e := range entries {
		if i > lastBody && !e.Default {
			trailingEmptyCase = true
		}
	}
	defaultReachesBody := false
	for i, e := range entries {
		if e.Default && i <= lastBody {
			defaultReachesBody = true
		}
	}
	return trailingEmptyCase && defaultReachesBody
}

func shapeOfFinding(f *Finding, out interface{}) bool {
	b, err := json.Marshal(f.Shape)
	if err != nil {
		return false
	}
	return json.Unmarshal(b, out) == nil
}

func matchKnownC03(k *KnownFinding, f *Finding) bool {
	var m struct {
		Kind string `json:"kind"`
	}
	json.Unmarshal(k.Match, &m)
	var sh c03Shape
	if !shapeOfFinding(f, &sh) || len(sh.Entries) == 0 {
		return false
	}
	switch m.Kind {
	case "default_body_with_trailing_empty_case":
		if !c03KnownPredicate(sh.Entries) {
			return false
		}
		for _, t := range f.Tags {
			if t == "explained_by_trailing_empty_case_quirk" {
				return true
			}
		}
	}
	return false
}

// RunC03 is the check of property C03.
func RunC03(env *Env, rep *Report) {
	maxLen := 3
	bodies := []string{"empty", "cmd", "break", "cmdbreakcmd"}
	contexts := []string{"only", "first", "while"}
	if env.Tier == "thorough" {
		maxLen = 4
		bodies = c03Bodies
		contexts = []string{"only", "first", "last", "while", "if", "nested"}
	}
	if v := envInt("VERIF_C03_LEN"); v > 0 {
		maxLen = v
	}
	var cases []*Case
	for m := 1; m <= maxLen; m++ {
		bs := bodies
		if m == maxLen && env.Tier == "thorough" {
			bs = []string{"empty", "cmd", "break", "cmdbreakcmd"}
		}
		for _, sh := range enumSwitchShapes(m, bs) {
			for ci, ctx := range contexts {
				if m == maxLen && ci > 2 {
					continue
				}
				cases = append(cases, c03Case(sh, ctx))
			}
		}
	}
	if env.Tier != "thorough" {
		// the richer bodies and contexts on short lists
		for m := 1; m <= 2; m++ {
			for _, sh := range enumSwitchShapes(m, c03Bodies) {
				for _, ctx := range []string{"last", "if", "nested"} {
					cases = append(cases, c03Case(sh, ctx))
				}
			}
		}
	}
	// label-only bodies next to empty and non-empty ones
	for _, sh := range enumSwitchShapes(3, []string{"label", "cmd", "empty"}) {
		has := false
		for _, e := range sh {
			if e.Body == "label" {
				has = true
			}
		}
		if has {
			cases = append(cases, c03Case(sh, "first"))
		}
	}
	// case values given through constants (also in a later token of the value)
	cases = append(cases, c03ConstCase())
	// one switch with more than 64 cases (chunk ids beyond a machine word's bits)
	{
		var big []swEntry
		for i := 0; i < 66; i++ {
			big = append(big, swEntry{Body: "cmd"})
		}
		cs := c03Case(big, "only")
		cs.Name = "c03/big-66-cases"
		cs.MaxPaths = 4
		cases = append(cases, cs)
	}
	// SMT-string names: bodies that end in an ordinary command
	for _, sh := range [][]swEntry{{{Body: "cmd"}, {Body: "cmd"}}, {{Body: "cmd"}, {Default: true, Body: "cmd"}, {Body: "cmd"}}} {
		cs := c03CaseMode(sh, "first", false)
		cs.Name = strings.Replace(cs.Name, "c03/", "c03/spelled/", 1)
		cases = append(cases, cs)
	}
	// long tails of body-less cases after a default body (chunk id gaps)
	for _, ctx := range contexts {
		for _, first := range []string{"ifbreak", "cmd", "iflabelcmd"} {
			for n := 2; n <= 4; n++ {
				sh := []swEntry{{Body: first}, {Default: true, Body: "cmd"}}
				for i := 0; i < n; i++ {
					sh = append(sh, swEntry{Body: "empty"})
				}
				cases = append(cases, c03Case(sh, ctx))
			}
		}
	}
	rep.Technique = "symbolic execution of the real switch parser and emitter (go/ssa) + SMT-discharged bisimulation against the reference switch semantics"
	rep.Explanation = "Bounded symbolic verification, not a proof. Every case list up to the stated length (each entry case or default - at most one default -, with every body kind of the bound) in every listed context is compiled by symbolic execution of the real code with symbolic names and symbolic case constants (pairwise distinct integers); the emitted switch/case/goto code is shown bisimilar to the reference (matching case's body; body-less entries share the next body; trailing body-less entries select nothing; default iff no case matches; no fall-through; break leaves the switch) for every value of the switched var and every flag state, by SMT queries; loop contexts cover re-entry."
	rep.Bounds = map[string]interface{}{"max_case_list_length": maxLen, "bodies": bodies, "contexts": contexts, "cases": len(cases)}
	rep.Outside = []string{"longer case lists", "bodies other than the listed kinds", "case values other than plain numbers and the constant forms of the const-case-values program", "switch on autovar commands (C11)"}
	rep.Assumptions = []string{"distinct case spellings denote distinct values (the parser only rejects textual duplicates)", "assembly semantics of DESIGN.md §4.1: 'switch V' + 'case c, L' jumps to L iff var V equals c"}
	rep.Functions = []string{"parseSwitchStatement", "parseSwitchBlockStatement", "createSwitchStatementChunks", "switchBranch", "breakContext", "emitScriptStatement", "renderChunks", "optimizeChunkOrder"}
	rep.Match = matchKnownC03
	if len(cases) > 3 {
		src, _ := cases[len(cases)/2].Prog.Render()
		rep.AddSample(map[string]interface{}{"case": cases[len(cases)/2].Name, "source_with_holes": src})
	}
	runWitness(env, rep, "c03-witness-fallthrough", func() *Case {
		cs := c03Case([]swEntry{{Body: "cmd"}, {Body: "cmd"}}, "first")
		prog := cs.Prog
		cs.Oracle = bisimOracle("witness", func(x *OracleCtx) []*Script {
			// twin: a reference in which the first body falls through into the second
			s := scriptsOf(prog)[0]
			sw := s.Body[0].(*Switch)
			tw := &Switch{Operand: sw.Operand, Cases: []*SwCase{
				{Value: sw.Cases[0].Value, Body: append(append([]Stmt{}, sw.Cases[0].Body...), sw.Cases[1].Body...)},
				sw.Cases[1]}}
			return []*Script{{Name: s.Name, Body: []Stmt{tw, s.Body[1]}}}
		}, nil)
		return cs
	})
	env.RunJobs(len(cases), rep, func(w *Worker, i int) { w.RunCase(cases[i], rep) })
	_ = interp.And
	_ = fmt.Sprint
}
