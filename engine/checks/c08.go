package checks

import (
	"fmt"
	"strings"

	"verif/engine/interp"
)

type c08Shape struct {
	Entries []string `json:"entries"`
	Body    string   `json:"inline_body"`
}

var c08TextSeq int

// inline bodies used inside map scripts
func c08Body(kind string, atoms *AtomTable) []Stmt {
	if kind == "text" {
		c08TextSeq++
		c := &Cmd{Name: A(atoms.New(ClsPlainCmd, "cmd", "")), Args: [][]Tok{{L(fmt.Sprintf("\"Hello %d$\"", c08TextSeq))}, {A(atoms.New(ClsIdent, "arg", ""))}}}
		return []Stmt{c, &Cmd{Name: A(atoms.New(ClsPlainCmd, "cmd", ""))}}
	}
	cmd := func() *Cmd { return &Cmd{Name: A(atoms.New(ClsPlainCmd, "cmd", ""))} }
	flag := func() *Expr { return LeafFlag(atoms.New(ClsIdent, "flag", "")) }
	switch kind {
	case "cmd":
		return []Stmt{cmd()}
	case "end":
		return []Stmt{cmd(), &Cmd{Name: L("end")}}
	case "if":
		return []Stmt{&If{Conds: []*Expr{flag()}, Bodies: [][]Stmt{{cmd()}}, Else: []Stmt{&Cmd{Name: L("end")}}, HasElse: true}, cmd()}
	case "while":
		return []Stmt{&While{Cond: flag(), Body: []Stmt{cmd(), &If{Conds: []*Expr{flag()}, Bodies: [][]Stmt{{&Break{}}}}}}, cmd()}
	case "empty":
		return nil
	}
	panic("c08 body " + kind)
}

func c08Case(entryKinds []string, bodyKind string) *Case {
	atoms := &AtomTable{Coded: true}
	mname := atoms.New(ClsUserName, "map", "names")
	ms := &MapScriptsTop{Name: mname}
	type inlineScript struct {
		name func() interp.Value
		body []Stmt
	}
	var inlines []*inlineScript
	for _, k := range entryKinds {
		ty := atoms.New(ClsIdent, "mstype", "mstypes")
		e := &MapEntry{Type: ty}
		switch {
		case k == "plain":
			e.Kind, e.Label = "plain", atoms.New(ClsIdent, "target", "")
		case k == "inline":
			e.Kind, e.Body = "inline", c08Body(bodyKind, atoms)
			inlines = append(inlines, &inlineScript{func() interp.Value { return cat(mname.Val, "_", ty.Val) }, e.Body})
		case strings.HasPrefix(k, "table:"):
			e.Kind = "table"
			for i, rk := range strings.Split(strings.TrimPrefix(k, "table:"), ",") {
				r := &MapRow{Cond: []Tok{A(atoms.New(ClsIdent, "cond", ""))}, Value: []Tok{A(atoms.New(ClsNum, "val", ""))}}
				if rk == "p" {
					r.Label = atoms.New(ClsIdent, "target", "")
				} else {
					r.Body = c08Body(bodyKind, atoms)
					i := i
					inlines = append(inlines, &inlineScript{func() interp.Value { return cat(mname.Val, "_", ty.Val, fmt.Sprintf("_%d", i)) }, r.Body})
				}
				e.Rows = append(e.Rows, r)
			}
		}
		ms.Entries = append(ms.Entries, e)
	}
	prog := &Program{Atoms: atoms, Tops: []interface{}{ms}}
	cs := &Case{Name: fmt.Sprintf("c08/%v/%s", entryKinds, bodyKind), Prog: prog, Variants: optVariants, NonTrivial: len(entryKinds) > 0, Shape: c08Shape{Entries: entryKinds, Body: bodyKind}}
	var scripts []*Script
	for _, in := range inlines {
		scripts = append(scripts, &Script{NameV: in.name, Body: in.body})
	}
	// inline text arguments appear as the owning inline script's hoisted label
	owner := map[*Cmd]func() interp.Value{}
	for _, in := range inlines {
		for _, st := range in.body {
			if c, ok := st.(*Cmd); ok && len(c.Args) > 0 && len(c.Args[0]) == 1 && strings.HasPrefix(c.Args[0][0].Lit, "\"Hello ") {
				owner[c] = in.name
			}
		}
	}
	behaviour := bisimOracle("inline-script-behaviour", func(x *OracleCtx) []*Script { return scripts }, func(x *OracleCtx) RefOptions {
		return RefOptions{ArgValue: func(c *Cmd, i int) (interp.Value, bool) {
			if o, ok := owner[c]; ok && i == 0 {
				return cat(o(), "_Text_0"), true
			}
			return nil, false
		}}
	})
	cs.Oracle = func(x *OracleCtx) *Violation {
		for _, v := range x.Case.Variants {
			res := x.Res[v.Name]
			if res.Err.Panic != "" || res.Err.IsErr {
				return &Violation{Sub: "accept", Msg: "variant " + v.Name + " rejected: " + interp.ToString(res.Err.Msg) + res.Err.Panic}
			}
			// header
			want := []interp.Value{cat(mname.Val, "::")}
			for _, e := range ms.Entries {
				switch e.Kind {
				case "plain":
					want = append(want, cat("\tmap_script ", e.Type.Val, ", ", e.Label.Val))
				case "inline":
					want = append(want, cat("\tmap_script ", e.Type.Val, ", ", mname.Val, "_", e.Type.Val))
				}
			}
			for _, e := range ms.Entries {
				if e.Kind == "table" {
					want = append(want, cat("\tmap_script ", e.Type.Val, ", ", mname.Val, "_", e.Type.Val))
				}
			}
			want = append(want, "\t.byte 0")
			lines := nonBlank(outputLines(res.Out, false))
			if len(lines) < len(want) {
				return &Violation{Sub: "header", Msg: fmt.Sprintf("variant %s: output has %d lines, the header alone needs %d", v.Name, len(lines), len(want))}
			}
			if vv := expectLines(x, "header", "variant "+v.Name+": mapscripts header", lines[:len(want)], want); vv != nil {
				return vv
			}
			// tables
			for _, e := range ms.Entries {
				if e.Kind != "table" {
					continue
				}
				tl := cat(mname.Val, "_", e.Type.Val)
				sec, n := sectionAfterLabel(x, res.Out, tl)
				if n != 1 {
					return &Violation{Sub: "table", Msg: fmt.Sprintf("variant %s: table label %s is defined %d times", v.Name, interp.ToString(tl), n)}
				}
				var tw []interp.Value
				for i, r := range e.Rows {
					lbl := interp.Value(nil)
					if r.Label != nil {
						lbl = r.Label.Val
					} else {
						lbl = cat(tl, fmt.Sprintf("_%d", i))
					}
					tw = append(tw, cat("\tmap_script_2 ", JoinToks(r.Cond), ", ", JoinToks(r.Value), ", ", lbl))
				}
				tw = append(tw, "\t.2byte 0")
				if vv := expectLines(x, "table", fmt.Sprintf("variant %s: table %s", v.Name, interp.ToString(tl)), sec, tw); vv != nil {
					return vv
				}
			}
			// every inline script is defined exactly once
			for _, in := range inlines {
				if n := countLabelDefs(x.C, res.Out, in.name()); n != 1 {
					return &Violation{Sub: "inline-script", Msg: fmt.Sprintf("variant %s: inline script %s is defined %d times", v.Name, interp.ToString(in.name()), n)}
				}
			}
			// the mapscripts label and every label are unique
			if n := countLabelDefs(x.C, res.Out, mname.Val); n != 1 {
				return &Violation{Sub: "header", Msg: fmt.Sprintf("variant %s: mapscripts label defined %d times", v.Name, n)}
			}
		}
		if len(scripts) > 0 {
			return behaviour(x)
		}
		return nil
	}
	return cs
}

func enumMapEntries(maxLen int, maxRows int) [][]string {
	kinds := []string{"plain", "inline"}
	for n := 1; n <= maxRows; n++ {
		for code := 0; code < 1<<n; code++ {
			var rs []string
			for i := 0; i < n; i++ {
				if code>>i&1 == 1 {
					rs = append(rs, "i")
				} else {
					rs = append(rs, "p")
				}
			}
			kinds = append(kinds, "table:"+strings.Join(rs, ","))
		}
	}
	return enumEntryLists(maxLen, kinds)
}

// RunC08 is the check of property C08.
func RunC08(env *Env, rep *Report) {
	maxLen, maxRows := 3, 2
	if env.Tier == "thorough" {
		maxLen, maxRows = 4, 3
	}
	var cases []*Case
	bodies := []string{"cmd", "end", "if", "while", "empty", "text"}
	for i, l := range enumMapEntries(maxLen, maxRows) {
		if len(l) == maxLen && env.Tier == "thorough" && i%3 != 0 {
			continue
		}
		cases = append(cases, c08Case(l, bodies[i%len(bodies)]))
	}
	for _, b := range bodies {
		cases = append(cases, c08Case([]string{"inline", "table:i,p", "inline"}, b), c08Case([]string{"table:i,i", "table:p,i"}, b))
	}
	rep.Technique = "symbolic execution of the real mapscripts parser and emitter (go/ssa) with symbolic names; rope assertions on header and tables + SMT-discharged bisimulation of every inline script against its body as a script"
	rep.Explanation = "Bounded symbolic verification, not a proof. Every mapscripts entry list up to the length bound over {plain, inline, table with up to the row bound of plain/inline rows} is compiled by symbolic execution of the real code with all type names, labels, table conditions and values symbolic, inline bodies rotating over {one command, command+end, if/else with end, while with conditional break, empty}. Asserted: the header label, the map_script lines of the plain and inline entries in source order followed by those of the tables in source order, '.byte 0'; for every table its label, its map_script_2 triples in source order and '.2byte 0'; every inline script (entry or table row) is defined exactly once under the label the header/row carries and is bisimilar (for every game state) to its body written as a script statement."
	rep.Bounds = map[string]interface{}{"max_entries": maxLen, "max_rows_per_table": maxRows, "inline_bodies": bodies, "cases": len(cases)}
	rep.Outside = []string{"longer entry lists / tables", "inline bodies beyond the listed kinds (inline text in inline map scripts is covered by C06, poryswitch by C12)", "two entries with the same type name"}
	rep.Assumptions = []string{"type names are pairwise distinct generic identifiers", "assembly semantics of DESIGN.md §4.1 for the inline scripts"}
	rep.Functions = []string{"parseMapscriptsStatement", "emitMapScriptStatement", "emitScriptStatement", "renderChunks"}
	rep.Match = func(k *KnownFinding, f *Finding) bool { return false }
	src, _ := cases[len(cases)/2].Prog.Render()
	rep.AddSample(map[string]interface{}{"case": cases[len(cases)/2].Name, "source_with_holes": src})
	runWitness(env, rep, "c08-witness-tables-first", func() *Case {
		cs := c08Case([]string{"table:p", "plain"}, "cmd")
		ms := cs.Prog.Tops[0].(*MapScriptsTop)
		cs.Oracle = func(x *OracleCtx) *Violation {
			// twin: expect the entries in plain source order (table first)
			want := []interp.Value{cat(ms.Name.Val, "::"),
				cat("\tmap_script ", ms.Entries[0].Type.Val, ", ", ms.Name.Val, "_", ms.Entries[0].Type.Val),
				cat("\tmap_script ", ms.Entries[1].Type.Val, ", ", ms.Entries[1].Label.Val), "\t.byte 0"}
			lines := nonBlank(outputLines(x.Res["opt"].Out, false))
			return expectLines(x, "witness", "header", lines[:4], want)
		}
		return cs
	})
	env.RunJobs(len(cases), rep, func(w *Worker, i int) { w.RunCase(cases[i], rep) })
}
