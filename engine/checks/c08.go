package checks

import (
	"fmt"
	"strings"

	"verif/engine/interp"
)

type c08Shape struct {
	Entries []string `json:"entries"`
	Body    string   `json:"inline_body"`
}

var c08TextSeq int

// inline bodies used inside map scripts
func c08Body(kind string, atoms *AtomTable) []Stmt {
	if kind == "text" {
		c08TextSeq++
		c := &Cmd{Name: A(atoms.New(ClsPlainCmd, "cmd", "")), Args: [][]Tok{{L(fmt.Sprintf("\"Hello %d$\"", c08TextSeq))}, {A(atoms.New(ClsIdent, "arg", ""))}}}
		return []Stmt{c, &Cmd{Name: A(atoms.New(ClsPlainCmd, "cmd", ""))}}
	}
	if kind == "moves" {
		c08TextSeq++
		c := &Cmd{Name: A(atoms.New(ClsPlainCmd, "cmd", "")), Args: [][]Tok{{A(atoms.New(ClsIdent, "arg", ""))}, {L(fmt.Sprintf("moves(hello_step_%d * 2)", c08TextSeq))}}}
		return []Stmt{&Cmd{Name: A(atoms.New(ClsPlainCmd, "cmd", ""))}, c}
	}
	cmd := func() *Cmd { return &Cmd{Name: A(atoms.New(ClsPlainCmd, "cmd", ""))} }
	flag := func() *Expr { return LeafFlag(atoms.New(ClsIdent, "flag", "")) }
	switch kind {
	case "goto":
		// the whole body is one jump to a label outside the file
		return []Stmt{&Cmd{Name: L("goto"), Args: [][]Tok{{A(atoms.New(ClsUserName, "ext", "names"))}}}}
	case "cmd":
		return []Stmt{cmd()}
	case "end":
		return []Stmt{cmd(), &Cmd{Name: L("end")}}
	case "if":
		return []Stmt{&If{Conds: []*Expr{flag()}, Bodies: [][]Stmt{{cmd()}}, Else: []Stmt{&Cmd{Name: L("end")}}, HasElse: true}, cmd()}
	case "while":
		return []Stmt{&While{Cond: flag(), Body: []Stmt{cmd(), &If{Conds: []*Expr{flag()}, Bodies: [][]Stmt{{&Break{}}}}}}, cmd()}
	case "empty":
		return nil
	}
	panic("c08 body " + kind)
}

func c08Case(entryKinds []string, bodyKind string) *Case {
	atoms := &AtomTable{Coded: true}
	mname := atoms.New(ClsUserName, "map", "names")
	ms := &MapScriptsTop{Name: mname}
	type inlineScript struct {
		name func() interp.Value // expected by the naming convention (used only as a fallback)
		body []Stmt
		got  interp.Value // the label the header / table row actually carries
	}
	var inlines []*inlineScript
	for _, k := range entryKinds {
		ty := atoms.New(ClsIdent, "mstype", "mstypes")
		e := &MapEntry{Type: ty}
		switch {
		case k == "plain":
			e.Kind, e.Label = "plain", atoms.New(ClsIdent, "target", "")
		case k == "inline":
			e.Kind, e.Body = "inline", c08Body(bodyKind, atoms)
			inlines = append(inlines, &inlineScript{name: func() interp.Value { return cat(mname.Val, "_", ty.Val) }, body: e.Body})
		case strings.HasPrefix(k, "table:"):
			e.Kind = "table"
			rowKinds := strings.Split(strings.TrimPrefix(k, "table:"), ",")
			if k == "table:" {
				rowKinds = nil // a table without rows
			}
			for i, rk := range rowKinds {
				r := &MapRow{Cond: []Tok{A(atoms.New(ClsIdent, "cond", ""))}, Value: []Tok{A(atoms.New(ClsNum, "val", ""))}}
				if rk == "p" {
					r.Label = atoms.New(ClsIdent, "target", "")
				} else {
					r.Body = c08Body(bodyKind, atoms)
					i := i
					inlines = append(inlines, &inlineScript{name: func() interp.Value { return cat(mname.Val, "_", ty.Val, fmt.Sprintf("_%d", i)) }, body: r.Body})
				}
				e.Rows = append(e.Rows, r)
			}
		}
		ms.Entries = append(ms.Entries, e)
	}
	prog := &Program{Atoms: atoms, Tops: []interface{}{ms}}
	cs := &Case{Name: fmt.Sprintf("c08/%v/%s", entryKinds, bodyKind), Prog: prog, Variants: optVariants, NonTrivial: len(entryKinds) > 0, Shape: c08Shape{Entries: entryKinds, Body: bodyKind}}
	var scripts []*Script
	for _, in := range inlines {
		in := in
		scripts = append(scripts, &Script{NameV: func() interp.Value {
			if in.got != nil {
				return in.got
			}
			return in.name()
		}, Body: in.body})
	}
	// inline text arguments appear as the owning inline script's hoisted label
	// ... and moves() arguments as its hoisted movement label
	type hoisted struct {
		owner  func() interp.Value
		arg    int
		suffix string
	}
	owner := map[*Cmd]hoisted{}
	for _, in := range inlines {
		in := in
		nm := func() interp.Value {
			if in.got != nil {
				return in.got
			}
			return in.name()
		}
		for _, st := range in.body {
			c, ok := st.(*Cmd)
			if !ok {
				continue
			}
			if len(c.Args) > 0 && len(c.Args[0]) == 1 && strings.HasPrefix(c.Args[0][0].Lit, "\"Hello ") {
				owner[c] = hoisted{nm, 0, "_Text_0"}
			}
			if len(c.Args) > 1 && len(c.Args[1]) == 1 && strings.HasPrefix(c.Args[1][0].Lit, "moves(") {
				owner[c] = hoisted{nm, 1, "_Movement_0"}
			}
		}
	}
	behaviour := bisimOracle("inline-script-behaviour", func(x *OracleCtx) []*Script { return scripts }, func(x *OracleCtx) RefOptions {
		return RefOptions{ArgValue: func(c *Cmd, i int) (interp.Value, bool) {
			if h, ok := owner[c]; ok && i == h.arg {
				return cat(h.owner(), h.suffix), true // the hoisted label's name is fixed by C06
			}
			return nil, false
		}}
	})
	cs.Oracle = func(x *OracleCtx) *Violation {
		for _, v := range x.Case.Variants {
			res := x.Res[v.Name]
			if res.Err.Panic != "" || res.Err.IsErr {
				return &Violation{Sub: "accept", Msg: "variant " + v.Name + " rejected: " + interp.ToString(res.Err.Msg) + res.Err.Panic}
			}
			// header: plain and inline entries in source order, then the tables
			// in source order, then '.byte 0'. The labels of inline scripts and
			// tables are whatever the compiler chose: they are read off the
			// header and must be defined exactly once further down.
			lines := nonBlank(outputLines(res.Out, false))
			type hdr struct {
				typ   interp.Value
				label interp.Value // nil: read it off
				set   func(l interp.Value)
			}
			var hs []hdr
			ii := 0
			inlineAt := map[*MapEntry]*inlineScript{}
			rowAt := map[*MapRow]*inlineScript{}
			for _, e := range ms.Entries {
				if e.Kind == "inline" {
					inlineAt[e] = inlines[ii]
					ii++
				}
				for _, r := range e.Rows {
					if r.Label == nil {
						rowAt[r] = inlines[ii]
						ii++
					}
				}
			}
			tableLabel := map[*MapEntry]interp.Value{}
			for _, e := range ms.Entries {
				e := e
				switch e.Kind {
				case "plain":
					hs = append(hs, hdr{typ: e.Type.Val, label: e.Label.Val})
				case "inline":
					hs = append(hs, hdr{typ: e.Type.Val, set: func(l interp.Value) { inlineAt[e].got = l }})
				}
			}
			for _, e := range ms.Entries {
				e := e
				if e.Kind == "table" {
					hs = append(hs, hdr{typ: e.Type.Val, set: func(l interp.Value) { tableLabel[e] = l }})
				}
			}
			if len(lines) < len(hs)+2 {
				return &Violation{Sub: "header", Msg: fmt.Sprintf("variant %s: output has %d lines, the header alone needs %d", v.Name, len(lines), len(hs)+2)}
			}
			if vv := expectLines(x, "header", "variant "+v.Name+": mapscripts label", lines[:1], []interp.Value{cat(mname.Val, "::")}); vv != nil {
				return vv
			}
			for i, h := range hs {
				rest, ok := trimPrefixLit(lines[1+i], "\tmap_script ")
				typ, lbl, ok2 := splitFirst(rest, ", ")
				if !ok || !ok2 || sameValue(x.C, typ, h.typ) != 1 {
					return &Violation{Sub: "header", Msg: fmt.Sprintf("variant %s: header line %d is %s, expected a map_script line for type %s (source order: plain and inline entries, then tables)", v.Name, i+1, interp.ToString(lines[1+i]), interp.ToString(h.typ))}
				}
				if h.label != nil {
					if sameValue(x.C, lbl, h.label) != 1 {
						return &Violation{Sub: "header", Msg: fmt.Sprintf("variant %s: header line %d refers to %s, expected %s", v.Name, i+1, interp.ToString(lbl), interp.ToString(h.label))}
					}
				} else {
					h.set(lbl)
				}
			}
			if vv := expectLines(x, "header", "variant "+v.Name+": header terminator", lines[1+len(hs):2+len(hs)], []interp.Value{"\t.byte 0"}); vv != nil {
				return vv
			}
			// tables
			for _, e := range ms.Entries {
				if e.Kind != "table" {
					continue
				}
				tl := tableLabel[e]
				sec, n := sectionAfterLabel(x, res.Out, tl)
				if n != 1 {
					return &Violation{Sub: "table", Msg: fmt.Sprintf("variant %s: table label %s is defined %d times", v.Name, interp.ToString(tl), n)}
				}
				if len(sec) != len(e.Rows)+1 {
					return &Violation{Sub: "table", Msg: fmt.Sprintf("variant %s: table %s has %d lines, expected %d rows and the terminator", v.Name, interp.ToString(tl), len(sec), len(e.Rows))}
				}
				for i, r := range e.Rows {
					rest, ok := trimPrefixLit(sec[i], "\tmap_script_2 ")
					cond, rest2, ok2 := splitFirst(rest, ", ")
					val, lbl, ok3 := splitFirst(rest2, ", ")
					if !ok || !ok2 || !ok3 || sameValue(x.C, cond, JoinToks(r.Cond)) != 1 || sameValue(x.C, val, JoinToks(r.Value)) != 1 {
						return &Violation{Sub: "table", Msg: fmt.Sprintf("variant %s: row %d of table %s is %s, expected var %s and value %s", v.Name, i+1, interp.ToString(tl), interp.ToString(sec[i]), interp.ToString(JoinToks(r.Cond)), interp.ToString(JoinToks(r.Value)))}
					}
					if r.Label != nil {
						if sameValue(x.C, lbl, r.Label.Val) != 1 {
							return &Violation{Sub: "table", Msg: fmt.Sprintf("variant %s: row %d refers to %s, expected %s", v.Name, i+1, interp.ToString(lbl), interp.ToString(r.Label.Val))}
						}
					} else {
						rowAt[r].got = lbl
					}
				}
				if vv := expectLines(x, "table", "variant "+v.Name+": table terminator", sec[len(e.Rows):], []interp.Value{"\t.2byte 0"}); vv != nil {
					return vv
				}
			}
			// every inline script is defined exactly once
			for _, h := range owner {
				if n := countLabelDefs(x.C, res.Out, cat(h.owner(), h.suffix)); n != 1 {
					return &Violation{Sub: "inline-script", Msg: fmt.Sprintf("variant %s: the hoisted label %s of an inline script is defined %d times", v.Name, interp.ToString(cat(h.owner(), h.suffix)), n)}
				}
			}
			for _, in := range inlines {
				if in.got == nil {
					return &Violation{Sub: "inline-script", Msg: "an inline script has no header / table entry"}
				}
				if n := countLabelDefs(x.C, res.Out, in.got); n != 1 {
					return &Violation{Sub: "inline-script", Msg: fmt.Sprintf("variant %s: inline script %s is defined %d times", v.Name, interp.ToString(in.got), n)}
				}
			}
			// the mapscripts label and every label are unique
			if n := countLabelDefs(x.C, res.Out, mname.Val); n != 1 {
				return &Violation{Sub: "header", Msg: fmt.Sprintf("variant %s: mapscripts label defined %d times", v.Name, n)}
			}
		}
		if len(scripts) > 0 {
			return behaviour(x)
		}
		return nil
	}
	return cs
}

func enumMapEntries(maxLen int, maxRows int) [][]string {
	kinds := []string{"plain", "inline"}
	for n := 1; n <= maxRows; n++ {
		for code := 0; code < 1<<n; code++ {
			var rs []string
			for i := 0; i < n; i++ {
				if code>>i&1 == 1 {
					rs = append(rs, "i")
				} else {
					rs = append(rs, "p")
				}
			}
			kinds = append(kinds, "table:"+strings.Join(rs, ","))
		}
	}
	return enumEntryLists(maxLen, kinds)
}

// c08TargetsInFileCase: plain entries and plain table rows whose targets are
// a script and a user label defined in the same file.
func c08TargetsInFileCase() *Case {
	atoms := &AtomTable{Coded: true}
	s1 := atoms.New(ClsUserName, "script", "names")
	s2 := atoms.New(ClsUserName, "script", "names")
	l1 := atoms.New(ClsUserName, "lbl", "names")
	m := atoms.New(ClsUserName, "map", "names")
	t1, t2, t3 := atoms.New(ClsIdent, "mstype", "mstypes"), atoms.New(ClsIdent, "mstype", "mstypes"), atoms.New(ClsIdent, "mstype", "mstypes")
	v1, v2 := atoms.New(ClsIdent, "cond", ""), atoms.New(ClsIdent, "cond", "")
	cmd := func() *Cmd { return &Cmd{Name: A(atoms.New(ClsPlainCmd, "cmd", ""))} }
	ms := &MapScriptsTop{Name: m, Entries: []*MapEntry{
		{Type: t1, Kind: "plain", Label: s2},
		{Type: t2, Kind: "plain", Label: l1},
		{Type: t3, Kind: "table", Rows: []*MapRow{
			{Cond: []Tok{A(v1)}, Value: []Tok{L("1")}, Label: l1},
			{Cond: []Tok{A(v2)}, Value: []Tok{L("2")}, Label: s2},
		}},
	}}
	prog := &Program{Atoms: atoms, Tops: []interface{}{
		&Script{Name: s1, Body: []Stmt{cmd(), &Label{Name: l1, Scope: "global"}, cmd()}},
		ms,
		&Script{Name: s2, Body: []Stmt{cmd()}},
	}}
	cs := &Case{Name: "c08/targets-defined-in-the-same-file", Prog: prog, Variants: optVariants, NonTrivial: true, Shape: c08Shape{Entries: []string{"plain->script", "plain->label", "table:p->label,p->script"}, Body: "n/a"}}
	cs.Oracle = func(x *OracleCtx) *Violation {
		for _, v := range x.Case.Variants {
			res := x.Res[v.Name]
			if res.Err.Panic != "" || res.Err.IsErr {
				return &Violation{Sub: "accept", Msg: "variant " + v.Name + ": a map script may point at a script or label of the same file, but the program was rejected: " + interp.ToString(res.Err.Msg) + res.Err.Panic}
			}
			hdr, n := sectionAfterLabel(x, res.Out, m.Val)
			if n != 1 || len(hdr) != 4 {
				return &Violation{Sub: "header", Msg: fmt.Sprintf("variant %s: the mapscripts label is defined %d times and followed by %d lines, expected 4", v.Name, n, len(hdr))}
			}
			rest, ok := trimPrefixLit(hdr[2], "\tmap_script ")
			_, tbl, ok2 := splitFirst(rest, ", ")
			if !ok || !ok2 {
				return &Violation{Sub: "header", Msg: "variant " + v.Name + ": third header line is " + interp.ToString(hdr[2])}
			}
			want := []interp.Value{cat("\tmap_script ", t1.Val, ", ", s2.Val), cat("\tmap_script ", t2.Val, ", ", l1.Val), cat("\tmap_script ", t3.Val, ", ", tbl), "\t.byte 0"}
			if vv := expectLines(x, "header", "variant "+v.Name+": header", hdr, want); vv != nil {
				return vv
			}
			rows, n := sectionAfterLabel(x, res.Out, tbl)
			if n != 1 {
				return &Violation{Sub: "table", Msg: fmt.Sprintf("variant %s: table label %s is defined %d times", v.Name, interp.ToString(tbl), n)}
			}
			wantRows := []interp.Value{cat("\tmap_script_2 ", v1.Val, ", 1, ", l1.Val), cat("\tmap_script_2 ", v2.Val, ", 2, ", s2.Val), "\t.2byte 0"}
			if vv := expectLines(x, "table", "variant "+v.Name+": table", rows, wantRows); vv != nil {
				return vv
			}
			for _, nm := range []interp.Value{s1.Val, s2.Val, l1.Val} {
				if k := countLabelDefs(x.C, res.Out, nm); k != 1 {
					return &Violation{Sub: "inline-script", Msg: fmt.Sprintf("variant %s: %s is defined %d times", v.Name, interp.ToString(nm), k)}
				}
			}
		}
		return nil
	}
	return cs
}

// RunC08 is the check of property C08.
func RunC08(env *Env, rep *Report) {
	maxLen, maxRows := 3, 2
	if env.Tier == "thorough" {
		maxLen, maxRows = 4, 3
	}
	var cases []*Case
	bodies := []string{"cmd", "end", "if", "while", "empty", "text", "moves", "goto"}
	for i, l := range enumMapEntries(maxLen, maxRows) {
		if len(l) == maxLen && env.Tier == "thorough" && i%3 != 0 {
			continue
		}
		cases = append(cases, c08Case(l, bodies[i%len(bodies)]))
	}
	cases = append(cases, c08TargetsInFileCase())
	// tables without rows (label, then just the terminator)
	for i, l := range [][]string{{"table:"}, {"plain", "table:"}, {"table:", "inline"}, {"table:", "table:i"}, {"table:p", "table:"}} {
		cases = append(cases, c08Case(l, bodies[i%len(bodies)]))
	}
	for _, b := range bodies {
		cases = append(cases, c08Case([]string{"inline", "table:i,p", "inline"}, b), c08Case([]string{"table:i,i", "table:p,i"}, b))
	}
	// plain entries / plain rows whose target is spelled exactly like the
	// generated label of an inline entry / inline row of the same statement
	{
		fix := func(a *Atom, v string) { a.Fixed = &v }
		cs := c08Case([]string{"plain", "inline", "table:p,i"}, "cmd")
		ms := cs.Prog.Tops[0].(*MapScriptsTop)
		fix(ms.Name, "MyMap")
		fix(ms.Entries[0].Type, "TYPE_A")
		fix(ms.Entries[1].Type, "TYPE_B")
		fix(ms.Entries[2].Type, "TYPE_C")
		fix(ms.Entries[0].Label, "MyMap_TYPE_B")
		fix(ms.Entries[2].Rows[0].Label, "MyMap_TYPE_C_1")
		cs.Name = "c08/targets-spelled-like-generated-labels"
		cases = append(cases, cs)
	}
	// a table with 12 rows (row indices of two digits), inline and plain
	cases = append(cases, c08Case([]string{"table:i,i,i,i,i,i,i,i,i,i,i,i"}, "cmd"), c08Case([]string{"table:p,i,p,p,p,p,p,p,p,p,i,i"}, "cmd"))
	// operators in a row's var / value expression ('%' among them)
	for _, op := range []string{"%", "+", "*"} {
		cs := c08Case([]string{"table:i,p"}, "cmd")
		ms := cs.Prog.Tops[0].(*MapScriptsTop)
		rows := ms.Entries[0].Rows
		rows[0].Value = append(rows[0].Value, L(op), L("4"))
		rows[1].Cond = append(rows[1].Cond, L(op), L("2"))
		cs.Name = "c08/row-expression-operator/" + op
		cases = append(cases, cs)
	}
	rep.Technique = "symbolic execution of the real mapscripts parser and emitter (go/ssa) with symbolic names; rope assertions on header and tables + SMT-discharged bisimulation of every inline script against its body as a script"
	rep.Explanation = "Bounded symbolic verification, not a proof. Every mapscripts entry list up to the length bound over {plain, inline, table with up to the row bound of plain/inline rows} is compiled by symbolic execution of the real code with all type names, labels, table conditions and values symbolic, inline bodies rotating over {one command, command+end, if/else with end, while with conditional break, empty, a command with an inline text, a command with a moves() argument, a single goto}; plus one file whose plain entries and plain rows target a script and a (global) label defined in the same file. Asserted: the header label, the map_script lines of the plain and inline entries in source order followed by those of the tables in source order, '.byte 0'; for every table its label, its map_script_2 triples in source order and '.2byte 0'; every inline script (entry or table row) is defined exactly once under the label the header/row carries and is bisimilar (for every game state) to its body written as a script statement."
	rep.Bounds = map[string]interface{}{"max_entries": maxLen, "max_rows_per_table": maxRows, "inline_bodies": bodies, "cases": len(cases)}
	rep.Outside = []string{"longer entry lists / tables", "inline bodies beyond the listed kinds (inline text in inline map scripts is covered by C06, poryswitch by C12)", "two entries with the same type name"}
	rep.Assumptions = []string{"type names are pairwise distinct generic identifiers", "assembly semantics of DESIGN.md §4.1 for the inline scripts"}
	rep.Functions = []string{"parseMapscriptsStatement", "emitMapScriptStatement", "emitScriptStatement", "renderChunks"}
	rep.Match = func(k *KnownFinding, f *Finding) bool { return false }
	src, _ := cases[len(cases)/2].Prog.Render()
	rep.AddSample(map[string]interface{}{"case": cases[len(cases)/2].Name, "source_with_holes": src})
	runWitness(env, rep, "c08-witness-tables-first", func() *Case {
		cs := c08Case([]string{"table:p", "plain"}, "cmd")
		ms := cs.Prog.Tops[0].(*MapScriptsTop)
		cs.Oracle = func(x *OracleCtx) *Violation {
			// twin: expect the entries in plain source order (table first)
			want := []interp.Value{cat(ms.Name.Val, "::"),
				cat("\tmap_script ", ms.Entries[0].Type.Val, ", ", ms.Name.Val, "_", ms.Entries[0].Type.Val),
				cat("\tmap_script ", ms.Entries[1].Type.Val, ", ", ms.Entries[1].Label.Val), "\t.byte 0"}
			lines := nonBlank(outputLines(x.Res["opt"].Out, false))
			return expectLines(x, "witness", "header", lines[:4], want)
		}
		return cs
	})
	env.RunJobs(len(cases), rep, func(w *Worker, i int) { w.RunCase(cases[i], rep) })
}
