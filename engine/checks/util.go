package checks

import (
	"encoding/json"
	"fmt"
	"os"
)

func envInt(name string) int {
	v := os.Getenv(name)
	if v == "" {
		return 0
	}
	n := 0
	fmt.Sscanf(v, "%d", &n)
	return n
}

// runWitness runs a reachability twin: a case whose oracle is deliberately
// wrong must come back violated (DESIGN.md §5.3).
func runWitness(env *Env, rep *Report, name string, mk func() *Case) {
	tmp := NewReport(rep.Property, rep.Tier, rep.Seed)
	tmp.Known = nil
	cs := mk()
	cs.Name = "witness:" + cs.Name
	env.RunJobs(1, tmp, func(w *Worker, i int) { w.RunCase(cs, tmp) })
	for _, f := range tmp.fatal {
		rep.Fatal("witness " + name + ": " + f)
	}
	rep.Witness(name, len(tmp.Violations) > 0)
	if len(tmp.Violations) == 0 {
		fmt.Fprintf(os.Stderr, "witness %s: violations=0 unconfirmed=%d inconclusive=%v paths=%+v notes=%v\n", name, len(tmp.Unconfirmed), tmp.InconViol, tmp.Paths, tmp.Notes)
		for _, u := range tmp.Unconfirmed {
			fmt.Fprintf(os.Stderr, "  unconfirmed: %s %s %v sources=%v outputs=%v\n", u.Sub, u.Msg, u.Detail, u.Sources, u.Outputs)
		}
	}
	rep.mu.Lock()
	rep.Paths.Add(tmp.Paths)
	rep.solverQ += tmp.solverQ
	rep.solverSat += tmp.solverSat
	rep.solverUnsat += tmp.solverUnsat
	rep.solverUnk += tmp.solverUnk
	rep.solverTime += tmp.solverTime
	rep.mu.Unlock()
}

// Checks is the registry of property checks.
var Checks = map[string]func(env *Env, rep *Report){
	"C01": RunC01,
	"C02": RunC02,
	"C03": RunC03,
	"C04": RunC04,
	"C05": RunC05,
	"C10": RunC10,
	"C11": RunC11,
	"C12": RunC12,
	"C13": RunC13,
	"C14": RunC14,
	"C15": RunC15,
	"C09": RunC09,
	"C08": RunC08,
	"C16": RunC16,
	"C17": RunC17,
	"C18": RunC18,
	"C19": RunC19,
	"C20": RunC20,
	"C06": RunC06,
	"C07": RunC07,
}

func jsonUnmarshal(b []byte, v interface{}) { _ = json.Unmarshal(b, v) }

func jsonMarshal(v interface{}) ([]byte, error)        { return json.Marshal(v) }
func jsonUnmarshalErr(b []byte, v interface{}) error { return json.Unmarshal(b, v) }

func writeJSON(path string, v interface{}) {
	b, _ := json.Marshal(v)
	os.WriteFile(path, b, 0o644)
}
