package checks

import (
	"fmt"
	"strings"
	"time"

	"verif/engine/interp"
)

// c07Text is a text skeleton: words and the joints between them.
type c07Text struct {
	Words  []string `json:"words"`
	Joints []string `json:"joints"` // between word i and i+1: " ", "  ", `\n`, ` \n `, `\l`, `\p`, `\N`, "\n" (a raw newline)
	HasDefault bool `json:"default_width_entry"`
	FontKind   string `json:"font"` // "table" | "TEST" | "unknown"
	Trail      string `json:"trailing,omitempty"` // blanks / a raw newline after the last word
}

func (t *c07Text) source() string {
	var sb strings.Builder
	for i, w := range t.Words {
		sb.WriteString(w)
		if i < len(t.Joints) {
			sb.WriteString(t.Joints[i])
		}
	}
	sb.WriteString(t.Trail)
	return sb.String()
}

func jointCode(j string) string {
	s := strings.TrimSpace(strings.ReplaceAll(j, "\n", " "))
	return s // "" for spaces, else the code
}

// symbols whose widths the font table defines
func c07Symbols(words []string) []string {
	seen := map[string]bool{" ": true}
	res := []string{" "}
	for _, w := range words {
		rest := w
		for len(rest) > 0 {
			if rest[0] == '{' {
				if j := strings.IndexByte(rest, '}'); j > 0 {
					code := rest[:j+1]
					if !seen[code] {
						seen[code] = true
						res = append(res, code)
					}
					rest = rest[j+1:]
					continue
				}
			}
			r := []rune(rest)[0]
			s := string(r)
			if !seen[s] {
				seen[s] = true
				res = append(res, s)
			}
			rest = rest[len(s):]
		}
	}
	return res
}

type c07Finding struct {
	Text   *c07Text          `json:"text"`
	Source string            `json:"source"`
	Model  map[string]string `json:"model"`
	Output string            `json:"output"`
	Msg    string            `json:"message"`
}

// c07Run explores one text skeleton.
func c07Run(w *Worker, t *c07Text, rep *Report, bad *[]*Finding) {
	src := t.source()
	syms := c07Symbols(t.Words)
	fn := w.E.Func(HzPkg, "Format")
	fontID := "thefont"
	if t.FontKind == "TEST" {
		fontID = "TEST"
	}
	two := t.FontKind == "two-fonts"
	if two {
		fn = w.E.Func(HzPkg, "Format2")
		fontID = "f2"
	}
	stopped := false
	body := func(c *interp.Ctx) {
		wv := map[string]interp.SymInt{}
		var keys, widths []interp.Value
		var widths1 []interp.Value
		var defaultW interp.SymInt
		for i, s := range syms {
			v := c.NewInt(fmt.Sprintf("w%d", i))
			c.Assume(fmt.Sprintf("(and (>= %s 0) (<= %s 100000))", v.T, v.T))
			wv[s] = v
			if t.HasDefault && i > 0 && i == len(syms)-1 {
				// the last symbol has no entry of its own: it falls back to "default"
				continue
			}
			keys = append(keys, s)
			widths = append(widths, v)
			if two {
				v1 := c.NewInt(fmt.Sprintf("v%d", i))
				c.Assume(fmt.Sprintf("(and (>= %s 0) (<= %s 100000))", v1.T, v1.T))
				widths1 = append(widths1, v1)
			}
		}
		if t.HasDefault {
			defaultW = wv[syms[len(syms)-1]]
			keys = append(keys, "default")
			widths = append(widths, defaultW)
		}
		maxW := c.NewInt("maxWidth")
		ov := c.NewInt("overlap")
		nl := c.NewInt("numLines")
		c.Assume(fmt.Sprintf("(and (>= %s (- 5)) (<= %s 1000000) (>= %s 0) (<= %s 100000) (>= %s 1) (<= %s 4))", maxW.T, maxW.T, ov.T, ov.T, nl.T, nl.T))
		var res interp.Value
		if two {
			res = w.E.Call(c, fn, src, interp.MkSlice(keys...), interp.MkSlice(widths1...), interp.MkSlice(widths...), maxW, ov, nl)
		} else {
			res = w.E.Call(c, fn, src, interp.MkSlice(keys...), interp.MkSlice(widths...), maxW, ov, nl, fontID, t.FontKind != "unknown")
		}
		tup := interp.Tuple(res)
		c.User["done"] = true
		if stopped {
			return
		}
		var msg, q string
		width := func(word string) string {
			if t.FontKind == "TEST" {
				n := 0
				rest := word
				for len(rest) > 0 {
					if rest[0] == '{' {
						if j := strings.IndexByte(rest, '}'); j > 0 {
							n += 100
							rest = rest[j+1:]
							continue
						}
					}
					r := []rune(rest)[0]
					n += 10
					rest = rest[len(string(r)):]
				}
				return fmt.Sprint(n)
			}
			var ts []string
			rest := word
			for len(rest) > 0 {
				if rest[0] == '{' {
					if j := strings.IndexByte(rest, '}'); j > 0 {
						ts = append(ts, wv[rest[:j+1]].T)
						rest = rest[j+1:]
						continue
					}
				}
				r := []rune(rest)[0]
				ts = append(ts, wv[string(r)].T)
				rest = rest[len(string(r)):]
			}
			if len(ts) == 1 {
				return ts[0]
			}
			return "(+ " + strings.Join(ts, " ") + ")"
		}
		space := wv[" "].T
		if t.FontKind == "TEST" {
			space = "10"
		}
		if t.FontKind == "unknown" {
			if interp.IsNilIface(tup[1]) {
				msg = "an unknown font id was accepted"
			}
		} else if !interp.IsNilIface(tup[1]) {
			msg = "a valid font id was rejected"
		} else {
			out, ok := tup[0].(string)
			if !ok {
				panic(interp.Inconclusive{Msg: "format output is symbolic"})
			}
			msg, q = c07Check(c, t, out, width, space, maxW.T, ov.T, nl.T)
			c.User["out"] = out
		}
		if msg != "" {
			stopped = true
			vars := append([]string{}, c.IntVars...)
			if q == "" {
				q = "true"
			}
			r, model := c.CheckModel(q, vars)
			f := &Finding{Property: "C07", Case: "c07/" + src, Sub: "format", Msg: msg, Sources: map[string]string{"text": src}, Model: model, Shape: t}
			if r != interp.Sat {
				rep.inconclusiveViolation(&Case{Name: f.Case}, &Violation{Sub: "format", Msg: msg}, "no model")
				return
			}
			// replay natively with the model's font table and parameters, on a
			// process that formatted nothing before
			w.N.Fresh()
			nout, ok := c07Native(w, t, syms, model, src, fontID)
			f.Outputs = map[string]string{"native": nout}
			if !ok {
				rep.unconfirmed(f)
				return
			}
			// re-run the oracle concretely on the native output
			conc := func(word string) string {
				n, _ := interp.EvalInt(width(word), model)
				return fmt.Sprint(n)
			}
			get := func(term string) string { n, _ := interp.EvalInt(term, model); return interp.IntLit(n) }
			if t.FontKind != "unknown" {
				m2, _ := c07Check(nil, t, nout, conc, get(space), get(maxW.T), get(ov.T), get(nl.T))
				if m2 == "" {
					rep.unconfirmed(f)
					return
				}
				f.ReplayMsg = m2
			}
			f.Confirmed = true
			rep.violation(f)
		}
	}
	done := func(c *interp.Ctx, r interp.PathResult) {
		if r.Outcome != interp.PathDone || stopped {
			return
		}
		out, ok := c.User["out"].(string)
		if !ok {
			rep.crossSkipped()
			return
		}
		// engine vs native on one model of the path
		res, model := c.CheckModel("true", c.IntVars)
		if res != interp.Sat {
			rep.crossSkipped()
			return
		}
		nout, ok := c07Native(w, t, syms, model, src, fontID)
		if !ok {
			rep.crossSkipped()
			return
		}
		if nout != out {
			w.N.Fresh()
			if fout, ok := c07Native(w, t, syms, model, src, fontID); ok && fout == out {
				rep.historyDependent(fmt.Sprintf("format(%q): the native build answers %q in a fresh process and %q after other calls", src, fout, nout))
				return
			}
			rep.engineMismatch(fmt.Sprintf("format(%q): engine %q native %q model %v", src, out, nout, model))
			return
		}
		rep.crossOK()
	}
	st, hit := w.E.Explore(w.S, 4096, body, done)
	rep.addExplore(nil, st, hit)
}

func c07Native(w *Worker, t *c07Text, syms []string, model map[string]string, src, fontID string) (string, bool) {
	widths := map[string]int{}
	get := func(prefix string) (int64, bool) {
		for k, v := range model {
			if strings.HasPrefix(k, "n_"+prefix+"_") {
				n, ok := interp.ParseIntValue(v)
				return n, ok
			}
		}
		return 0, false
	}
	for i, s := range syms {
		n, ok := get(fmt.Sprintf("w%d", i))
		if !ok {
			return "", false
		}
		key := s
		if t.HasDefault && i > 0 && i == len(syms)-1 {
			key = "default"
		}
		widths[key] = int(n)
	}
	mw, ok1 := get("maxWidth")
	ov, ok2 := get("overlap")
	nl, ok3 := get("numLines")
	if !ok1 || !ok2 || !ok3 {
		return "", false
	}
	fonts := map[string]interface{}{}
	if t.FontKind != "unknown" {
		fonts[fontID] = map[string]interface{}{"widths": widths}
	}
	if t.FontKind == "two-fonts" {
		w1 := map[string]int{}
		for i, s := range syms {
			if n, ok := get(fmt.Sprintf("v%d", i)); ok {
				w1[s] = int(n)
			}
		}
		fonts["f1"] = map[string]interface{}{"widths": w1}
		req := NativeReq{Op: "format2", Src: src, Font: map[string]interface{}{"defaultFontId": "f1", "fonts": fonts}, MaxWidth: int(mw), Overlap: int(ov), NumLines: int(nl)}
		resp, timedOut, err := w.N.DoPatient(req, 10*time.Second)
		if err != nil || timedOut || resp.Panic != "" || resp.IsErr {
			return resp.Panic + resp.Err, false
		}
		return resp.Out, true
	}
	req := NativeReq{Op: "format", Src: src, Font: map[string]interface{}{"defaultFontId": fontID, "fonts": fonts}, FontID: fontID, MaxWidth: int(mw), Overlap: int(ov), NumLines: int(nl)}
	resp, timedOut, err := w.N.DoPatient(req, 10*time.Second)
	if err != nil || timedOut || resp.Panic != "" {
		return resp.Panic, false
	}
	if resp.IsErr {
		return "error: " + resp.Err, t.FontKind == "unknown"
	}
	return resp.Out, true
}

// c07Check applies readings (a)-(d). c == nil: concrete mode (all terms are
// numerals); the inequalities are then evaluated by a throw-away solver-free
// comparison of numerals.
func c07Check(c *interp.Ctx, t *c07Text, out string, width func(string) string, space, maxW, ov, nl string) (string, string) {
	valid := func(term string) (bool, string) {
		if c == nil {
			return evalGround(term), ""
		}
		switch c.Valid(term) {
		case interp.Unsat:
			return true, ""
		case interp.Unknown:
			panic(interp.Inconclusive{Msg: "solver unknown in width assertion"})
		}
		return false, interp.Not(term)
	}
	// parse the output: lines, each (except possibly the last) ending with a break code
	type oline struct {
		words []string
		code  string
	}
	var lines []oline
	raw := strings.Split(out, "\n")
	for i, l := range raw {
		ol := oline{}
		for _, code := range []string{`\n`, `\l`, `\p`} {
			if strings.HasSuffix(l, code) {
				ol.code = code
				l = strings.TrimSuffix(l, code)
				break
			}
		}
		if ol.code == "" && i != len(raw)-1 {
			return fmt.Sprintf("output line %d %q does not end with a break code", i+1, raw[i]), ""
		}
		if l != "" {
			ol.words = strings.Split(l, " ")
		}
		for _, wd := range ol.words {
			if wd == "" {
				return fmt.Sprintf("output line %d %q has doubled or leading/trailing spaces", i+1, raw[i]), ""
			}
		}
		lines = append(lines, ol)
	}
	if len(lines) > 0 && lines[len(lines)-1].code == "" && len(lines[len(lines)-1].words) == 0 {
		lines = lines[:len(lines)-1]
	}
	// (a) words in order
	var got []string
	for _, l := range lines {
		got = append(got, l.words...)
	}
	if strings.Join(got, "|") != strings.Join(t.Words, "|") {
		return fmt.Sprintf("words changed: input %q, output %q", t.Words, got), ""
	}
	// walk words with their joints
	wi := 0
	row := "0" // a term: number of line breaks since the paragraph start
	rowN := 0
	rowSym := false
	_ = rowSym
	for li, l := range lines {
		if len(l.words) == 0 {
			return fmt.Sprintf("output line %d is empty", li+1), ""
		}
		first := wi
		wi += len(l.words)
		last := wi - 1
		// joints inside the line must be spaces in the input
		for k := first; k < last; k++ {
			if jointCode(t.Joints[k]) != "" {
				return fmt.Sprintf("the explicit break %q between %q and %q was lost", jointCode(t.Joints[k]), t.Words[k], t.Words[k+1]), ""
			}
		}
		hasNext := last < len(t.Words)-1
		if !hasNext {
			if l.code != "" {
				return "a break code was appended after the last word", ""
			}
			// (b) for the last line: no overlap (nothing follows)
			if len(l.words) >= 2 {
				lw := lineWidth(l.words, width, space)
				if ok, q := valid(fmt.Sprintf("(<= %s %s)", lw, maxW)); !ok {
					return fmt.Sprintf("last line %q is wider than maxLineLength", strings.Join(l.words, " ")), q
				}
			}
			break
		}
		jc := jointCode(t.Joints[last])
		lastRow := fmt.Sprintf("(>= %d (- %s 1))", rowN, nl) // row >= numLines-1
		// expected break code
		want := jc
		inserted := jc == ""
		if inserted || jc == `\N` {
			// \n while row < numLines-1, \l after
			// whether this row is the last of the box: a fork of the oracle when
			// the code itself did not decide it on this path
			isLast := false
			if c == nil {
				isLast = evalGround(lastRow)
			} else {
				isLast = c.Decide(lastRow)
			}
			if isLast {
				want = `\l`
			} else {
				want = `\n`
			}
		}
		if l.code != want {
			return fmt.Sprintf("line %q ends with %s, expected %s (row %d of the paragraph)", strings.Join(l.words, " "), l.code, want, rowN), ""
		}
		// (b) width incl. overlap on prompt lines
		if len(l.words) >= 2 {
			lw := lineWidth(l.words, width, space)
			prompt := interp.Or(lastRow, boolLit(jc == `\p`))
			cond := fmt.Sprintf("(<= (+ %s (ite %s %s 0)) %s)", lw, prompt, ov, maxW)
			if ok, q := valid(cond); !ok {
				return fmt.Sprintf("line %q (row %d, followed by %q) does not fit the box including the cursor overlap where the prompt is shown", strings.Join(l.words, " "), rowN, want), q
			}
		}
		// (c) an inserted break means the next word did not fit
		if inserted {
			nextWord := t.Words[last+1]
			lw := lineWidth(l.words, width, space)
			nextHasNext := last+1 < len(t.Words)-1
			nextIsP := nextHasNext && jointCode(t.Joints[last+1]) == `\p`
			promptN := interp.And(boolLit(nextHasNext), interp.Or(lastRow, boolLit(nextIsP)))
			cond := fmt.Sprintf("(> (+ %s %s %s (ite %s %s 0)) %s)", lw, space, width(nextWord), promptN, ov, maxW)
			if ok, q := valid(cond); !ok {
				return fmt.Sprintf("%q was moved to a new line although it fits after %q", nextWord, strings.Join(l.words, " ")), q
			}
		}
		if want == `\p` {
			rowN = 0
		} else {
			rowN++
		}
	}
	_ = row
	return "", ""
}

func boolLit(b bool) string {
	if b {
		return "true"
	}
	return "false"
}

func lineWidth(words []string, width func(string) string, space string) string {
	var ts []string
	for i, w := range words {
		if i > 0 {
			ts = append(ts, space)
		}
		ts = append(ts, width(w))
	}
	if len(ts) == 1 {
		return ts[0]
	}
	return "(+ " + strings.Join(ts, " ") + ")"
}

// evalGround evaluates a ground boolean term over integer numerals.
func evalGround(term string) bool {
	v, ok := groundEval(term)
	if !ok {
		panic(interp.EngineError{Msg: "cannot evaluate ground term " + term})
	}
	return v != 0
}

func groundEval(term string) (int64, bool) {
	s := interp.ParseSexprPublic(term)
	var ev func(s *interp.Sexpr) (int64, bool)
	ev = func(s *interp.Sexpr) (int64, bool) {
		if !s.IsList {
			switch s.Atom {
			case "true":
				return 1, true
			case "false":
				return 0, true
			}
			var n int64
			if _, err := fmt.Sscanf(s.Atom, "%d", &n); err != nil {
				return 0, false
			}
			return n, true
		}
		op := s.List[0].Atom
		var as []int64
		for _, a := range s.List[1:] {
			v, ok := ev(a)
			if !ok {
				return 0, false
			}
			as = append(as, v)
		}
		b := func(x bool) (int64, bool) {
			if x {
				return 1, true
			}
			return 0, true
		}
		switch op {
		case "+":
			var r int64
			for _, a := range as {
				r += a
			}
			return r, true
		case "-":
			if len(as) == 1 {
				return -as[0], true
			}
			return as[0] - as[1], true
		case "<=":
			return b(as[0] <= as[1])
		case "<":
			return b(as[0] < as[1])
		case ">=":
			return b(as[0] >= as[1])
		case ">":
			return b(as[0] > as[1])
		case "=":
			return b(as[0] == as[1])
		case "not":
			return b(as[0] == 0)
		case "and":
			for _, a := range as {
				if a == 0 {
					return 0, true
				}
			}
			return 1, true
		case "or":
			for _, a := range as {
				if a != 0 {
					return 1, true
				}
			}
			return 0, true
		case "ite":
			if as[0] != 0 {
				return as[1], true
			}
			return as[2], true
		}
		return 0, false
	}
	return ev(s)
}

func c07Texts(maxWords int, words, joints []string) []*c07Text {
	var res []*c07Text
	var rec func(ws, js []string)
	rec = func(ws, js []string) {
		if len(ws) >= 1 {
			res = append(res, &c07Text{Words: append([]string{}, ws...), Joints: append([]string{}, js...)})
		}
		if len(ws) == maxWords {
			return
		}
		for _, w := range words {
			if len(ws) == 0 {
				rec(append(ws, w), js)
				continue
			}
			for _, j := range joints {
				rec(append(ws, w), append(js, j))
			}
		}
	}
	rec(nil, nil)
	return res
}

// RunC07 is the check of property C07.
func RunC07(env *Env, rep *Report) {
	words := []string{"a", "bb", "{P}a"}
	joints := []string{" ", "  ", `\n`, ` \n `, `\l`, `\p`, `\N`, "\n"}
	maxWords := 3
	var texts []*c07Text
	texts = append(texts, c07Texts(maxWords, words, joints)...)
	extraWords, extraJoints, extraMax := []string{"a", "bb"}, []string{" ", `\p`, `\N`}, 4
	if env.Tier == "thorough" {
		extraWords, extraJoints, extraMax = []string{"a", "bb", "é{P}"}, []string{" ", `\n`, `\p`, `\N`}, 5
	}
	for _, t := range c07Texts(extraMax, extraWords, extraJoints) {
		if len(t.Words) > maxWords {
			texts = append(texts, t)
		}
	}
	// multi-byte letters, default width entry, the fixed-width TEST font, unknown font
	for _, t := range c07Texts(3, []string{"é", "aé"}, []string{" ", `\N`}) {
		t.HasDefault = true
		texts = append(texts, t)
	}
	for _, t := range c07Texts(3, []string{"ab", "{P}"}, []string{" ", `\p`}) {
		c := *t
		c.FontKind = "TEST"
		texts = append(texts, &c)
	}
	texts = append(texts, &c07Text{Words: []string{"a", "bb"}, Joints: []string{" "}, FontKind: "unknown"})
	// trailing blanks / a trailing raw newline: nothing follows the last word,
	// so no prompt is shown after it
	for _, t := range c07Texts(3, []string{"a", "bb"}, []string{" ", `\N`}) {
		for _, tr := range []string{" ", "  ", "\n"} {
			c := *t
			c.Trail = tr
			texts = append(texts, &c)
		}
	}
	// an unmatched '}' is an ordinary character
	for _, t := range c07Texts(3, []string{"}", "a", "}b"}, []string{" ", `\p`}) {
		hasBrace := false
		for _, w := range t.Words {
			if strings.Contains(w, "}") {
				hasBrace = true
			}
		}
		if hasBrace {
			texts = append(texts, t)
		}
	}
	// only ' ' (and the break codes) separates words: other Unicode
	// white space (no-break space, tab, ideographic space) is part of its word
	for _, t := range c07Texts(3, []string{"a\u00a0b", "a\tb", "\u3000a", "a"}, []string{" ", `\p`}) {
		odd := false
		for _, w := range t.Words {
			if len(w) > 1 {
				odd = true
			}
		}
		if odd {
			t.HasDefault = true
			texts = append(texts, t)
		}
	}
	// one FontConfig, two fonts: the same text (with control codes) formatted
	// under font f1 first must not influence its formatting under font f2
	for _, t := range c07Texts(3, []string{"{P}a", "b", "{P}{Q}"}, []string{" ", `\N`}) {
		c := *t
		c.FontKind = "two-fonts"
		texts = append(texts, &c)
	}
	for _, t := range texts {
		if t.FontKind == "" {
			t.FontKind = "table"
		}
	}
	rep.Technique = "symbolic execution of the real FormatText (go/ssa) with a symbolic font table, box width, cursor overlap and numLines; every layout is a path with a linear-arithmetic path condition; fit / did-not-fit assertions are validity queries over the integers (z3 LIA)"
	rep.Explanation = "Bounded symbolic verification, not a proof. For every text skeleton within the bound (words over a small alphabet incl. a multi-byte letter and a {control code}, joined by one or two spaces, a raw newline, or an explicit \\n \\l \\p \\N with or without surrounding spaces) the real FormatText is executed symbolically with the width of every character, of the space and of the control code, the default-width entry, maxLineLength, cursorOverlapWidth>=0 and numLines in 1..4 all symbolic integers. Each feasible path is one layout; its path condition is the set of fit/overflow comparisons the code made. Asserted per path, as validity queries under the path condition: (a) words and explicit breaks are preserved in order, single spaces inside lines; (b) every line of two or more words fits maxLineLength including the cursor overlap when the continue-prompt is shown (a line followed by more text that is on the last row of the box or ends at \\p); (c) at every inserted break the next word did not fit (same overlap rule); (d) inserted breaks and \\N are \\n before the last row and \\l on it, \\p restarts the rows. A sat answer yields a concrete font table and box for which the assertion fails; it is replayed on the native FormatText with the same oracle."
	rep.Bounds = map[string]interface{}{"texts": len(texts), "word_alphabet": words, "joints": joints, "max_words": maxWords, "longer_texts": map[string]interface{}{"max_words": extraMax, "words": extraWords, "joints": extraJoints}, "numLines": "1..4", "widths": "0..100000"}
	rep.Outside = []string{"texts outside the skeleton alphabet / longer texts", "leading separators, trailing break codes and several break codes in a row"}
	rep.Explanation += " Second harness: format(text, params) with positional, named and mixed parameters (numbers symbolic, CLI default font/line length and both fonts' config entries symbolic) is parsed by symbolic execution of the real parseFormatStringOperator with FormatText intercepted; its five arguments must equal, for all integer values, the documented precedence (explicit > CLI > font config; values <= 0 fall back)."
	rep.Assumptions = []string{"prompt-line reading of DESIGN.md §6 C07 (the code's own comment at formattext.go:98)", "widths are non-negative"}
	rep.Functions = []string{"FormatText", "getNextWord", "isLineBreak", "isAutoLineBreak", "isParagraphBreak", "shouldUseLineFeed", "getWordPixelWidth", "processControlCodes", "getRunePixelWidth", "getControlCodePixelWidth", "getWidth", "isFontIDValid", "parseFormatStringOperator"}
	rep.Match = func(k *KnownFinding, f *Finding) bool { return false }
	rep.AddSample(map[string]interface{}{"text": texts[len(texts)/2].source(), "symbolic": "character widths, space width, maxLineLength, cursorOverlapWidth, numLines"})
	var bad []*Finding
	// reachability witness: a wrong claim ("no line break is ever inserted") must be refuted
	wit := NewReport("C07", env.Tier, env.Seed)
	wit.Known = nil
	env.RunJobs(1, wit, func(w *Worker, i int) {
		t := &c07Text{Words: []string{"a", "bb"}, Joints: []string{" "}, FontKind: "table"}
		found := false
		fn := w.E.Func(HzPkg, "Format")
		w.E.Explore(w.S, 64, func(c *interp.Ctx) {
			wa, wb, ws, mw := c.NewInt("wa"), c.NewInt("wb"), c.NewInt("ws"), c.NewInt("mw")
			for _, v := range []interp.SymInt{wa, wb, ws} {
				c.Assume(fmt.Sprintf("(>= %s 0)", v.T))
			}
			res := w.E.Call(c, fn, t.source(), interp.MkSlice("a", "b", " "), interp.MkSlice(wa, wb, ws), mw, 0, 2, "thefont", true)
			if out, ok := interp.Tuple(res)[0].(string); ok && strings.Contains(out, "\n") {
				found = true
			}
		}, nil)
		rep.Witness("c07-witness-break-inserted", found)
	})
	plumb := c07PlumbCases()
	rep.Bounds["format_parameter_cases"] = len(plumb)
	env.RunJobs(len(plumb), rep, func(w *Worker, i int) {
		rep.mu.Lock()
		rep.Cases++
		rep.NonTrivial++
		rep.mu.Unlock()
		c07PlumbRun(w, plumb[i], rep)
	})
	env.RunJobs(len(texts), rep, func(w *Worker, i int) {
		rep.mu.Lock()
		rep.Cases++
		if len(texts[i].Words) > 1 {
			rep.NonTrivial++
		}
		rep.mu.Unlock()
		c07Run(w, texts[i], rep, &bad)
	})
}

// ---- second harness: the parameter plumbing of format(...) in the parser

type c07Param struct {
	Name  string `json:"name"` // font | max | lines | overlap
	Named bool   `json:"named"`
}

type c07PlumbCase struct {
	Params  []c07Param `json:"params"`
	CLIFont bool       `json:"cli_font"`
	// Before: two earlier format() calls in the same file give every parameter
	// explicitly for each of the two fonts; they must not influence the call
	// under test
	Before bool `json:"earlier_explicit_calls"`
	// Hex: the numeric parameters are written as hexadecimal literals
	// (maxLineLength 0x10, numLines 0x3, cursorOverlapWidth 0x2)
	Hex bool `json:"hex_literals"`
}

func (pc *c07PlumbCase) String() string {
	var ps []string
	for _, p := range pc.Params {
		if p.Named {
			ps = append(ps, p.Name+"=")
		} else {
			ps = append(ps, p.Name)
		}
	}
	s := fmt.Sprintf("format(text%s) cliFont=%v", func() string {
		if len(ps) == 0 {
			return ""
		}
		return ", " + strings.Join(ps, ", ")
	}(), pc.CLIFont)
	if pc.Before {
		s += " after explicit calls"
	}
	if pc.Hex {
		s += " hex"
	}
	return s
}

const formatTextFn = "(*github.com/huderlem/poryscript/parser.FontConfig).FormatText"

var namedParam = map[string]string{"font": "fontId", "max": "maxLineLength", "lines": "numLines", "overlap": "cursorOverlapWidth"}

const c07PlumbText = "a a a a a a a a a a a a a a a a"

func c07PlumbRun(w *Worker, pc *c07PlumbCase, rep *Report) {
	fn := w.E.Func(HzPkg, "CompileFormat")
	stopped := false
	body := func(c *interp.Ctx) {
		atoms := &AtomTable{Coded: true}
		val := map[string]*Atom{}
		hexVal := map[string]int{"max": 0x10, "lines": 0x3, "overlap": 0x2}
		var parts []string
		explicitFont := ""
		for _, p := range pc.Params {
			var spelled string
			if p.Name == "font" {
				explicitFont = "font2"
				spelled = "\"font2\""
			} else if pc.Hex {
				// a literal: the reference uses its value through a pinned atom
				a := atoms.New(ClsNum, p.Name, "")
				val[p.Name] = a
				spelled = fmt.Sprintf("0x%X", hexVal[p.Name])
			} else {
				a := atoms.New(ClsNum, p.Name, "")
				val[p.Name] = a
				spelled = a.Placeholder()
			}
			if p.Named {
				spelled = namedParam[p.Name] + "=" + spelled
			}
			parts = append(parts, spelled)
		}
		atoms.Declare(c, nil)
		src := ""
		if pc.Before {
			src = "text T0 {\n  format(\"b b\", fontId=\"font1\", maxLineLength=7, numLines=5, cursorOverlapWidth=3)\n}\ntext T1 {\n  format(\"b b b\", \"font2\", 9, numLines=4, cursorOverlapWidth=2)\n}\n"
		}
		src += "text T {\n  format(\"" + c07PlumbText + "\""
		if len(parts) > 0 {
			src += ", " + strings.Join(parts, ", ")
		}
		src += ")\n}\n"
		cliMax := c.NewInt("climax")
		var f1, f2 [3]interp.SymInt
		for i := range f1 {
			f1[i], f2[i] = c.NewInt(fmt.Sprintf("f1_%d", i)), c.NewInt(fmt.Sprintf("f2_%d", i))
		}
		all := []interp.SymInt{cliMax, f1[0], f1[1], f1[2], f2[0], f2[1], f2[2]}
		for _, v := range all {
			c.Assume(fmt.Sprintf("(and (>= %s (- 3)) (<= %s 40))", v.T, v.T))
		}
		for name, a := range val {
			c.Assume(fmt.Sprintf("(and (>= %s (- 3)) (<= %s 40))", a.IntT, a.IntT))
			if pc.Hex {
				c.Assume(fmt.Sprintf("(= %s %d)", a.IntT, hexVal[name]))
			}
		}
		cliFont := ""
		if pc.CLIFont {
			cliFont = "font2"
		}
		var seen []interp.Value
		c.Hooks = map[string]func(c *interp.Ctx, args []interp.Value) (interp.Value, bool){
			formatTextFn: func(c *interp.Ctx, args []interp.Value) (interp.Value, bool) {
				seen = args[1:]
				return interp.MkTuple("FORMATTED", interp.NilError()), true
			},
		}
		c.EnableTokenSymbolisation(atoms.Placeholders(), placeholderRe, nil)
		res := w.E.Call(c, fn, src, cliFont, cliMax, interp.MkArray(f1[0], f1[1], f1[2]), interp.MkArray(f2[0], f2[1], f2[2]))
		tup := interp.Tuple(res)
		if stopped {
			return
		}
		// reference precedence
		font := "font1"
		if explicitFont != "" {
			font = explicitFont
		} else if cliFont != "" {
			font = cliFont
		}
		fc := f1
		if font == "font2" {
			fc = f2
		}
		pos := func(t string) string { return fmt.Sprintf("(> %s 0)", t) }
		refMax := ""
		if a, ok := val["max"]; ok {
			refMax = fmt.Sprintf("(ite %s %s %s)", pos(a.IntT), a.IntT, fc[0].T)
		} else {
			refMax = fmt.Sprintf("(ite %s %s %s)", pos(cliMax.T), cliMax.T, fc[0].T)
		}
		refLines := fmt.Sprintf("(ite %s %s 2)", pos(fc[1].T), fc[1].T)
		if a, ok := val["lines"]; ok {
			refLines = fmt.Sprintf("(ite %s %s %s)", pos(a.IntT), a.IntT, refLines)
		}
		refOv := fc[2].T
		if a, ok := val["overlap"]; ok {
			refOv = fmt.Sprintf("(ite %s %s %s)", pos(a.IntT), a.IntT, refOv)
		}
		var msg, q string
		switch {
		case !interp.IsNilIface(tup[1]):
			et, _ := w.E.ErrorText(c, tup[1])
			msg = "a well-formed format() call was rejected: " + interp.ToString(et)
		case seen == nil:
			msg = "FormatText was not called"
		default:
			if s, _ := seen[0].(string); s != c07PlumbText {
				msg = fmt.Sprintf("FormatText received text %q", interp.ToString(seen[0]))
			} else if f, _ := seen[3].(string); f != font {
				msg = fmt.Sprintf("FormatText received font %q, expected %q", interp.ToString(seen[3]), font)
			} else {
				for _, chk := range []struct {
					what string
					got  interp.Value
					ref  string
				}{{"maxLineLength", seen[1], refMax}, {"cursorOverlapWidth", seen[2], refOv}, {"numLines", seen[4], refLines}} {
					eq := fmt.Sprintf("(= %s %s)", interp.IntTerm(chk.got), chk.ref)
					switch c.Valid(eq) {
					case interp.Unsat:
					case interp.Unknown:
						panic(interp.Inconclusive{Msg: "solver unknown in parameter check"})
					default:
						msg, q = fmt.Sprintf("FormatText received %s = %s, the documented precedence gives %s", chk.what, interp.ToString(chk.got), chk.ref), interp.Not(eq)
					}
					if msg != "" {
						break
					}
				}
			}
		}
		if msg == "" {
			return
		}
		stopped = true
		if q == "" {
			q = "true"
		}
		// prefer a model in which the difference is observable in the layout
		// of the formatted text (the native confirmation goes through the
		// emitted text): a box of 8..14 pixels, 1..2 lines, small overlaps
		hint := "true"
		if seen != nil && len(seen) == 5 {
			gm, go_, gl := interp.IntTerm(seen[1]), interp.IntTerm(seen[2]), interp.IntTerm(seen[4])
			hint = fmt.Sprintf("(and (>= %s 8) (<= %s 14) (>= %s 1) (<= %s 2) (>= %s 0) (<= %s 6) (>= %s 6) (<= %s 30) (<= %s 8) (>= %s (- 1)) (or (>= (- %s %s) 2) (>= (- %s %s) 2) (>= (- %s %s) 2) (>= (- %s %s) 2) (distinct %s %s)))",
				refMax, refMax, refLines, refLines, refOv, refOv, gm, gm, go_, go_, gm, refMax, refMax, gm, go_, refOv, refOv, go_, gl, refLines)
		}
		r, model := c.CheckModel(interp.And(q, hint), append(atoms.Vars(), c.IntVars...))
		if r != interp.Sat {
			r, model = c.CheckModel(q, append(atoms.Vars(), c.IntVars...))
		}
		f := &Finding{Property: "C07", Case: "c07/plumbing/" + pc.String(), Sub: "format-parameters", Msg: msg, Model: model, Shape: pc}
		if r != interp.Sat {
			rep.inconclusiveViolation(&Case{Name: f.Case}, &Violation{Sub: f.Sub, Msg: msg}, "no model")
			return
		}
		// native confirmation: compile with a real font config file built from
		// the model and compare the emitted text with FormatText called with
		// the reference parameters
		values, _ := atoms.ModelValues(model)
		get := func(t string) int { n, _ := interp.EvalInt(t, model); return int(n) }
		cfg := map[string]interface{}{"defaultFontId": "font1", "fonts": map[string]interface{}{
			"font1": map[string]interface{}{"maxLineLength": get(f1[0].T), "numLines": get(f1[1].T), "cursorOverlapWidth": get(f1[2].T), "widths": map[string]int{"a": 1, " ": 1}},
			"font2": map[string]interface{}{"maxLineLength": get(f2[0].T), "numLines": get(f2[1].T), "cursorOverlapWidth": get(f2[2].T), "widths": map[string]int{"a": 2, " ": 1}},
		}}
		cfgPath := fmt.Sprintf("%s/fontcfg-%d.json", w.Env.TmpDir, w.ID)
		writeJSON(cfgPath, cfg)
		nsrc := atoms.Substitute(src, values)
		f.Sources = map[string]string{"source": nsrc}
		w.N.Fresh()
		resp, _, err := w.N.DoPatient(NativeReq{Op: "compile", Src: nsrc, Optimize: true, FontPath: cfgPath, FontID: cliFont, MaxLen: get(cliMax.T)}, 10*time.Second)
		if err != nil {
			rep.unconfirmed(f)
			return
		}
		want, _, err2 := w.N.DoPatient(NativeReq{Op: "format", Src: c07PlumbText, Font: cfg, FontID: font, MaxWidth: get(refMax), Overlap: get(refOv), NumLines: get(refLines)}, 10*time.Second)
		if err2 != nil {
			rep.unconfirmed(f)
			return
		}
		f.Outputs = map[string]string{"compiled": resp.Out + resp.Err, "FormatText with the documented precedence": want.Out}
		var gotText []string
		inT := false
		for _, l := range strings.Split(resp.Out, "\n") {
			if strings.HasSuffix(l, ":") {
				inT = l == "T::"
			}
			if inT && strings.HasPrefix(l, "\t.string \"") {
				gotText = append(gotText, strings.TrimSuffix(strings.TrimPrefix(l, "\t.string \""), "\""))
			}
		}
		if strings.Join(gotText, "\n") == want.Out+"$" && !resp.IsErr {
			rep.unconfirmed(f)
			return
		}
		f.Confirmed = true
		rep.violation(f)
	}
	st, hit := w.E.Explore(w.S, 512, body, nil)
	rep.addExplore(nil, st, hit)
}

func c07PlumbCases() []*c07PlumbCase {
	var res []*c07PlumbCase
	forms := [][]c07Param{
		{}, {{"font", false}}, {{"max", false}}, {{"font", false}, {"max", false}}, {{"max", false}, {"font", false}},
		{{"font", true}}, {{"max", true}}, {{"lines", true}}, {{"overlap", true}},
		{{"lines", true}, {"overlap", true}}, {{"overlap", true}, {"lines", true}, {"max", true}},
		{{"font", false}, {"lines", true}}, {{"max", false}, {"overlap", true}}, {{"font", false}, {"max", false}, {"lines", true}, {"overlap", true}},
		{{"max", false}, {"font", false}, {"overlap", true}}, {{"font", true}, {"max", true}, {"lines", true}, {"overlap", true}},
		{{"lines", true}, {"font", true}}, {{"max", false}, {"lines", true}},
	}
	for _, f := range forms {
		for _, cli := range []bool{false, true} {
			res = append(res, &c07PlumbCase{Params: f, CLIFont: cli}, &c07PlumbCase{Params: f, CLIFont: cli, Before: true})
			hasNum := false
			for _, p := range f {
				if p.Name != "font" {
					hasNum = true
				}
			}
			if hasNum && !cli {
				res = append(res, &c07PlumbCase{Params: f, Hex: true})
			}
		}
	}
	return res
}
