package checks

import (
	"fmt"
	"strings"

	"verif/engine/interp"
)

// c11Config describes the autovar command config of a case.
type c11Config struct {
	Kind string // "fixed" | "pos0" | "pos1" | "pos-out-of-range"
}

type c11Shape struct {
	Expr    string `json:"expr"`
	Kinds   string `json:"leaf_kinds"`
	Context string `json:"context"`
	Config  string `json:"config"`
	Args    string `json:"args"`
}

// textArg is an inline string argument with concrete content; idx is its
// order of first appearance in the script (its expected label number).
type c11ArgKind string

// c11SameCmd makes every AutoVar leaf (and the switch) of a case use one and
// the same command, with different arguments: the result var of a command
// configured by argument position must be resolved per use.
var c11SameCmd bool

func c11Case(l *lvl, kinds []string, ctx, cfgKind, argKind, cmpKind string) *Case {
	atoms := &AtomTable{Coded: true}
	sname := atoms.New(ClsIdent, "script", "names")
	n := 0
	numberLeaves(l, &n)
	leaves := make([]*Leaf, n)
	var avs []AVSpec
	textN := 0
	expectErr := false
	type avInfo struct {
		use   *AVUse
		texts map[int]int // arg index -> text number
	}
	var infos []*avInfo
	sameCmd := c11SameCmd
	var firstName *Atom
	mkAV := func() *AVUse {
		name := firstName
		if name == nil || !sameCmd {
			name = atoms.New(ClsPlainCmd, "av", "cmds")
			firstName = name
		}
		use := &AVUse{Name: A(name)}
		info := &avInfo{use: use, texts: map[int]int{}}
		switch argKind {
		case "none":
			use.Args = [][]Tok{}
		case "one":
			use.Args = [][]Tok{{A(atoms.New(ClsIdent, "arg", ""))}}
		case "two":
			use.Args = [][]Tok{{A(atoms.New(ClsIdent, "arg", ""))}, {A(atoms.New(ClsNum, "arg", ""))}}
		case "text":
			use.Args = [][]Tok{{L(fmt.Sprintf("\"Question %d$\"", textN))}, {A(atoms.New(ClsIdent, "arg", ""))}}
			info.texts[0] = textN
			textN++
		}
		spec := AVSpec{Name: A(name), Pos: -1}
		switch cfgKind {
		case "fixed":
			if sameCmd && len(avs) > 0 {
				spec.VarName = avs[0].VarName
			} else {
				spec.VarName = A(atoms.New(ClsIdent, "resvar", ""))
			}
			use.VarName = spec.VarName.Val() // filled again at oracle time (per path values)
		case "pos0", "pos1", "pos-out-of-range":
			spec.VarName = L("")
			pos := map[string]int{"pos0": 0, "pos1": 1, "pos-out-of-range": len(use.Args)}[cfgKind]
			spec.Pos = pos
			if pos >= len(use.Args) {
				expectErr = true
			}
		}
		avs = append(avs, spec)
		infos = append(infos, info)
		return use
	}
	for i := range leaves {
		if kinds[i] == "flag" {
			leaves[i] = &Leaf{Kind: "flag", Operand: []Tok{A(atoms.New(ClsIdent, "flag", ""))}}
			continue
		}
		lf := &Leaf{Kind: "autovar", AV: mkAV()}
		switch cmpKind {
		case "eqnum":
			lf.Op, lf.Value = "==", []Tok{A(atoms.New(ClsNum, "val", ""))}
		case "neident":
			lf.Op, lf.Value = "!=", []Tok{A(atoms.New(ClsIdent, "val", ""))}
		case "bare":
		}
		leaves[i] = lf
	}
	yes := atoms.New(ClsPlainCmd, "yes", "cmds")
	no := atoms.New(ClsPlainCmd, "no", "cmds")
	after := atoms.New(ClsPlainCmd, "after", "cmds")
	var body []Stmt
	var swAV *AVUse
	var caseVals []*Atom
	if ctx == "nested-switch-av" || ctx == "nested-switch-var" {
		// a switch on an autovar command whose first case body holds another
		// switch (on a second autovar command / on a plain var)
		swAV = mkAV()
		v1, v2 := atoms.New(ClsNum, "case", ""), atoms.New(ClsNum, "case", "")
		w1 := atoms.New(ClsNum, "case", "")
		caseVals = []*Atom{v1, v2}
		in1 := atoms.New(ClsPlainCmd, "in", "cmds")
		inner := &Switch{Cases: []*SwCase{{Value: []Tok{A(w1)}, Body: []Stmt{&Cmd{Name: A(in1)}}}, {Default: true, Body: []Stmt{&Cmd{Name: A(yes)}}}}}
		if ctx == "nested-switch-av" {
			inner.AV = mkAV()
		} else {
			inner.Operand = []Tok{A(atoms.New(ClsIdent, "var", ""))}
		}
		body = []Stmt{&Switch{AV: swAV, Cases: []*SwCase{
			{Value: []Tok{A(v1)}, Body: []Stmt{inner}},
			{Value: []Tok{A(v2)}, Body: []Stmt{&Cmd{Name: A(no)}}},
		}}, &Cmd{Name: A(after)}}
	} else if ctx == "switch" || ctx == "while-switch" {
		swAV = mkAV()
		v1, v2 := atoms.New(ClsNum, "case", ""), atoms.New(ClsNum, "case", "")
		caseVals = []*Atom{v1, v2}
		body = []Stmt{&Switch{AV: swAV, Cases: []*SwCase{
			{Value: []Tok{A(v1)}, Body: []Stmt{&Cmd{Name: A(yes)}}},
			{Value: []Tok{A(v2)}},
			{Default: true, Body: []Stmt{&Cmd{Name: A(no)}}},
		}}, &Cmd{Name: A(after)}}
		if ctx == "while-switch" {
			// the switch inside a loop whose condition uses the leaves
			body = []Stmt{&While{Cond: usualTree(l, leaves), Body: body[:1]}, body[1]}
		}
	} else {
		e := usualTree(l, leaves)
		if ctx == "if-empty" {
			body = []Stmt{&If{Conds: []*Expr{e}, Bodies: [][]Stmt{nil}}, &Cmd{Name: A(after)}}
		} else {
			body = c02Body(ctx, e, yes, no, after)
		}
	}
	prog := &Program{Atoms: atoms, Tops: []interface{}{&Script{Name: sname, Body: body}}}
	variants := []Variant{
		{Name: "opt", Opt: CompileOpts{Optimize: true, AVs: avs}},
		{Name: "noopt", Opt: CompileOpts{Optimize: false, AVs: avs}},
	}
	fix := func() {
		// reference values that depend on the per-path atom values
		for i, info := range infos {
			spec := avs[i]
			if spec.Pos >= 0 {
				if spec.Pos < len(info.use.Args) {
					info.use.VarName = argRendering(info.use, spec.Pos, info.texts, sname)
				}
			} else {
				info.use.VarName = spec.VarName.Val()
			}
		}
	}
	refScripts := func(x *OracleCtx) []*Script {
		fix()
		// render inline text arguments as their expected labels
		var rewrite func(e *Expr) *Expr
		rewrite = func(e *Expr) *Expr {
			if e == nil {
				return nil
			}
			c := *e
			if e.Kind == ELeaf {
				if e.Leaf.Kind == "autovar" {
					lf := *e.Leaf
					lf.AV = renderedAV(e.Leaf.AV, sname)
					c.Leaf = &lf
				}
				return &c
			}
			c.L, c.R = rewrite(e.L), rewrite(e.R)
			return &c
		}
		var rs func(stmts []Stmt) []Stmt
		rs = func(stmts []Stmt) []Stmt {
			var out []Stmt
			for _, s := range stmts {
				switch s := s.(type) {
				case *If:
					c := *s
					c.Conds = nil
					for _, e := range s.Conds {
						c.Conds = append(c.Conds, rewrite(e))
					}
					out = append(out, &c)
				case *While:
					c := *s
					c.Cond = rewrite(s.Cond)
					out = append(out, &c)
				case *DoWhile:
					c := *s
					c.Cond = rewrite(s.Cond)
					out = append(out, &c)
				case *Switch:
					c := *s
					if s.AV != nil {
						c.AV = renderedAV(s.AV, sname)
					}
					c.Cases = nil
					for _, sc := range s.Cases {
						cc := *sc
						cc.Body = rs(sc.Body)
						c.Cases = append(c.Cases, &cc)
					}
					out = append(out, &c)
				default:
					out = append(out, s)
				}
			}
			return out
		}
		s := scriptsOf(prog)[0]
		return []*Script{{Name: s.Name, Body: rs(s.Body)}}
	}
	main := bisimOracle("autovar", refScripts, nil)
	var kindsS []string
	kindsS = append(kindsS, kinds...)
	shape := c11Shape{Expr: l.String(), Kinds: strings.Join(kindsS, ","), Context: ctx, Config: cfgKind, Args: argKind}
	cs := &Case{Name: fmt.Sprintf("c11/%s/%s/%s/%s/%s/%s", ctx, cfgKind, argKind, cmpKind, l.String(), strings.Join(kindsS, "")), Prog: prog, Variants: variants, NonTrivial: true, Shape: shape}
	cs.Setup = func(x *OracleCtx) {
		if len(caseVals) == 2 && !x.Replay && caseVals[0].IntT != "" {
			x.C.Assume(fmt.Sprintf("(distinct %s %s)", caseVals[0].IntT, caseVals[1].IntT))
		}
	}
	cs.Oracle = func(x *OracleCtx) *Violation {
		if expectErr {
			for _, v := range x.Case.Variants {
				if !x.Res[v.Name].Err.IsErr {
					return &Violation{Sub: "arg-position", Msg: "an autovar command whose configured argument position is out of range was accepted"}
				}
			}
			return nil
		}
		if v := main(x); v != nil {
			return v
		}
		// every hoisted text is defined once with its content
		if textN > 0 {
			for _, v := range x.Case.Variants {
				for k := 0; k < textN; k++ {
					lbl := interp.Concat(sname.Val, fmt.Sprintf("_Text_%d", k))
					if n := countLabelDefs(x.C, x.Res[v.Name].Out, lbl); n != 1 {
						return &Violation{Sub: "autovar-text", Msg: fmt.Sprintf("variant %s: the inline text of an autovar command is defined %d times (label %s)", v.Name, n, interp.ToString(lbl))}
					}
				}
			}
		}
		return nil
	}
	return cs
}

// argRendering: how argument i of an autovar use appears in the output.
func argRendering(av *AVUse, i int, texts map[int]int, sname *Atom) interp.Value {
	if k, ok := texts[i]; ok {
		return interp.Concat(sname.Val, fmt.Sprintf("_Text_%d", k))
	}
	return JoinToks(av.Args[i])
}

// renderedAV returns a copy of the use whose inline-text arguments are
// replaced by their expected labels.
func renderedAV(av *AVUse, sname *Atom) *AVUse {
	c := *av
	c.Args = nil
	for _, a := range av.Args {
		if len(a) == 1 && a[0].A == nil && strings.HasPrefix(a[0].Lit, "\"Question ") {
			var k int
			fmt.Sscanf(a[0].Lit, "\"Question %d$\"", &k)
			c.Args = append(c.Args, []Tok{{V: interp.Concat(sname.Val, fmt.Sprintf("_Text_%d", k))}})
			continue
		}
		c.Args = append(c.Args, a)
	}
	return &c
}

// countLabelDefs counts definitions of a label in an output.
func countLabelDefs(c *interp.Ctx, out interp.Value, name interp.Value) int {
	n := 0
	for _, al := range ParseAsm(out) {
		if al.Kind == "label" && sameValue(c, al.Name, name) == 1 {
			n++
		}
	}
	return n
}

// RunC11 is the check of property C11.
func RunC11(env *Env, rep *Report) {
	maxLeaves := 2
	if env.Tier == "thorough" {
		maxLeaves = 3
	}
	var cases []*Case
	contexts := []string{"if", "if-empty", "elif", "while", "dowhile"}
	for n := 1; n <= maxLeaves; n++ {
		for _, l := range enumLevels(n, 0, true) {
			// assignments of leaf kinds with at least one autovar
			for mask := 1; mask < 1<<n; mask++ {
				kinds := make([]string, n)
				for i := range kinds {
					if mask>>i&1 == 1 {
						kinds[i] = "autovar"
					} else {
						kinds[i] = "flag"
					}
				}
				for ci, ctx := range contexts {
					cfgs := []string{"fixed", "pos0"}
					args := []string{"two"}
					if n == 1 {
						cfgs = []string{"fixed", "pos0", "pos1", "pos-out-of-range"}
						args = []string{"none", "one", "two", "text"}
					} else if ci == 0 {
						args = []string{"two", "text"}
					}
					for _, cfg := range cfgs {
						for _, ak := range args {
							if (cfg == "pos0" && (ak == "none" || ak == "text")) || (cfg == "pos1" && (ak == "none" || ak == "one")) {
								continue
							}
							cmp := "eqnum"
							if n == 1 {
								for _, cmp = range []string{"eqnum", "neident", "bare"} {
									cases = append(cases, c11Case(l, kinds, ctx, cfg, ak, cmp))
								}
								continue
							}
							cases = append(cases, c11Case(l, kinds, ctx, cfg, ak, cmp))
						}
					}
				}
			}
		}
	}
	// groups with inline text in every position (3 leaves), 'if' context
	for _, l := range enumLevels(3, 0, false) {
		hasGroup := false
		for _, o := range l.operands {
			if o.group != nil {
				hasGroup = true
			}
		}
		if !hasGroup {
			continue
		}
		for pos := 0; pos < 3; pos++ {
			kinds := []string{"flag", "flag", "flag"}
			kinds[pos] = "autovar"
			cases = append(cases, c11Case(l, kinds, "if", "fixed", "text", "eqnum"))
			cases = append(cases, c11Case(l, kinds, "while", "pos1", "text", "eqnum"))
		}
	}
	// one command used by every AutoVar leaf, with different arguments
	c11SameCmd = true
	nSame := 0
	for n := 2; n <= 3; n++ {
		for _, l := range enumLevels(n, 0, false) {
			kinds := make([]string, n)
			for i := range kinds {
				kinds[i] = "autovar"
			}
			if n == 3 {
				kinds[1] = "flag"
			}
			for _, ctx := range []string{"if", "while", "elif"} {
				for _, cfg := range []string{"pos0", "pos1", "fixed"} {
					if n == 3 && (ctx != "if" || cfg == "fixed") {
						continue
					}
					cases = append(cases, c11Case(l, kinds, ctx, cfg, "two", "eqnum"))
					nSame++
				}
			}
		}
	}
	one1 := &lvl{operands: []*opnd{{}}}
	for _, cfg := range []string{"pos0", "pos1"} {
		// a leaf and a switch on the same command inside the loop body
		cases = append(cases, c11Case(one1, []string{"autovar"}, "while-switch", cfg, "two", "eqnum"))
		nSame++
	}
	c11SameCmd = false
	cases = append(cases, c11ConstCase("fixed"), c11ConstCase("pos0"))
	one := &lvl{operands: []*opnd{{}}}
	for _, cfg := range []string{"fixed", "pos0", "pos1", "pos-out-of-range"} {
		for _, ak := range []string{"one", "two", "text"} {
			if cfg == "pos1" && ak == "one" || cfg == "pos0" && ak == "text" {
				continue
			}
			cases = append(cases, c11Case(one, []string{"flag"}, "switch", cfg, ak, "eqnum"))
		}
	}
	// nested switches on autovar commands
	for _, cfg := range []string{"fixed", "pos0"} {
		for _, ctx := range []string{"nested-switch-av", "nested-switch-var"} {
			cases = append(cases, c11Case(one, []string{"flag"}, ctx, cfg, "two", "eqnum"))
		}
	}
	rep.Technique = "symbolic execution of the real autovar parsing and emission (go/ssa) + SMT-discharged bisimulation in which evaluating an autovar leaf is an event followed by the comparison of the configured var"
	rep.Explanation = "Bounded symbolic verification, not a proof. Conditions with up to the stated number of leaves (every operator/parenthesis/negation shape without redundant parentheses), at least one leaf being an autovar command, in if / empty-bodied if / elif / while / do-while position, and switch on an autovar command, are compiled by symbolic execution of the real code under command configs with a fixed result var or an argument position (in range and out of range). In the reference semantics evaluating an autovar leaf IS an event (the command rendered as a statement, inline text replaced by its hoisted label) followed in the new epoch by the comparison of the configured var; the bisimulation therefore decides exactly-once, in-order, not-at-all-when-short-circuited and again-on-every-iteration, for all names, values and game states."
	rep.Bounds = map[string]interface{}{"same_command_cases": nSame, "max_leaves": maxLeaves, "contexts": append(contexts, "switch"), "configs": []string{"fixed var name", "arg position 0", "arg position 1", "arg position out of range (error expected)"}, "argument_kinds": []string{"none", "one identifier", "identifier+number", "inline text + identifier"}, "cases": len(cases)}
	rep.Outside = []string{"more leaves; redundant parentheses around autovar leaves (the and-chain regrouping defect of C02 would interfere)", "JSON loading of the command config (main.readCommandConfig)", "negative argument positions in the config"}
	rep.Assumptions = []string{"assembly semantics of DESIGN.md §4.1", "command names (autovar and ordinary) are pairwise distinct identifiers", "inline text contents are concrete and pairwise distinct"}
	rep.Functions = []string{"expectPeekVarOrAutoVar", "peekTokenIsAutoVar", "parseLeafBooleanExpression", "parseSwitchStatement", "leafExpressionBranch", "renderCommandStatement", "parseCommandStatement", "addImplicitTexts", "splitBooleanExpressionChunks"}
	rep.Match = func(k *KnownFinding, f *Finding) bool { return false }
	if len(cases) > 3 {
		src, _ := cases[len(cases)/2].Prog.Render()
		rep.AddSample(map[string]interface{}{"case": cases[len(cases)/2].Name, "source_with_holes": src})
	}
	runWitness(env, rep, "c11-witness-command-not-run", func() *Case {
		cs := c11Case(one, []string{"autovar"}, "if", "fixed", "one", "eqnum")
		prog := cs.Prog
		cs.Oracle = bisimOracle("witness", func(x *OracleCtx) []*Script {
			// twin: a reference that compares the var without running the command
			s := scriptsOf(prog)[0]
			ifs := s.Body[0].(*If)
			lf := *ifs.Conds[0].Leaf
			lf.Kind = "var"
			lf.Operand = []Tok{avsVar(cs)}
			tw := &If{Conds: []*Expr{{Kind: ELeaf, Leaf: &lf}}, Bodies: ifs.Bodies, Else: ifs.Else, HasElse: true}
			return []*Script{{Name: s.Name, Body: []Stmt{tw, s.Body[1]}}}
		}, nil)
		return cs
	})
	env.RunJobs(len(cases), rep, func(w *Worker, i int) { w.RunCase(cases[i], rep) })
}

func avsVar(cs *Case) Tok { return cs.Variants[0].Opt.AVs[0].VarName }

// c11ConstCase: constants around an autovar condition. With a fixed var name
// the configured name is not a script token, so a constant of that name does
// not rewrite the comparison; with an argument position the compared var is
// the argument as it is rendered in the command (constants expanded once).
func c11ConstCase(cfg string) *Case {
	atoms := &AtomTable{Coded: true}
	sname := atoms.New(ClsUserName, "script", "names")
	av := atoms.New(ClsPlainCmd, "av", "cmds")
	yes := atoms.New(ClsPlainCmd, "yes", "cmds")
	k1 := atoms.New(ClsIdent, "const", "consts")
	k2 := atoms.New(ClsIdent, "const", "consts")
	v2 := atoms.New(ClsIdent, "cv", "consts")
	arg := atoms.New(ClsIdent, "arg", "consts")
	res := atoms.New(ClsIdent, "res", "")
	// const k1 = k2 (declared before k2, so k1's value is the NAME k2), const k2 = v2
	var src string
	var spec AVSpec
	if cfg == "fixed" {
		spec = AVSpec{Name: A(av), VarName: A(res), Pos: -1}
		src = fmt.Sprintf("const %s = %s\nscript %s {\n  if (%s(%s) == 1) {\n    %s\n  }\n}", k1.Placeholder(), v2.Placeholder(), sname.Placeholder(), av.Placeholder(), arg.Placeholder(), yes.Placeholder())
	} else {
		spec = AVSpec{Name: A(av), VarName: L(""), Pos: 0}
		src = fmt.Sprintf("const %s = %s\nconst %s = %s\nscript %s {\n  if (%s(%s) == 1) {\n    %s\n  }\n}", k1.Placeholder(), k2.Placeholder(), k2.Placeholder(), v2.Placeholder(), sname.Placeholder(), av.Placeholder(), k1.Placeholder(), yes.Placeholder())
	}
	prog := &Program{Atoms: atoms, Tops: []interface{}{&TopRaw{Text: src}}}
	variants := []Variant{{Name: "opt", Opt: CompileOpts{Optimize: true, AVs: []AVSpec{spec}}}, {Name: "noopt", Opt: CompileOpts{AVs: []AVSpec{spec}}}}
	cs := &Case{Name: "c11/constants/" + cfg, Prog: prog, Variants: variants, NonTrivial: true, Shape: c11Shape{Context: "constants", Config: cfg}, MaxPaths: 64}
	ref := bisimOracle("autovar-constants", func(x *OracleCtx) []*Script {
		var cmdArg, cmpVar interp.Value
		if cfg == "fixed" {
			cmdArg, cmpVar = arg.Val, res.Val
			// the result var may itself be the constant's name: it still is not rewritten
		} else {
			// k1 was defined as the bare identifier k2 (k2 not yet a constant): argument text = k2's name
			cmdArg, cmpVar = k2.Val, k2.Val
		}
		use := &AVUse{Name: A(av), Args: [][]Tok{{{V: cmdArg}}}, VarName: cmpVar}
		lf := &Leaf{Kind: "autovar", AV: use, Op: "==", Value: []Tok{L("1")}}
		return []*Script{{Name: sname, Body: []Stmt{&If{Conds: []*Expr{{Kind: ELeaf, Leaf: lf}}, Bodies: [][]Stmt{{&Cmd{Name: A(yes)}}}}}}}
	}, nil)
	cs.Oracle = ref
	return cs
}
