package checks

import (
	"fmt"
	"regexp"

	"verif/engine/interp"
)

var hoistedSuffixRe = regexp.MustCompile(`_(Text|Movement)_[0-9]+$`)

func collectLabels(stmts []Stmt, out *[]*Atom) {
	for _, s := range stmts {
		switch s := s.(type) {
		case *Label:
			*out = append(*out, s.Name)
		case *If:
			for _, b := range s.Bodies {
				collectLabels(b, out)
			}
			collectLabels(s.Else, out)
		case *While:
			collectLabels(s.Body, out)
		case *DoWhile:
			collectLabels(s.Body, out)
		case *Switch:
			for _, c := range s.Cases {
				collectLabels(c.Body, out)
			}
		}
	}
}

// closedOracle asserts the four clauses of C04 on every variant's output.
func closedOracle(entryNames func() []interp.Value, userLabels func() []*Atom, _ bool) func(x *OracleCtx) *Violation {
	return func(x *OracleCtx) *Violation {
		names := entryNames()
		isEntry := func(name interp.Value) bool {
			for _, n := range names {
				if sameValue(x.C, n, name) == 1 {
					return true
				}
			}
			return false
		}
		for _, v := range x.Case.Variants {
			res := x.Res[v.Name]
			if res.Err.Panic != "" {
				return &Violation{Sub: "panic", Msg: res.Err.Panic}
			}
			if res.Err.IsErr {
				return &Violation{Sub: "accept", Msg: "variant " + v.Name + ": an accepted program was rejected: " + interp.ToString(res.Err.Msg)}
			}
			ag := BuildAsmGraphLenient(x.C, res.Out, isEntry, x.Case.Prog.Atoms.Coded)
			// (i) every label defined once
			for i, a := range ag.LabelDef {
				for _, b := range ag.LabelDef[i+1:] {
					switch sameValue(x.C, a.Name, b.Name) {
					case 1:
						return &Violation{Sub: "label-unique", Msg: fmt.Sprintf("variant %s: label %s is defined twice", v.Name, interp.ToString(a.Name)), Tags: []string{"dup:" + interp.ToString(a.Name)}}
					case -1:
						return &Violation{Sub: "label-unique", Query: interp.BoolTerm(interp.StrEq(a.Name, b.Name)), Msg: fmt.Sprintf("variant %s: labels %s and %s can coincide", v.Name, interp.ToString(a.Name), interp.ToString(b.Name))}
					case -2:
						panic(interp.Inconclusive{Msg: "solver unknown on label uniqueness"})
					}
				}
			}
			// (ii) generated references resolve
			for _, t := range jumpTargets(ag.Lines) {
				gen := false
				for _, n := range names {
					if isSubLabelOf(t, n) {
						gen = true
					}
				}
				if gen && ag.FindLabel(x.C, t) == nil {
					return &Violation{Sub: "reference", Msg: fmt.Sprintf("variant %s: generated jump target %s is not defined", v.Name, interp.ToString(t))}
				}
			}
			for _, al := range ag.Lines {
				if al.Kind != "instr" {
					continue
				}
				rest := al.Rest
				if al.Mnem == "" {
					// symbolic command name: the operands start after the first space
					if _, r, ok := splitFirst(rest, " "); ok {
						rest = r
					} else {
						rest = ""
					}
				}
				for _, arg := range splitValue(rest, ", ") {
					ps := interp.Parts(arg)
					if n := len(ps); n > 0 && ps[n-1].Kind == interp.PLit && hoistedSuffixRe.MatchString(ps[n-1].Lit) {
						if ag.FindLabel(x.C, arg) == nil {
							return &Violation{Sub: "reference", Msg: fmt.Sprintf("variant %s: hoisted label %s is used but not defined", v.Name, interp.ToString(arg))}
						}
					}
					if isEmpty(arg) && !isEmpty(rest) {
						return &Violation{Sub: "reference", Msg: fmt.Sprintf("variant %s: a command has an empty argument: %s", v.Name, interp.ToString(al.Raw))}
					}
				}
			}
			// (iii) user labels exactly once
			for _, l := range userLabels() {
				if n := countLabelDefs(x.C, res.Out, l.Val); n != 1 {
					return &Violation{Sub: "user-label", Msg: fmt.Sprintf("variant %s: user label %s is defined %d times", v.Name, interp.ToString(l.Val), n), Tags: []string{fmt.Sprintf("userlabel:%d", n)}}
				}
			}
			// (iv) no run-off from any instruction that can fall through
			codeLabel := map[*Node]bool{}
			for _, d := range ag.LabelDef {
				isCode := isEntry(d.Name)
				for _, nm := range names {
					if isSubLabelOf(d.Name, nm) {
						isCode = true
					}
				}
				for _, l := range userLabels() {
					if sameValue(x.C, d.Name, l.Val) == 1 {
						isCode = true
					}
				}
				codeLabel[ag.nodeOf[d.Index]] = isCode
			}
			for _, n := range ag.G.Nodes {
				if isCode, isLabel := codeLabel[n]; isLabel && !isCode {
					continue // a data label: what follows it is data by design
				}
				for _, succ := range []*Node{n.Next, n.T, n.F} {
					if succ != nil && succ.Kind == NTerm && succ.Term == "runoff" && n.Kind != NTerm {
						return &Violation{Sub: "run-off", Msg: fmt.Sprintf("variant %s: execution can run from %q past the end of its script (%s)", v.Name, n.Desc, succ.Desc)}
					}
				}
			}
		}
		return nil
	}
}

// BuildAsmGraphLenient is BuildAsmGraph for outputs that may define a label
// twice (FindLabel then takes the first definition).
func BuildAsmGraphLenient(c *interp.Ctx, out interp.Value, isEntry func(interp.Value) bool, coded bool) *AsmGraph {
	return BuildAsmGraph(c, out, isEntry, coded)
}

type c04Shape struct {
	Family string      `json:"family"`
	Shape  interface{} `json:"shape"`
}

func c04FromCase(cs *Case, family string, entryNames func() []interp.Value, labels func() []*Atom) *Case {
	out := *cs
	out.Name = "c04/" + cs.Name
	out.Shape = c04Shape{Family: family, Shape: cs.Shape}
	out.Oracle = closedOracle(entryNames, labels, cs.Prog.Atoms.Coded)
	return &out
}

func scriptLabelFuncs(prog *Program) (func() []interp.Value, func() []*Atom) {
	names := func() []interp.Value {
		var ns []interp.Value
		for _, s := range scriptsOf(prog) {
			ns = append(ns, s.NameValue())
		}
		return ns
	}
	labels := func() []*Atom {
		var ls []*Atom
		for _, s := range scriptsOf(prog) {
			collectLabels(s.Body, &ls)
		}
		return ls
	}
	return names, labels
}

func matchKnownC04(k *KnownFinding, f *Finding) bool {
	var sh c04Shape
	shapeOfFinding(f, &sh)
	switch kindOf(k) {
	case "label_after_break":
		s, _ := sh.Shape.(string)
		if sh.Family == "flow" && shapeStringLabelAfterBreak(s) && f.ReplaySub == "user-label" {
			for _, t := range f.Tags {
				if t == "userlabel:0" {
					return true
				}
			}
		}
	case "label_in_body_shared_by_empty_default":
		if sh.Family != "switch" || (f.ReplaySub != "label-unique" && f.ReplaySub != "user-label") {
			return false
		}
		var cs c03Shape
		if b, err := jsonMarshal(sh.Shape); err == nil && jsonUnmarshalErr(b, &cs) == nil {
			// an empty default directly or transitively sharing a later body that contains a label
			for i, e := range cs.Entries {
				if e.Default && e.Body == "empty" {
					for j := i + 1; j < len(cs.Entries); j++ {
						if cs.Entries[j].Body != "empty" {
							return cs.Entries[j].Body == "iflabelcmd"
						}
					}
				}
			}
		}
	}
	return false
}

// RunC04 is the check of property C04.
func RunC04(env *Env, rep *Report) {
	maxNodes, maxLen := 3, 3
	if env.Tier == "thorough" {
		maxNodes, maxLen = 4, 4
	}
	if v := envInt("VERIF_C04_NODES"); v > 0 {
		maxNodes = v
	}
	var cases []*Case
	shapes := c01Shapes(maxNodes)
	for _, c := range c01ContextShapes() {
		shapes = append(shapes, expandGotos(c)...)
	}
	shapes = append(shapes, c01ElifChainShapes()...)
	shapes = append(shapes, c04DeadCodeShapes()...)
	for _, sh := range shapes {
		base := c01Case(sh, ShString(sh))
		n, l := scriptLabelFuncs(base.Prog)
		cases = append(cases, c04FromCase(base, "flow", n, l))
	}
	for _, sh := range c01SpelledShapes() {
		base := c01CaseMode(sh, "spelled/"+ShString(sh), false)
		n, l := scriptLabelFuncs(base.Prog)
		cases = append(cases, c04FromCase(base, "flow", n, l))
	}
	nmixed := 0
	for _, mf := range mixedFiles(maxNodes - 1) {
		mf := mf
		base := &Case{Name: mf.name(), Prog: mf.prog, Variants: optVariants, Shape: mf.shape, NonTrivial: true}
		cs := c04FromCase(base, "mixed-file", mf.entryNames, func() []*Atom { return mf.labels })
		cs.Oracle = mf.wrap(cs.Oracle)
		cases = append(cases, cs)
		nmixed++
	}
	nflow := len(cases)
	swBodies := []string{"empty", "cmd", "break", "cmdend", "labelcmd", "iflabelcmd"}
	for m := 1; m <= maxLen; m++ {
		bs := swBodies
		if m == maxLen {
			bs = []string{"empty", "cmd", "labelcmd", "iflabelcmd"}
		}
		for _, sh := range enumSwitchShapes(m, bs) {
			for _, ctx := range []string{"first", "only", "while"} {
				base := c03Case(sh, ctx)
				n, l := scriptLabelFuncs(base.Prog)
				cases = append(cases, c04FromCase(base, "switch", n, l))
			}
		}
	}
	// one script with more than 64 chunks (sizes where a fixed-width set of
	// chunk ids would overflow)
	{
		var big []swEntry
		for i := 0; i < 66; i++ {
			big = append(big, swEntry{Body: "cmd"})
		}
		base := c03Case(big, "only")
		base.Name = "c03/big-66-cases"
		base.MaxPaths = 4
		n, l := scriptLabelFuncs(base.Prog)
		cases = append(cases, c04FromCase(base, "switch", n, l))
	}
	nsw := len(cases) - nflow
	for _, t := range c06Templates {
		base := c06Case(t)
		p, _ := c06Build(t)
		_ = p
		prog := base.Prog
		atoms := prog.Atoms
		// entry names: scripts are in the raw text; recover them from the atoms' hints
		names := func() []interp.Value {
			var ns []interp.Value
			for _, a := range atoms.Atoms {
				if a.Hint == "script" {
					ns = append(ns, a.Val)
				}
			}
			return ns
		}
		cases = append(cases, c04FromCase(base, "hoisting", names, func() []*Atom { return nil }))
	}
	msLists := enumMapEntries(2, 2)
	msLists = append(msLists, []string{"table:"}, []string{"plain", "table:"}, []string{"table:", "inline"}, []string{"table:", "table:i"})
	for i, l := range msLists {
		base := c08Case(l, []string{"cmd", "if", "while", "text"}[i%4])
		ms := base.Prog.Tops[0].(*MapScriptsTop)
		names := func() []interp.Value {
			var ns []interp.Value
			for _, e := range ms.Entries {
				if e.Kind == "inline" {
					ns = append(ns, cat(ms.Name.Val, "_", e.Type.Val))
				}
				for i, r := range e.Rows {
					if r.Label == nil {
						ns = append(ns, cat(ms.Name.Val, "_", e.Type.Val, fmt.Sprintf("_%d", i)))
					}
				}
			}
			return ns
		}
		mc := c04FromCase(base, "mapscripts", names, func() []*Atom { return nil })
		closed := mc.Oracle
		mc.Oracle = func(x *OracleCtx) *Violation {
			if v := closed(x); v != nil {
				return v
			}
			// every label a header or table row refers to, other than the
			// author's own plain targets, is generated and must be defined
			var plain []interp.Value
			for _, e := range ms.Entries {
				if e.Kind == "plain" {
					plain = append(plain, e.Label.Val)
				}
				for _, r := range e.Rows {
					if r.Label != nil {
						plain = append(plain, r.Label.Val)
					}
				}
			}
			for _, v := range x.Case.Variants {
				out := x.Res[v.Name].Out
				for _, l := range outputLines(out, false) {
					var lbl interp.Value
					if rest, ok := trimPrefixLit(l, "\tmap_script "); ok {
						_, lbl, _ = splitFirst(rest, ", ")
					} else if rest, ok := trimPrefixLit(l, "\tmap_script_2 "); ok {
						if _, r2, ok := splitFirst(rest, ", "); ok {
							_, lbl, _ = splitFirst(r2, ", ")
						}
					}
					if lbl == nil {
						continue
					}
					own := false
					for _, p := range plain {
						if sameValue(x.C, p, lbl) == 1 {
							own = true
						}
					}
					if !own {
						if n := countLabelDefs(x.C, out, lbl); n != 1 {
							return &Violation{Sub: "reference", Msg: fmt.Sprintf("variant %s: the map-script entry label %s is defined %d times", v.Name, interp.ToString(lbl), n)}
						}
					}
				}
			}
			return nil
		}
		cases = append(cases, mc)
	}
	rep.Technique = "symbolic execution of the real compiler (go/ssa) with all names symbolic; label uniqueness / resolution as solver queries over all names, run-off on the control-flow graph of the emitted text"
	rep.Explanation = "Bounded symbolic verification, not a proof. For every skeleton of the statement-tree family (C01 bounds, user labels in every position incl. after end/return and in unreachable code), the switch family (case lists with labelled bodies and bodies that branch before a label), the hoisting templates of C06, the mapscripts family and files mixing script statements with inline map scripts, the real code is executed symbolically with all user-chosen names symbolic and constrained only by the property's precondition (user names do not imitate generated names). Asserted on both optimize settings: (i) no two label definitions can be equal for any names (solver query per pair); (ii) every generated jump/case target and every hoisted text/movement label used as an argument is defined; (iii) every label the author wrote is defined exactly once; (iv) in the control-flow graph of the emitted text no instruction that can fall through - reachable or not - runs past the end of its script into another script's entry, data, or the end of the file."
	rep.Bounds = map[string]interface{}{"statement_tree_max_nodes": maxNodes, "statement_tree_cases": nflow, "mixed_file_cases": nmixed, "switch_max_length": maxLen, "switch_cases": nsw, "switch_bodies": swBodies, "hoisting_templates": len(c06Templates), "mapscripts_entries": 2, "cases": len(cases)}
	rep.Outside = []string{"shapes beyond the bounds", "names that imitate generated names (excluded by the property; explored by C20)", "labels referenced by author-written commands (they may live in another file)"}
	rep.Assumptions = []string{"user-chosen names are generic identifiers that do not imitate generated names (Int-coded atoms with the genericity rule)", "a generated reference is a jump/case operand of the form <script>_<digits> or an argument ending in _Text_<n> / _Movement_<n>"}
	rep.Functions = []string{"emitScriptStatement", "renderChunks", "renderLabel", "renderStatements", "renderBranching", "createSwitchStatementChunks", "splitChunkForBranch", "createPostLogicChunk", "emitText", "emitMovementStatement", "emitMapScriptStatement", "getLabel", "optimizeChunkOrder"}
	rep.Match = matchKnownC04
	src, _ := cases[nflow+5].Prog.Render()
	rep.AddSample(map[string]interface{}{"case": cases[nflow+5].Name, "source_with_holes": src})
	runWitness(env, rep, "c04-witness-missing-label", func() *Case {
		base := c01Case([]*Sh{{K: "cmd"}, {K: "label"}}, "witness")
		n, _ := scriptLabelFuncs(base.Prog)
		extra := base.Prog.Atoms.New(ClsUserName, "ghost", "names")
		return c04FromCase(base, "flow", n, func() []*Atom { return []*Atom{extra} })
	})
	env.RunJobs(len(cases), rep, func(w *Worker, i int) { w.RunCase(cases[i], rep) })
}

// c04DeadCodeShapes: labels inside constructs that follow break / end /
// return / goto in the same block (unreachable by falling through).
func c04DeadCodeShapes() [][]*Sh {
	var res [][]*Sh
	nested := func() []*Sh {
		return []*Sh{
			{K: "if", Blocks: [][]*Sh{{{K: "label"}, {K: "cmd"}}}},
			{K: "while", Blocks: [][]*Sh{{{K: "cmd"}, {K: "label"}}}},
			{K: "ifelse", Blocks: [][]*Sh{{{K: "cmd"}}, {{K: "label"}}}},
		}
	}
	for _, stop := range []string{"break", "end", "return"} {
		for _, n := range nested() {
			body := []*Sh{{K: "cmd"}, {K: stop}, n, {K: "cmd"}}
			if stop == "break" {
				for _, lp := range []string{"while", "dowhile"} {
					res = append(res, []*Sh{{K: lp, Blocks: [][]*Sh{cloneSh(body)}}, {K: "cmd"}})
				}
			} else {
				res = append(res, cloneSh(body))
				res = append(res, []*Sh{{K: "if", Blocks: [][]*Sh{cloneSh(body)}}, {K: "cmd"}})
			}
		}
	}
	return res
}
