package checks

import (
	"fmt"
	"strings"

	"verif/engine/interp"
)

type c14Shape struct {
	Kind    string   `json:"kind"` // movement | moves | mart
	Entries []string `json:"entries"`
	Const   bool     `json:"const"`
}

func enumEntryLists(maxLen int, kinds []string) [][]string {
	var res [][]string
	var rec func(cur []string)
	rec = func(cur []string) {
		res = append(res, append([]string{}, cur...))
		if len(cur) == maxLen {
			return
		}
		for _, k := range kinds {
			rec(append(cur, k))
		}
	}
	rec(nil)
	return res
}

// uniqueInt finds the value the path condition forces on an Int term.
func uniqueInt(c *interp.Ctx, term string) (int64, bool) {
	r, m := c.CheckModel("true", []string{term})
	if r != interp.Sat {
		return 0, false
	}
	n, ok := interp.ParseIntValue(m[term])
	if !ok {
		return 0, false
	}
	if c.Valid(fmt.Sprintf("(= %s %s)", term, interp.IntLit(n))) != interp.Unsat {
		return 0, false
	}
	return n, true
}

func c14MovementCase(entries []string, kind string, unroll int) *Case {
	atoms := &AtomTable{Coded: true}
	name := atoms.New(ClsIdent, "mv", "names")
	var steps []*Step
	multCount := 0
	for _, e := range entries {
		st := &Step{}
		switch e {
		case "s", "s,", "s*N", "s*N,":
			st.Name = A(atoms.New(ClsIdent, "step", ""))
		case "END":
			st.Name = L("step_end")
		default:
			st.Name = L(strings.TrimPrefix(e, "lit:"))
		}
		if strings.Contains(e, "*N") {
			m := A(atoms.New(ClsNum, "mult", ""))
			st.Mult = &m
			multCount++
		}
		st.Comma = strings.HasSuffix(e, ",")
		steps = append(steps, st)
	}
	var tops []interface{}
	var sname *Atom
	var cmdName, objArg *Atom
	if kind == "movement" {
		tops = append(tops, &MovementTop{Name: name, Steps: steps})
	} else {
		sname = atoms.New(ClsIdent, "script", "names")
		cmdName = atoms.New(ClsPlainCmd, "cmd", "")
		objArg = atoms.New(ClsIdent, "obj", "")
		var sb strings.Builder
		sb.WriteString(cmdName.Placeholder() + "(" + objArg.Placeholder() + ", moves(")
		for i, s := range steps {
			if i > 0 {
				sb.WriteString(" ")
			}
			sb.WriteString(s.Name.Text())
			if s.Mult != nil {
				sb.WriteString(" * " + s.Mult.Text())
			}
			if s.Comma {
				sb.WriteString(",")
			}
		}
		sb.WriteString("))")
		tops = append(tops, &Script{Name: sname, Body: []Stmt{&RawStmt{Text: sb.String()}}})
	}
	prog := &Program{Atoms: atoms, Tops: tops}
	shape := c14Shape{Kind: kind, Entries: entries}
	cs := &Case{Name: fmt.Sprintf("c14/%s/%v", kind, entries), Prog: prog, Variants: optVariants[:1], NonTrivial: len(entries) > 0, Shape: shape, MaxPaths: 20000}
	cs.Setup = func(x *OracleCtx) {
		x.C.MaxDecide = 16*len(entries) + (unroll+3)*multCount + 40
		x.C.User["unroll"] = unroll
	}
	cs.Oracle = func(x *OracleCtx) *Violation {
		res := x.Res[x.Case.Variants[0].Name]
		if res.Err.Panic != "" {
			return &Violation{Sub: "panic", Msg: res.Err.Panic}
		}
		// multipliers: accept exactly 1..9999
		var copies []int64
		wantErr := false
		for _, s := range steps {
			if s.Mult == nil {
				copies = append(copies, 1)
				continue
			}
			t := s.Mult.A.IntT
			inRange := fmt.Sprintf("(and (>= %s 1) (<= %s 9999))", t, t)
			switch x.C.Valid(inRange) {
			case interp.Unsat: // in range on this path
				n, ok := uniqueInt(x.C, t)
				if !ok {
					if res.Err.IsErr {
						return &Violation{Sub: "multiplier", Query: inRange, Msg: "a multiplier inside 1..9999 was rejected: " + interp.ToString(res.Err.Msg)}
					}
					panic(interp.Inconclusive{Msg: "multiplier not determined by the path condition"})
				}
				copies = append(copies, n)
			default:
				switch x.C.Check(inRange) {
				case interp.Unsat: // out of range on this path
					wantErr = true
				default:
					if res.Err.IsErr {
						return &Violation{Sub: "multiplier", Query: inRange, Msg: "a multiplier inside 1..9999 was rejected: " + interp.ToString(res.Err.Msg)}
					}
					return &Violation{Sub: "multiplier", Query: interp.Not(inRange), Msg: "a multiplier outside 1..9999 was accepted"}
				}
			}
			if wantErr {
				break
			}
		}
		if wantErr {
			if !res.Err.IsErr {
				return &Violation{Sub: "multiplier", Msg: "a multiplier outside 1..9999 was accepted"}
			}
			return nil
		}
		if res.Err.IsErr {
			return &Violation{Sub: "accept", Msg: "a well-formed movement list was rejected: " + interp.ToString(res.Err.Msg)}
		}
		// expected body: copies in order, truncated at the first terminator
		var body []interp.Value
		terminated := false
	outer:
		for i, s := range steps {
			for k := int64(0); k < copies[i]; k++ {
				body = append(body, cat("\t", s.Name.Val()))
				if decideSame(x.C, s.Name.Val(), "step_end") {
					terminated = true
					break outer
				}
			}
		}
		if !terminated {
			body = append(body, "\tstep_end")
		}
		var want []interp.Value
		if kind == "movement" {
			want = append([]interp.Value{cat(name.Val, ":")}, body...)
		} else {
			lbl := cat(sname.Val, "_Movement_0")
			want = []interp.Value{cat(sname.Val, "::"), cat("\t", cmdName.Val, " ", objArg.Val, ", ", lbl), "\treturn", cat(lbl, ":")}
			want = append(want, body...)
		}
		got := nonBlank(outputLines(res.Out, false))
		return expectLines(x, "movement", "output", got, want)
	}
	return cs
}

// c14TwoMovesCase: two moves() in one script with the same steps and
// independent symbolic multipliers at position mulAt: they share one
// movement block exactly when their expansions are equal, and each command
// refers to a block with its own expansion.
func c14TwoMovesCase(stepNames []string, mulAt int, unroll int) *Case {
	atoms := &AtomTable{Coded: true}
	sname := atoms.New(ClsIdent, "script", "names")
	var cmds, objs []*Atom
	var mults []*Atom
	var lines []string
	for u := 0; u < 2; u++ {
		c, o, m := atoms.New(ClsPlainCmd, "cmd", ""), atoms.New(ClsIdent, "obj", ""), atoms.New(ClsNum, "mult", "")
		cmds, objs, mults = append(cmds, c), append(objs, o), append(mults, m)
		var parts []string
		for i, sn := range stepNames {
			if i == mulAt {
				parts = append(parts, sn+" * "+m.Placeholder())
			} else {
				parts = append(parts, sn)
			}
		}
		lines = append(lines, c.Placeholder()+"("+o.Placeholder()+", moves("+strings.Join(parts, " ")+"))")
	}
	prog := &Program{Atoms: atoms, Tops: []interface{}{&Script{Name: sname, Body: []Stmt{&RawStmt{Text: lines[0]}, &RawStmt{Text: lines[1]}}}}}
	cs := &Case{Name: fmt.Sprintf("c14/two-moves/%v/mult@%d", stepNames, mulAt), Prog: prog, Variants: optVariants[:1], NonTrivial: true,
		Shape: c14Shape{Kind: "two-moves", Entries: append(append([]string{}, stepNames...), fmt.Sprintf("multiplier at %d", mulAt))}, MaxPaths: 2000}
	cs.Setup = func(x *OracleCtx) {
		x.C.MaxDecide = 2*(unroll+3) + 60
		x.C.User["unroll"] = unroll
	}
	cs.Oracle = func(x *OracleCtx) *Violation {
		res := x.Res["opt"]
		if res.Err.Panic != "" {
			return &Violation{Sub: "panic", Msg: res.Err.Panic}
		}
		var n [2]int64
		for u := 0; u < 2; u++ {
			t := mults[u].IntT
			inRange := fmt.Sprintf("(and (>= %s 1) (<= %s 9999))", t, t)
			if x.C.Valid(inRange) != interp.Unsat {
				if x.C.Check(inRange) == interp.Unsat {
					if !res.Err.IsErr {
						return &Violation{Sub: "multiplier", Msg: "a multiplier outside 1..9999 was accepted"}
					}
					return nil
				}
				panic(interp.Inconclusive{Msg: "multiplier range not decided on this path"})
			}
			k, ok := uniqueInt(x.C, t)
			if !ok {
				if res.Err.IsErr {
					return &Violation{Sub: "multiplier", Query: inRange, Msg: "a multiplier inside 1..9999 was rejected: " + interp.ToString(res.Err.Msg)}
				}
				panic(interp.Inconclusive{Msg: "multiplier not determined by the path condition"})
			}
			n[u] = k
		}
		if res.Err.IsErr {
			return &Violation{Sub: "accept", Msg: "well-formed moves() were rejected: " + interp.ToString(res.Err.Msg)}
		}
		block := func(k int64) []interp.Value {
			var b []interp.Value
			for i, sn := range stepNames {
				c := int64(1)
				if i == mulAt {
					c = k
				}
				for j := int64(0); j < c; j++ {
					b = append(b, "\t"+sn)
				}
			}
			return append(b, "\tstep_end")
		}
		l0, l1 := cat(sname.Val, "_Movement_0"), cat(sname.Val, "_Movement_1")
		second := l1
		if n[0] == n[1] {
			second = l0
		}
		want := []interp.Value{cat(sname.Val, "::"), cat("\t", cmds[0].Val, " ", objs[0].Val, ", ", l0), cat("\t", cmds[1].Val, " ", objs[1].Val, ", ", second), "\treturn", cat(l0, ":")}
		want = append(want, block(n[0])...)
		if n[0] != n[1] {
			want = append(want, cat(l1, ":"))
			want = append(want, block(n[1])...)
		}
		return expectLines(x, "movement", fmt.Sprintf("two moves() with multipliers %d and %d", n[0], n[1]), nonBlank(outputLines(res.Out, false)), want)
	}
	return cs
}

// c14RepeatVsSuffixCase: 'walk_a * N' in one moves() and the single step
// 'walk_a<d>' in another: whatever N is, the two blocks are different and each
// command gets its own.
func c14RepeatVsSuffixCase(digit string, unroll int) *Case {
	atoms := &AtomTable{Coded: true}
	sname := atoms.New(ClsIdent, "script", "names")
	c1, c2 := atoms.New(ClsPlainCmd, "cmd", ""), atoms.New(ClsPlainCmd, "cmd", "")
	o1, o2 := atoms.New(ClsIdent, "obj", ""), atoms.New(ClsIdent, "obj", "")
	m := atoms.New(ClsNum, "mult", "")
	l1 := c1.Placeholder() + "(" + o1.Placeholder() + ", moves(walk_a * " + m.Placeholder() + "))"
	l2 := c2.Placeholder() + "(" + o2.Placeholder() + ", moves(walk_a" + digit + "))"
	prog := &Program{Atoms: atoms, Tops: []interface{}{&Script{Name: sname, Body: []Stmt{&RawStmt{Text: l1}, &RawStmt{Text: l2}}}}}
	cs := &Case{Name: "c14/two-moves/repeat-vs-step-named-walk_a" + digit, Prog: prog, Variants: optVariants[:1], NonTrivial: true,
		Shape: c14Shape{Kind: "two-moves", Entries: []string{"walk_a * N", "walk_a" + digit}}, MaxPaths: 2000}
	cs.Setup = func(x *OracleCtx) {
		x.C.MaxDecide = (unroll + 3) + 60
		x.C.User["unroll"] = unroll
	}
	cs.Oracle = func(x *OracleCtx) *Violation {
		res := x.Res["opt"]
		if res.Err.Panic != "" {
			return &Violation{Sub: "panic", Msg: res.Err.Panic}
		}
		t := m.IntT
		inRange := fmt.Sprintf("(and (>= %s 1) (<= %s 9999))", t, t)
		if x.C.Valid(inRange) != interp.Unsat {
			if x.C.Check(inRange) == interp.Unsat {
				if !res.Err.IsErr {
					return &Violation{Sub: "multiplier", Msg: "a multiplier outside 1..9999 was accepted"}
				}
				return nil
			}
			panic(interp.Inconclusive{Msg: "multiplier range not decided on this path"})
		}
		n, ok := uniqueInt(x.C, t)
		if !ok {
			if res.Err.IsErr {
				return &Violation{Sub: "multiplier", Query: inRange, Msg: "a multiplier inside 1..9999 was rejected: " + interp.ToString(res.Err.Msg)}
			}
			panic(interp.Inconclusive{Msg: "multiplier not determined by the path condition"})
		}
		if res.Err.IsErr {
			return &Violation{Sub: "accept", Msg: "well-formed moves() were rejected: " + interp.ToString(res.Err.Msg)}
		}
		lb0, lb1 := cat(sname.Val, "_Movement_0"), cat(sname.Val, "_Movement_1")
		want := []interp.Value{cat(sname.Val, "::"), cat("\t", c1.Val, " ", o1.Val, ", ", lb0), cat("\t", c2.Val, " ", o2.Val, ", ", lb1), "\treturn", cat(lb0, ":")}
		for i := int64(0); i < n; i++ {
			want = append(want, "\twalk_a")
		}
		want = append(want, "\tstep_end", cat(lb1, ":"), "\twalk_a"+digit, "\tstep_end")
		return expectLines(x, "movement", fmt.Sprintf("'walk_a * %d' and 'walk_a%s'", n, digit), nonBlank(outputLines(res.Out, false)), want)
	}
	return cs
}

func c14MartCase(entries []string, withConst bool) *Case {
	atoms := &AtomTable{Coded: true}
	name := atoms.New(ClsIdent, "mart", "names")
	var tops []interface{}
	var constName, constVal *Atom
	if withConst {
		constName = atoms.New(ClsIdent, "const", "")
		constVal = atoms.New(ClsIdent, "cv", "")
		tops = append(tops, &ConstTop{Name: A(constName), Value: []Tok{A(constVal)}})
	}
	var items []*Step
	for _, e := range entries {
		if e == "END" {
			items = append(items, &Step{Name: L("ITEM_NONE")})
		} else if strings.HasPrefix(e, "lit:") {
			items = append(items, &Step{Name: L(e[4:])})
		} else {
			items = append(items, &Step{Name: A(atoms.New(ClsIdent, "item", ""))})
		}
	}
	tops = append(tops, &MartTop{Name: name, Items: items})
	prog := &Program{Atoms: atoms, Tops: tops}
	cs := &Case{Name: fmt.Sprintf("c14/mart/%v/const=%v", entries, withConst), Prog: prog, Variants: optVariants[:1], NonTrivial: len(entries) > 0, Shape: c14Shape{Kind: "mart", Entries: entries, Const: withConst}, MaxPaths: 4096}
	cs.Oracle = func(x *OracleCtx) *Violation {
		res := x.Res[x.Case.Variants[0].Name]
		if res.Err.Panic != "" {
			return &Violation{Sub: "panic", Msg: res.Err.Panic}
		}
		if res.Err.IsErr {
			return &Violation{Sub: "accept", Msg: "a well-formed mart list was rejected: " + interp.ToString(res.Err.Msg)}
		}
		want := []interp.Value{"\t.align 2", cat(name.Val, ":")}
		for _, it := range items {
			v := it.Name.Val()
			if constName != nil {
				if decideSame(x.C, v, constName.Val) {
					v = constVal.Val
				}
			}
			if decideSame(x.C, v, "ITEM_NONE") {
				break
			}
			want = append(want, cat("\t.2byte ", v))
		}
		want = append(want, "\t.2byte ITEM_NONE")
		got := trimTrailingEmpty(outputLines(res.Out, false))
		return expectLines(x, "mart", "output", got, want)
	}
	return cs
}

// RunC14 is the check of property C14.
func RunC14(env *Env, rep *Report) {
	maxLen, unroll := 3, 8
	if env.Tier == "thorough" {
		maxLen, unroll = 4, 64
	}
	var cases []*Case
	for _, l := range enumEntryLists(maxLen, []string{"s", "s,", "s*N", "END"}) {
		nm := 0
		for _, e := range l {
			if strings.Contains(e, "*N") {
				nm++
			}
		}
		if nm > 1 && env.Tier != "thorough" || nm > 2 {
			continue
		}
		u := unroll
		if nm > 1 {
			u = 8
		}
		cases = append(cases, c14MovementCase(l, "movement", u))
		if len(l) > 0 && len(l) <= 3 {
			cases = append(cases, c14MovementCase(l, "moves", 4))
		}
	}
	cases = append(cases, c14MovementCase([]string{"s*N,", "s"}, "movement", unroll))
	for _, l := range enumEntryLists(maxLen, []string{"i", "END"}) {
		cases = append(cases, c14MartCase(l, false))
		if len(l) <= 3 {
			cases = append(cases, c14MartCase(l, true))
		}
	}
	// the same with line markers on: the markers must not change which entry
	// is taken for the terminator (the output is compared without its marker lines)
	lmOpt := []Variant{{Name: "lm", Opt: CompileOpts{Optimize: true, LM: true, Path: "maps/in.pory"}}}
	for _, l := range [][]string{{"s", "END", "s"}, {"s", "END"}, {"END"}, {"s", "s"}, {"s*N", "END", "s"}} {
		for _, kind := range []string{"movement", "moves"} {
			cs := c14MovementCase(l, kind, unroll)
			cs.Variants, cs.Name = lmOpt, cs.Name+"/line-markers"
			cases = append(cases, cs)
		}
	}
	for _, l := range [][]string{{"i", "END", "i"}, {"i", "END"}, {"END"}, {"i", "i"}} {
		cs := c14MartCase(l, false)
		cs.Variants, cs.Name = lmOpt, cs.Name+"/line-markers"
		cases = append(cases, cs)
	}
	// names that differ from the terminator only in letter case are ordinary
	// items / steps
	for _, sp := range []string{"Item_None", "item_none", "ITEM_NONe"} {
		cases = append(cases, c14MartCase([]string{"i", "lit:" + sp, "i"}, false), c14MartCase([]string{"lit:" + sp}, false))
	}
	for _, sp := range []string{"Step_End", "STEP_END", "step_enD"} {
		cases = append(cases, c14MovementCase([]string{"s", "lit:" + sp, "s"}, "movement", unroll), c14MovementCase([]string{"lit:" + sp, "s"}, "moves", 4))
	}
	for _, tm := range []struct {
		steps []string
		at    int
	}{{[]string{"walk_a"}, 0}, {[]string{"walk_a", "walk_b"}, 1}, {[]string{"walk_a", "walk_b"}, 0}, {[]string{"walk_a", "walk_b", "walk_a"}, 2}} {
		cases = append(cases, c14TwoMovesCase(tm.steps, tm.at, 3))
	}
	cases = append(cases, c14RepeatVsSuffixCase("2", 3), c14RepeatVsSuffixCase("3", 3), c14RepeatVsSuffixCase("11", 3))
	for _, kind := range []string{"movement", "mart", "moves"} {
		for _, sel := range []string{"empty-brace", "two-brace", "one-colon", "fallback", "terminator-colon"} {
			if kind == "moves" && (sel == "empty-brace" || sel == "two-brace") {
				continue // brace-form cases in moves() are exercised by C12
			}
			cases = append(cases, c14PoryswitchCase(kind, sel))
		}
	}
	rep.Technique = "symbolic execution of the real movement/mart parsers and emitters (go/ssa) with symbolic step/item names and symbolic multipliers; accept/reject boundary and copy counts decided by the solver over the integers (z3)"
	rep.Explanation = "Bounded symbolic verification, not a proof. Every step / item list up to the length bound (entries: step, step with comma, 'step * N', an explicit terminator) in a movement statement, in moves() and in a mart (with and without a constant whose value may be the terminator) is compiled by symbolic execution of the real code; so are scripts with two moves() that have the same steps and independent symbolic multipliers (they must share one block exactly when their expansions are equal). Step and item names are symbolic (whether a name equals step_end / ITEM_NONE is a solver-decided fork), and every multiplier N is an unconstrained symbolic integer: the comparisons N<=0 and N>9999 and the expansion loop's trip count are decisions over N, so the accept/reject boundary is decided for ALL integers and the copy count for N up to the unrolling bound (paths needing more iterations are cut and counted as beyond the bound). Asserted per path: error iff some multiplier is outside 1..9999; otherwise exactly N copies in source order, nothing after the first terminator, exactly one terminator, '.align 2' and '.2byte' form for marts."
	rep.Bounds = map[string]interface{}{"max_list_length": maxLen, "multiplier_unroll": unroll, "max_multipliers_per_list": map[string]int{"quick": 1, "thorough": 2}[env.Tier], "cases": len(cases)}
	rep.Outside = []string{"copy counts above the unrolling bound (65..9999 in the thorough tier)", "longer lists", "poryswitch-selected parts (C12)", "hex / non-canonical multiplier spellings"}
	rep.Assumptions = []string{"step and item names are identifiers other than keywords", "multipliers are canonical decimal integers inside (-10^12, 10^12)"}
	rep.Functions = []string{"parseMovementStatement", "parseMovementValue", "parseMovesOperator", "parseMartStatement", "parseMartValue", "emitMovementStatement", "emitMartStatement", "addImplicitMovements", "getMovementsKey"}
	rep.Match = func(k *KnownFinding, f *Finding) bool { return false }
	src, _ := cases[len(cases)/3].Prog.Render()
	rep.AddSample(map[string]interface{}{"case": cases[len(cases)/3].Name, "source_with_holes": src})
	runWitness(env, rep, "c14-witness-limit", func() *Case {
		cs := c14MovementCase([]string{"s*N"}, "movement", 4)
		cs.Oracle = func(x *OracleCtx) *Violation {
			// twin: claim that multipliers up to 10000 are accepted
			t := cs.Prog.Atoms.Atoms[2].IntT
			if x.Res["opt"].Err.IsErr {
				q := fmt.Sprintf("(and (>= %s 1) (<= %s 10000))", t, t)
				if x.C.Check(q) == interp.Sat {
					return &Violation{Sub: "witness", Query: q, Msg: "rejected inside 1..10000"}
				}
			}
			return nil
		}
		return cs
	})
	env.RunJobs(len(cases), rep, func(w *Worker, i int) { w.RunCase(cases[i], rep) })
}

// c14PoryswitchCase: a list with a poryswitch in the middle; the selected
// case contributes exactly its entries (possibly none).
func c14PoryswitchCase(kind, sel string) *Case {
	atoms := &AtomTable{Coded: true}
	name := atoms.New(ClsUserName, "name", "names")
	key := atoms.New(ClsIdent, "swkey", "")
	val := atoms.New(ClsIdent, "swval", "swvals", "_")
	other := atoms.New(ClsIdent, "swother", "swvals", "_")
	term := map[string]string{"movement": "step_end", "mart": "ITEM_NONE", "moves": "step_end"}[kind]
	mk := func() *Atom { return atoms.New(ClsIdent, "entry", "entries", term) }
	first, last := mk(), mk()
	a1, a2, d1 := mk(), mk(), mk()
	var selCase string
	var selected []*Atom
	caseLabel := val
	switch sel {
	case "empty-brace":
		selCase = " {\n}"
	case "two-brace":
		selCase, selected = " {\n"+a1.Placeholder()+"\n"+a2.Placeholder()+"\n}", []*Atom{a1, a2}
	case "one-colon":
		selCase, selected = ": "+a1.Placeholder(), []*Atom{a1}
	case "fallback":
		caseLabel = other
		selCase, selected = ": "+a1.Placeholder(), []*Atom{d1}
	case "terminator-colon":
		selCase = ": " + term
	}
	src := fmt.Sprintf("%s %s {\n%s\nporyswitch(%s) {\n%s%s\n_: %s\n}\n%s\n}", kind, name.Placeholder(), first.Placeholder(), key.Placeholder(), caseLabel.Placeholder(), selCase, d1.Placeholder(), last.Placeholder())
	var cmdAtom *Atom
	if kind == "moves" {
		cmdAtom = atoms.New(ClsPlainCmd, "cmd", "")
		src = fmt.Sprintf("script %s {\n%s(moves(%s\nporyswitch(%s) {\n%s%s\n_: %s\n}\n%s))\n}", name.Placeholder(), cmdAtom.Placeholder(), first.Placeholder(), key.Placeholder(), caseLabel.Placeholder(), selCase, d1.Placeholder(), last.Placeholder())
	}
	prog := &Program{Atoms: atoms, Tops: []interface{}{&TopRaw{Text: src}}}
	variants := []Variant{{Name: "opt", Opt: CompileOpts{Optimize: true, SwKeys: []Tok{A(key)}, SwVals: []Tok{A(val)}}}}
	cs := &Case{Name: fmt.Sprintf("c14/%s/poryswitch/%s", kind, sel), Prog: prog, Variants: variants, NonTrivial: true, Shape: c14Shape{Kind: kind, Entries: []string{"poryswitch:" + sel}}, MaxPaths: 64}
	cs.Oracle = func(x *OracleCtx) *Violation {
		res := x.Res["opt"]
		if res.Err.IsErr || res.Err.Panic != "" {
			return &Violation{Sub: "accept", Msg: "rejected: " + interp.ToString(res.Err.Msg) + res.Err.Panic}
		}
		entries := append(append([]*Atom{first}, selected...), last)
		if sel == "terminator-colon" {
			entries = []*Atom{first} // the explicit terminator ends the list
		}
		var want []interp.Value
		if kind == "mart" {
			want = append(want, "\t.align 2")
		}
		if kind == "moves" {
			lbl := cat(name.Val, "_Movement_0")
			want = append(want, cat(name.Val, "::"), cat("\t", cmdAtom.Val, " ", lbl), "\treturn", cat(lbl, ":"))
		} else {
			want = append(want, cat(name.Val, ":"))
		}
		for _, e := range entries {
			if kind == "mart" {
				want = append(want, cat("\t.2byte ", e.Val))
			} else {
				want = append(want, cat("\t", e.Val))
			}
		}
		if kind == "mart" {
			want = append(want, "\t.2byte ITEM_NONE")
		} else {
			want = append(want, "\tstep_end")
		}
		return expectLines(x, kind, "output", nonBlank(outputLines(res.Out, false)), want)
	}
	return cs
}
