package checks

// Atoms: symbolic strings constrained to a lexical class (DESIGN.md §3.2),
// and the table that ties skeleton holes, placeholders in the rendered source
// text, SMT variables and (for replay) concrete values together.

import (
	"fmt"
	"regexp"
	"strings"

	"verif/engine/interp"
)

// Class of an atom.
type Class int

const (
	ClsIdent    Class = iota // [A-Za-z_][A-Za-z0-9_]*, not a keyword
	ClsUserName              // Ident that does not imitate generated names (no _<digits> suffix)
	ClsPlainCmd              // Ident that is not a control-flow instruction name
	ClsLine                  // string-literal content: no '"', no newline, no backslash-n sequences that matter
	ClsNum                   // a canonical decimal integer (value = an Int variable)
	ClsPath                  // a file path: printable, no newline, no quote
	ClsFixedTok              // a token with a fixed spelling (keyword, operator, delimiter, illegal char): type and literal symbolic over that set
)

// fixedTokens: token type -> literal, for every token class whose spelling
// is fixed (EOF excluded: it can only end the stream).
var fixedTokens = [][2]string{{"ILLEGAL", "@"}, {"=", "="}, {"==", "=="}, {"!=", "!="}, {"<", "<"}, {">", ">"}, {"<=", "<="}, {">=", ">="},
	{"&&", "&&"}, {"||", "||"}, {"!", "!"}, {"*", "*"}, {",", ","}, {":", ":"}, {"(", "("}, {")", ")"}, {"{", "{"}, {"}", "}"}, {"[", "["}, {"]", "]"},
	{"SCRIPT", "script"}, {"RAW", "raw"}, {"TEXT", "text"}, {"MOVEMENT", "movement"}, {"MART", "mart"}, {"MAPSCRIPTS", "mapscripts"}, {"FORMAT", "format"},
	{"VAR", "var"}, {"FLAG", "flag"}, {"DEFEATED", "defeated"}, {"TRUE", "TRUE"}, {"FALSE", "false"}, {"IF", "if"}, {"ELSE", "else"}, {"ELSEIF", "elif"},
	{"DO", "do"}, {"WHILE", "while"}, {"BREAK", "break"}, {"CONTINUE", "continue"}, {"SWITCH", "switch"}, {"CASE", "case"}, {"DEFAULT", "default"},
	{"GLOBAL", "global"}, {"LOCAL", "local"}, {"PORYSWITCH", "poryswitch"}, {"CONST", "const"}, {"VALUE", "value"}, {"MOVES", "moves"}}

var keywords = []string{"script", "raw", "text", "movement", "mart", "mapscripts", "format", "var", "flag", "defeated",
	"TRUE", "FALSE", "true", "false", "if", "else", "elif", "do", "while", "break", "continue", "switch", "case",
	"default", "global", "local", "poryswitch", "const", "value", "moves"}

// Names with a meaning to the assembly model or to the emitter; ordinary
// command atoms must differ from them (skeletons place them explicitly).
var controlNames = []string{"end", "return", "goto", "call", "goto_if_set", "goto_if_unset", "goto_if_eq", "goto_if_ne",
	"goto_if_lt", "goto_if_le", "goto_if_gt", "goto_if_ge", "goto_if", "call_if_set", "call_if_unset", "call_if_eq",
	"call_if_ne", "call_if_lt", "call_if_le", "call_if_gt", "call_if_ge", "call_if", "compare", "compare_var_to_value",
	"switch", "case", "checktrainerflag", "step_end", "ITEM_NONE", "map_script", "map_script_2"}

const identRe = `(re.++ (re.union (re.range "A" "Z") (re.range "a" "z") (str.to_re "_")) (re.* (re.union (re.range "A" "Z") (re.range "a" "z") (re.range "0" "9") (str.to_re "_"))))`
const digitsSuffixRe = `(re.++ re.all (str.to_re "_") (re.+ (re.range "0" "9")))`

// printable ASCII except '"'
const lineRe = `(re.* (re.union (re.range " " "!") (re.range "#" "~")))`
const pathRe = `(re.+ (re.union (re.range "#" "[") (re.range "]" "~") (str.to_re "!") (str.to_re "\u{5c}")))`

var goIdentRe = regexp.MustCompile(`^[A-Za-z_][A-Za-z0-9_]*$`)
var digitsSuffix = regexp.MustCompile(`_[0-9]+$`)

// Atom is one symbolic hole of a skeleton.
type Atom struct {
	ID    int
	Class Class
	Hint  string
	Group string // atoms of the same non-empty group are pairwise distinct
	// Extra literals this atom must differ from.
	NotLits []string
	// Fixed makes the atom concrete (used by replay and by concrete variants).
	Fixed *string
	// NonEmpty: the atom is not the empty string (a string literal that is
	// followed by another literal: the lexer joins them with a newline only
	// when the text so far is non-empty).
	NonEmpty bool

	// set per path
	TypeVal interp.Value // ClsFixedTok: the token type value
	TypeVar string
	Var   string       // SMT variable (String, or Int for ClsNum)
	Val   interp.Value // the string value standing for this atom (rope or string)
	IntT  string       // ClsNum: Int term
}

// Placeholder is the text standing for the atom in the rendered source.
func (a *Atom) Placeholder() string {
	if a.Class == ClsFixedTok {
		return fmt.Sprintf("zqf%dz", a.ID)
	}
	if a.Class == ClsNum {
		return fmt.Sprintf("77%04d77", a.ID)
	}
	return fmt.Sprintf("zq%dz", a.ID)
}

var placeholderRe = regexp.MustCompile(`zq[0-9]+z`)

// AtomTable owns the atoms of a skeleton.
type AtomTable struct {
	Atoms []*Atom
	// Coded: identifier-class atoms are Int-coded (interp/codes.go) instead
	// of SMT strings.
	Coded bool
}

// identCount: the number of identifier-class atoms.
func (t *AtomTable) identCount() int {
	n := 0
	for _, a := range t.Atoms {
		if a.Fixed == nil && (a.Class == ClsIdent || a.Class == ClsUserName || a.Class == ClsPlainCmd) {
			n++
		}
	}
	return n
}

// New creates an atom.
func (t *AtomTable) New(cls Class, hint, group string, notLits ...string) *Atom {
	a := &Atom{ID: len(t.Atoms), Class: cls, Hint: hint, Group: group, NotLits: notLits}
	t.Atoms = append(t.Atoms, a)
	return a
}

// Declare declares every atom in the solver under the current path and
// asserts its class constraints. With values != nil the atoms are bound to
// those concrete values instead (replay).
func (t *AtomTable) Declare(c *interp.Ctx, values map[int]string) {
	groups := map[string][]string{}
	var gorder []string
	for _, a := range t.Atoms {
		if a.Fixed != nil || values != nil {
			v := ""
			if a.Fixed != nil {
				v = *a.Fixed
			} else {
				v = values[a.ID]
			}
			a.Var = ""
			a.Val = v
			a.IntT = ""
			if a.Class == ClsFixedTok {
				a.TypeVal = v
				for _, tl := range fixedTokens {
					if tl[1] == v {
						a.TypeVal = tl[0]
					}
				}
			}
			if a.Class == ClsNum {
				a.IntT = interp.IntLit(parseInt(v))
			}
			continue
		}
		if a.Class == ClsFixedTok {
			var types, lits []string
			for _, tl := range fixedTokens {
				types, lits = append(types, tl[0]), append(lits, tl[1])
			}
			tv := c.NewEnumCode(fmt.Sprintf("a%dtype", a.ID), types)
			lv := c.NewEnumCode(fmt.Sprintf("a%dlit", a.ID), lits)
			var link []string
			for _, tl := range fixedTokens {
				link = append(link, fmt.Sprintf("(=> (= %s %s) (= %s %s))", tv, interp.IntLit(interp.InternLit(tl[0])), lv, interp.IntLit(interp.InternLit(tl[1]))))
			}
			c.Assume(interp.And(link...))
			a.Var, a.TypeVar = lv, tv
			a.Val, a.TypeVal = interp.CodeRope(lv), interp.CodeRope(tv)
			continue
		}
		if a.Class == ClsNum {
			n := c.NewInt(fmt.Sprintf("a%d%s", a.ID, a.Hint))
			a.Var = n.T
			a.IntT = n.T
			a.Val = interp.IntRope(n.T)
			// keep symbolic numbers well inside int64
			c.Assume(fmt.Sprintf("(and (> %s (- 1000000000000)) (< %s 1000000000000))", n.T, n.T))
			continue
		}
		if t.Coded && (a.Class == ClsIdent || a.Class == ClsUserName || a.Class == ClsPlainCmd) {
			cl := map[Class]byte{ClsIdent: 'I', ClsUserName: 'U', ClsPlainCmd: 'P'}[a.Class]
			name := c.NewCode(cl, fmt.Sprintf("a%d%s", a.ID, a.Hint))
			a.Var = name
			a.Val = interp.CodeRope(name)
			var ts []string
			nots := append([]string{}, a.NotLits...)
			if a.Class == ClsPlainCmd {
				nots = append(nots, controlNames...)
			}
			for _, k := range nots {
				ts = append(ts, fmt.Sprintf("(not (= %s %s))", name, interp.IntLit(interp.InternLit(k))))
			}
			c.Assume(interp.And(ts...))
			if a.Group != "" {
				if _, ok := groups[a.Group]; !ok {
					gorder = append(gorder, a.Group)
				}
				groups[a.Group] = append(groups[a.Group], name)
			}
			continue
		}
		name := c.NewStr(fmt.Sprintf("a%d%s", a.ID, a.Hint))
		a.Var = name
		a.Val = interp.AtomRope(name)
		switch a.Class {
		case ClsIdent, ClsUserName, ClsPlainCmd:
			c.Assume(fmt.Sprintf("(str.in_re %s %s)", name, identRe))
			nots := append([]string{}, keywords...)
			if a.Class == ClsPlainCmd {
				nots = append(nots, controlNames...)
			}
			nots = append(nots, a.NotLits...)
			var ts []string
			for _, k := range nots {
				ts = append(ts, fmt.Sprintf("(not (= %s %s))", name, interp.StrLit(k)))
			}
			c.Assume(interp.And(ts...))
			if a.Class == ClsUserName {
				c.Assume(fmt.Sprintf("(not (str.in_re %s %s))", name, digitsSuffixRe))
			}
			// placeholders themselves are reserved words of the checker
			c.Assume(fmt.Sprintf("(not (str.prefixof \"zq\" %s))", name))
		case ClsLine:
			c.Atoms[name] = &interp.AtomInfo{Name: name, Class: "line", NoBytes: "ctl\""}
			if a.NonEmpty {
				c.Assume(fmt.Sprintf("(> (str.len %s) 0)", name))
			}
			c.Assume(fmt.Sprintf("(str.in_re %s %s)", name, lineRe))
			for _, k := range a.NotLits {
				c.Assume(fmt.Sprintf("(not (= %s %s))", name, interp.StrLit(k)))
			}
			c.Assume(fmt.Sprintf("(not (str.contains %s \"zq\"))", name))
		case ClsPath:
			c.Atoms[name] = &interp.AtomInfo{Name: name, Class: "path", NoBytes: "ctl\" "}
			c.Assume(fmt.Sprintf("(str.in_re %s %s)", name, pathRe))
		}
		if a.Group != "" {
			if _, ok := groups[a.Group]; !ok {
				gorder = append(gorder, a.Group)
			}
			groups[a.Group] = append(groups[a.Group], name)
		}
	}
	for _, g := range gorder {
		if names := groups[g]; len(names) > 1 {
			c.Assume("(distinct " + strings.Join(names, " ") + ")")
		}
	}
}

func parseInt(s string) int64 {
	var n int64
	fmt.Sscanf(s, "%d", &n)
	return n
}

// Placeholders returns the literal -> value map for token symbolisation.
func (t *AtomTable) Placeholders() map[string]interp.Value {
	m := map[string]interp.Value{}
	for _, a := range t.Atoms {
		if a.Class != ClsFixedTok {
			m[a.Placeholder()] = a.Val
		}
	}
	return m
}

// TypePlaceholders returns the literal -> (type, literal) map.
func (t *AtomTable) TypePlaceholders() map[string][2]interp.Value {
	m := map[string][2]interp.Value{}
	for _, a := range t.Atoms {
		if a.Class == ClsFixedTok {
			m[a.Placeholder()] = [2]interp.Value{a.TypeVal, a.Val}
		}
	}
	return m
}

// ModelValues extracts concrete atom values from a model (for replay).
func (t *AtomTable) ModelValues(model map[string]string) (map[int]string, error) {
	res := map[int]string{}
	for _, a := range t.Atoms {
		if a.Var == "" {
			if s, ok := a.Val.(string); ok {
				res[a.ID] = s
			}
			continue
		}
		mv, ok := model[a.Var]
		if !ok {
			return nil, fmt.Errorf("model has no value for %s", a.Var)
		}
		if a.Class == ClsNum {
			n, ok := interp.ParseIntValue(mv)
			if !ok {
				return nil, fmt.Errorf("bad int %s", mv)
			}
			res[a.ID] = fmt.Sprint(n)
			continue
		}
		if a.Class == ClsFixedTok {
			n, ok := interp.ParseIntValue(mv)
			if !ok {
				return nil, fmt.Errorf("bad code %s", mv)
			}
			res[a.ID] = interp.NameOfCode(n)
			continue
		}
		if len(a.Var) > 2 && a.Var[0] == 'c' && a.Var[2] == '_' {
			n, ok := interp.ParseIntValue(mv)
			if !ok {
				return nil, fmt.Errorf("bad code %s", mv)
			}
			name := interp.NameOfCodeVar(a.Var, n, model)
			if !goIdentRe.MatchString(name) || a.Class == ClsUserName && digitsSuffix.MatchString(name) {
				return nil, fmt.Errorf("model gives atom %s the class-invalid name %q", a.Var, name)
			}
			res[a.ID] = name
			continue
		}
		s, ok := interp.ParseStrValue(mv)
		if !ok {
			return nil, fmt.Errorf("bad string %s", mv)
		}
		res[a.ID] = s
	}
	return res, nil
}

// Substitute replaces placeholders in rendered source text by concrete values.
func (t *AtomTable) Substitute(src string, values map[int]string) string {
	// longest IDs first is unnecessary: placeholders are delimited
	for _, a := range t.Atoms {
		v, ok := values[a.ID]
		if !ok {
			continue
		}
		src = strings.ReplaceAll(src, a.Placeholder(), v)
	}
	return src
}

// Vars lists the SMT variables of the atoms.
func (t *AtomTable) Vars() []string {
	var vs []string
	for _, a := range t.Atoms {
		if a.Var != "" {
			vs = append(vs, a.Var)
		}
	}
	return vs
}
