package checks

import (
	"fmt"
	"strings"
	"unicode/utf8"

	"verif/engine/interp"
)

const lexerPkg = RepoPrefix + "/lexer"

// one representative lexeme per token class
var c19Lexemes = []string{"script", "foo", "émotion", "x1", "42", "0x1F", "-5", "0", `"x"`, `ascii"y"`, "(", ")", "{", "}", "[", "]", ",", ":",
	"=", "==", "!=", "!", "<", "<=", ">", ">=", "&&", "||", "*", "&", "|", "-", "`raw text`", "@", `""`, "poryswitch", "ポケ", "_"}

// c19Extra: numbers and identifiers with decimal digits outside ASCII (one
// token each; several bytes per character). Single-lexeme layout jobs and
// the position sub-check.
var c19Extra = []string{"\u0663\u0664", "-\u0663", "1\uff12\uff13", "0\u0663", "x\uff12", "\u00e9\u0663z",
	// characters outside the BMP (4 bytes, one character): in an identifier, a string, a raw string
	"\U0001d400b", "\"\U0001f600 a\"", "`\U0001f600`"}

var c19Reduced = []string{"foo", "42", `"x"`, "(", "==", "`r`", "-", "émotion"}

// layout items; 'C' marks a symbolic comment character
var c19LayoutItems = []string{" ", "\t", "\n", "\r\n", "#C\n", "//C C\n", "#\n"}

type c19Shape struct {
	Sub     string   `json:"sub"`
	Lexemes []string `json:"lexemes"`
	Gap     string   `json:"gap"`
}

// buildInput renders a template in which every 'C' inside a layout item
// becomes a fresh symbolic character (width chosen by cellWidth).
func buildInput(c *interp.Ctx, pieces []string, symbolic []bool, cellWidth func(k int) int) interp.Value {
	var parts []interp.Part
	k := 0
	for i, p := range pieces {
		if !symbolic[i] {
			parts = append(parts, interp.LitPart(p))
			continue
		}
		for _, ch := range p {
			if ch == 'C' {
				w := cellWidth(k)
				k++
				cell := c.NewCell(w, 1, '\n', 0xFFFD)
				parts = append(parts, interp.CellPart(cell))
			} else {
				parts = append(parts, interp.LitPart(string(ch)))
			}
		}
	}
	return interp.MkRope(parts)
}

type tokView struct {
	Type, Lit               interp.Value
	Line, Start, UStart     interp.Value
	EndLine, End, UEnd      interp.Value
}

func tokensOf(v interp.Value) []tokView {
	var res []tokView
	for _, t := range interp.Elems(v) {
		f := interp.Fields(t)
		res = append(res, tokView{f[interp.TokType], f[interp.TokLiteral], f[interp.TokLine], f[interp.TokStartChar], f[interp.TokStartUtf8], f[interp.TokEndLine], f[interp.TokEndChar], f[interp.TokEndUtf8]})
	}
	return res
}

func nativeTokens(w *Worker, src string) ([]map[string]interface{}, string, bool) {
	resp, timedOut, err := w.N.DoPatient(NativeReq{Op: "lex", Src: src}, 5e9)
	if err != nil || timedOut {
		return nil, "timeout or helper failure", false
	}
	if resp.Panic != "" {
		return nil, resp.Panic, false
	}
	var toks []map[string]interface{}
	jsonUnmarshal(resp.Tokens, &toks)
	return toks, "", true
}

// c19Layout: tokens(lexemes joined by gap) == tokens(lexemes joined by " ").
func c19LayoutRun(w *Worker, lexemes []string, gapItems []string, rep *Report) {
	lexFn := w.E.Func(HzPkg, "Lex")
	gap := strings.Join(gapItems, "")
	shape := c19Shape{Sub: "layout", Lexemes: lexemes, Gap: gap}
	var pieces []string
	var symbolic []bool
	pieces, symbolic = append(pieces, gap), append(symbolic, true)
	for _, lx := range lexemes {
		pieces, symbolic = append(pieces, lx), append(symbolic, false)
		pieces, symbolic = append(pieces, gap), append(symbolic, true)
	}
	minimal := strings.Join(lexemes, " ")
	stopped := false
	body := func(c *interp.Ctx) {
		in := buildInput(c, pieces, symbolic, func(k int) int { return []int{1, 2, 1, 3, 4}[k%5] })
		got := tokensOf(w.E.Call(c, lexFn, in))
		want := tokensOf(w.E.Call(c, lexFn, minimal))
		c.User["in"], c.User["got"] = in, got
		if stopped {
			return
		}
		msg := ""
		if len(got) != len(want) {
			msg = fmt.Sprintf("%d tokens with the layout, %d in the minimal rendering", len(got), len(want))
		} else {
			for i := range got {
				if sameValue(c, got[i].Type, want[i].Type) != 1 || sameValue(c, got[i].Lit, want[i].Lit) != 1 {
					msg = fmt.Sprintf("token %d is (%s, %s) with the layout and (%s, %s) in the minimal rendering", i, interp.ToString(got[i].Type), interp.ToString(got[i].Lit), interp.ToString(want[i].Type), interp.ToString(want[i].Lit))
					break
				}
			}
		}
		if msg == "" {
			return
		}
		stopped = true
		_, model := c.CheckModel("true", c.IntVars)
		src, err := interp.Instantiate(in, model)
		f := &Finding{Property: "C19", Case: fmt.Sprintf("c19/layout/%q/%q", lexemes, gap), Sub: "layout", Msg: msg, Sources: map[string]string{"with-layout": src, "minimal": minimal}, Model: model, Shape: shape}
		if err != nil {
			rep.unconfirmed(f)
			return
		}
		a, pa, oka := nativeTokens(w, src)
		b, _, okb := nativeTokens(w, minimal)
		f.Outputs = map[string]string{"with-layout": fmt.Sprint(a, pa), "minimal": fmt.Sprint(b)}
		same := oka && okb && len(a) == len(b)
		if same {
			for i := range a {
				if a[i]["Type"] != b[i]["Type"] || a[i]["Literal"] != b[i]["Literal"] {
					same = false
				}
			}
		}
		if same {
			rep.unconfirmed(f)
			return
		}
		f.Confirmed = true
		rep.violation(f)
	}
	done := func(c *interp.Ctx, r interp.PathResult) {
		if r.Outcome == interp.PathTargetPanic && !stopped {
			stopped = true
			rep.violation(&Finding{Property: "C19", Case: fmt.Sprintf("c19/layout/%q/%q", lexemes, gap), Sub: "layout", Msg: "the lexer panicked: " + r.Msg, Shape: shape, Confirmed: true})
		}
		if r.Outcome == interp.PathDone && !stopped {
			// engine vs native on one model of the path
			in, ok1 := c.User["in"]
			got, ok2 := c.User["got"].([]tokView)
			res, model := c.CheckModel("true", c.IntVars)
			if !ok1 || !ok2 || res != interp.Sat {
				rep.crossSkipped()
				return
			}
			src, err := interp.Instantiate(in, model)
			nt, _, okn := nativeTokens(w, src)
			if err != nil || !okn {
				rep.crossSkipped()
				return
			}
			if len(nt) != len(got) {
				rep.engineMismatch(fmt.Sprintf("lexer on %q: engine %d tokens, native %d", src, len(got), len(nt)))
				return
			}
			for i := range nt {
				lit, err := interp.Instantiate(got[i].Lit, model)
				if err != nil || nt[i]["Type"] != interp.ToString(got[i].Type) || nt[i]["Literal"] != lit {
					rep.engineMismatch(fmt.Sprintf("lexer on %q: token %d engine (%s,%q) native (%v,%v)", src, i, interp.ToString(got[i].Type), lit, nt[i]["Type"], nt[i]["Literal"]))
					return
				}
			}
			rep.crossOK()
		}
	}
	st, hit := w.E.Explore(w.S, 256, body, done)
	rep.addExplore(nil, st, hit)
}

// c19CRLFRun: a source with CRLF line ends - also inside a string literal that
// wraps onto the next line and inside a raw section - lexes to the same
// (type, literal) sequence as the same source with LF line ends. 'C' in a
// piece is a symbolic character (not a quote, backslash, backtick or line end).
func c19CRLFRun(w *Worker, pieces []string, rep *Report) {
	lexFn := w.E.Func(HzPkg, "Lex")
	shape := c19Shape{Sub: "crlf", Lexemes: pieces}
	stopped := false
	name := fmt.Sprintf("c19/crlf/%q", strings.Join(pieces, ""))
	body := func(c *interp.Ctx) {
		var crlf, lf []interp.Part
		k := 0
		for _, p := range pieces {
			if p == "\r\n" {
				crlf, lf = append(crlf, interp.LitPart("\r\n")), append(lf, interp.LitPart("\n"))
				continue
			}
			for _, ch := range p {
				if ch == 'C' {
					cell := c.NewCell([]int{1, 2, 3}[k%3], 1, '\n', '\r', '"', '\\', '`', 0xFFFD)
					k++
					crlf, lf = append(crlf, interp.CellPart(cell)), append(lf, interp.CellPart(cell))
				} else {
					crlf, lf = append(crlf, interp.LitPart(string(ch))), append(lf, interp.LitPart(string(ch)))
				}
			}
		}
		in1, in2 := interp.MkRope(crlf), interp.MkRope(lf)
		got := tokensOf(w.E.Call(c, lexFn, in1))
		want := tokensOf(w.E.Call(c, lexFn, in2))
		if stopped {
			return
		}
		msg := ""
		if len(got) != len(want) {
			msg = fmt.Sprintf("%d tokens with CRLF line ends, %d with LF", len(got), len(want))
		} else {
			for i := range got {
				if sameValue(c, got[i].Type, want[i].Type) != 1 || sameValue(c, got[i].Lit, want[i].Lit) != 1 {
					msg = fmt.Sprintf("token %d is (%s, %s) with CRLF line ends and (%s, %s) with LF", i, interp.ToString(got[i].Type), interp.ToString(got[i].Lit), interp.ToString(want[i].Type), interp.ToString(want[i].Lit))
					break
				}
			}
		}
		if msg == "" {
			rep.crossOK()
			return
		}
		stopped = true
		_, model := c.CheckModel("true", c.IntVars)
		s1, err1 := interp.Instantiate(in1, model)
		s2, err2 := interp.Instantiate(in2, model)
		f := &Finding{Property: "C19", Case: name, Sub: "crlf", Msg: msg, Sources: map[string]string{"crlf": s1, "lf": s2}, Model: model, Shape: shape}
		if err1 != nil || err2 != nil {
			rep.unconfirmed(f)
			return
		}
		a, _, oka := nativeTokens(w, s1)
		b, _, okb := nativeTokens(w, s2)
		f.Outputs = map[string]string{"crlf": fmt.Sprint(a), "lf": fmt.Sprint(b)}
		same := oka && okb && len(a) == len(b)
		if same {
			for i := range a {
				if a[i]["Type"] != b[i]["Type"] || a[i]["Literal"] != b[i]["Literal"] {
					same = false
				}
			}
		}
		if same {
			rep.unconfirmed(f)
			return
		}
		f.Confirmed = true
		rep.violation(f)
	}
	st, hit := w.E.Explore(w.S, 256, body, func(c *interp.Ctx, r interp.PathResult) {
		if r.Outcome == interp.PathTargetPanic && !stopped {
			stopped = true
			rep.violation(&Finding{Property: "C19", Case: name, Sub: "crlf", Msg: "the lexer panicked: " + r.Msg, Shape: shape, Confirmed: true})
		}
	})
	rep.addExplore(nil, st, hit)
}

var c19CRLFInputs = [][]string{
	{"text T {", "\r\n", "\"abC", "\r\n", " cd$\"", "\r\n", "}"},
	{"\"aC", "\r\n", "\t  bC", "\r\n", "c\"", " x"},
	{"cmd(\"C one", "\r\n", "two\", ascii\"C", "\r\n", "   z\")", "\r\n"},
	{"\"a\"", "\r\n", "\"bC\"", "\r\n", "\"c\""},
	{"foo # C", "\r\n", "bar // C", "\r\n", "\r\n", "baz"},
	{"format(\"C a", "\r\n", "b\", 100)"},
}

// c19Positions: one NextToken from a lexer whose position counters are
// arbitrary (line L, byte column C, character column U of the current
// character), on gap+lexeme+" z".
func c19PositionRun(w *Worker, lexeme, gap string, fieldIdx map[string]int, rep *Report) {
	newFn := w.E.Func(lexerPkg, "New")
	nextFn := w.E.Method(lexerPkg, "Lexer", "NextToken")
	shape := c19Shape{Sub: "positions", Lexemes: []string{lexeme}, Gap: gap}
	src := gap + lexeme + " z"
	firstSize := 1
	if r, n := utf8.DecodeRuneInString(src); r != utf8.RuneError {
		firstSize = n
	}
	stopped := false
	body := func(c *interp.Ctx) {
		L, C, U := c.NewInt("line"), c.NewInt("col"), c.NewInt("ucol")
		c.Assume(fmt.Sprintf("(and (>= %s 1) (<= %s 1000000) (>= %s 0) (<= %s 1000000) (>= %s 0) (<= %s %s))", L.T, L.T, C.T, C.T, U.T, U.T, C.T))
		// the counters' representation invariant: U characters make up the C
		// bytes (1..3 bytes each here, the last one being the blank the
		// replay's prefix ends in); C = 0 exactly when U = 0
		c.Assume(fmt.Sprintf("(or (and (= %s 0) (= %s 0)) (and (>= %s 1) (<= %s (- (* 3 %s) 2))))", C.T, U.T, U.T, C.T, U.T))
		lx := w.E.Call(c, newFn, src)
		plus := func(v interp.SymInt, k int) interp.Value {
			return interp.SymInt{T: fmt.Sprintf("(+ %s %d)", v.T, k), Kind: 2}
		}
		interp.SetField(lx, fieldIdx["lineNumber"], L)
		interp.SetField(lx, fieldIdx["prevCharNumber"], C)
		interp.SetField(lx, fieldIdx["prevUtf8CharNumber"], U)
		interp.SetField(lx, fieldIdx["charNumber"], plus(C, firstSize))
		interp.SetField(lx, fieldIdx["utf8CharNumber"], plus(U, 1))
		tok := interp.Fields(w.E.Call(c, nextFn, lx))
		c.User["tok"], c.User["LCU"] = tok, []string{L.T, C.T, U.T}
		if stopped {
			return
		}
		// expected position of the lexeme's first character
		nl := strings.Count(gap, "\n")
		var wantLine, wantStart, wantUStart string
		if nl == 0 {
			wantLine = L.T
			wantStart = fmt.Sprintf("(+ %s %d)", C.T, len(gap))
			wantUStart = fmt.Sprintf("(+ %s %d)", U.T, utf8.RuneCountInString(gap))
		} else {
			tail := gap[strings.LastIndex(gap, "\n")+1:]
			wantLine = fmt.Sprintf("(+ %s %d)", L.T, nl)
			wantStart = fmt.Sprint(len(tail))
			wantUStart = fmt.Sprint(utf8.RuneCountInString(tail))
		}
		// the token's own source text (a STRINGTYPE token covers the prefix only)
		text := lexeme
		if i := strings.IndexByte(lexeme, '"'); i > 0 {
			text = lexeme[:i]
		}
		checks := []struct {
			what string
			got  interp.Value
			want string
		}{
			{"line", tok[interp.TokLine], wantLine},
			{"start column (bytes)", tok[interp.TokStartChar], wantStart},
			{"start column (characters)", tok[interp.TokStartUtf8], wantUStart},
		}
		ownEnd := !strings.HasPrefix(lexeme, "`") && !strings.Contains(text, "\n")
		if ownEnd {
			checks = append(checks,
				struct {
					what string
					got  interp.Value
					want string
				}{"end line", tok[interp.TokEndLine], wantLine},
				struct {
					what string
					got  interp.Value
					want string
				}{"end column (bytes) = start + length", tok[interp.TokEndChar], fmt.Sprintf("(+ %s %d)", wantStart, len(text))},
				struct {
					what string
					got  interp.Value
					want string
				}{"end column (characters) = start + length", tok[interp.TokEndUtf8], fmt.Sprintf("(+ %s %d)", wantUStart, utf8.RuneCountInString(text))})
		}
		// the token after it ("z"): its position shows whether the step left the
		// counters in a state that again locates the current character
		var zl, zs, zu string
		if len(tok) > interp.TokLine {
			var ztok []interp.Value
			for k := 0; k < 4; k++ {
				t2 := interp.Fields(w.E.Call(c, nextFn, lx))
				if lit, ok := t2[interp.TokLiteral].(string); ok && lit == "z" {
					ztok = t2
					break
				}
			}
			if ztok != nil {
				before := gap + lexeme + " "
				if n := strings.Count(before, "\n"); n == 0 {
					zl, zs, zu = L.T, fmt.Sprintf("(+ %s %d)", C.T, len(before)), fmt.Sprintf("(+ %s %d)", U.T, utf8.RuneCountInString(before))
				} else {
					tail := before[strings.LastIndex(before, "\n")+1:]
					zl, zs, zu = fmt.Sprintf("(+ %s %d)", L.T, n), fmt.Sprint(len(tail)), fmt.Sprint(utf8.RuneCountInString(tail))
				}
				checks = append(checks,
					struct {
						what string
						got  interp.Value
						want string
					}{"line of the following token z", ztok[interp.TokLine], zl},
					struct {
						what string
						got  interp.Value
						want string
					}{"start column (bytes) of the following token z", ztok[interp.TokStartChar], zs},
					struct {
						what string
						got  interp.Value
						want string
					}{"start column (characters) of the following token z", ztok[interp.TokStartUtf8], zu})
			}
		}
		nOwn := len(checks)
		for _, ch := range checks {
			eq := fmt.Sprintf("(= %s %s)", interp.IntTerm(ch.got), ch.want)
			switch c.Valid(eq) {
			case interp.Unsat:
				continue
			case interp.Unknown:
				panic(interp.Inconclusive{Msg: "solver unknown in position check"})
			}
			stopped = true
			// Confirmation on the native lexer: realise the havocked position
			// with a prefix of L-1 newlines and C bytes / U characters.
			_, model := c.CheckModel(interp.And(interp.Not(eq), fmt.Sprintf("(<= %s 50)", L.T), fmt.Sprintf("(<= %s 60)", C.T)), c.IntVars)
			f := &Finding{Property: "C19", Case: fmt.Sprintf("c19/positions/%q/%q", gap, lexeme), Sub: "positions", Shape: shape, Model: model,
				Msg: fmt.Sprintf("%s of token %q (after layout %q) is %s, its first character is at %s (L, C, U = line / byte column / character column of the position where lexing resumed)", ch.what, lexeme, gap, interp.ToString(ch.got), ch.want)}
			lv, _ := interp.EvalInt(L.T, model)
			cv, _ := interp.EvalInt(C.T, model)
			uv, _ := interp.EvalInt(U.T, model)
			prefix, ok := positionPrefix(int(lv), int(cv), int(uv))
			if !ok {
				rep.unconfirmed(f)
				return
			}
			full := prefix + src
			f.Sources = map[string]string{"source": full}
			toks, p, ok := nativeTokens(w, full)
			if !ok {
				f.Outputs = map[string]string{"panic": p}
				rep.unconfirmed(f)
				return
			}
			// the token of interest is the first one after the prefix's tokens
			nPrefix := 0
			if cv > 0 {
				nPrefix = 1
			}
			if nPrefix >= len(toks) {
				rep.unconfirmed(f)
				return
			}
			t := toks[nPrefix]
			f.Outputs = map[string]string{"token": fmt.Sprint(t)}
			if strings.Contains(ch.what, "following token z") {
				// compare the native position of the token z
				var zt map[string]interface{}
				for _, nt := range toks {
					if nt["Literal"] == "z" && nt["Type"] == "IDENT" {
						zt = nt
					}
				}
				if zt == nil {
					rep.unconfirmed(f)
					return
				}
				f.Outputs["following token"] = fmt.Sprint(zt)
				el, _ := interp.EvalInt(zl, model)
				es, _ := interp.EvalInt(zs, model)
				eu, _ := interp.EvalInt(zu, model)
				if int64(zt["LineNumber"].(float64)) == el && int64(zt["StartCharIndex"].(float64)) == es && int64(zt["StartUtf8CharIndex"].(float64)) == eu {
					rep.unconfirmed(f)
					return
				}
				f.Confirmed = true
				rep.violation(f)
				return
			}
			wl, _ := interp.EvalInt(wantLine, model)
			ws, _ := interp.EvalInt(wantStart, model)
			wu, _ := interp.EvalInt(wantUStart, model)
			okTok := int64(t["LineNumber"].(float64)) == wl && int64(t["StartCharIndex"].(float64)) == ws && int64(t["StartUtf8CharIndex"].(float64)) == wu
			if nOwn > 3 && len(checks) > 3 && ownEnd {
				okTok = okTok && int64(t["EndCharIndex"].(float64)) == ws+int64(len(text)) && int64(t["EndUtf8CharIndex"].(float64)) == wu+int64(utf8.RuneCountInString(text)) && int64(t["EndLineNumber"].(float64)) == wl
			}
			if okTok {
				rep.unconfirmed(f)
				return
			}
			f.Confirmed = true
			rep.violation(f)
			return
		}
	}
	done := func(c *interp.Ctx, r interp.PathResult) {
		if r.Outcome != interp.PathDone || stopped {
			return
		}
		tok, ok1 := c.User["tok"].([]interp.Value)
		lcu, ok2 := c.User["LCU"].([]string)
		if !ok1 || !ok2 {
			rep.crossSkipped()
			return
		}
		// a realisable position: line 3, a 2-byte and a 1-byte letter and a space before
		res, model := c.CheckModel(fmt.Sprintf("(and (= %s 3) (= %s 4) (= %s 3))", lcu[0], lcu[1], lcu[2]), c.IntVars)
		if res != interp.Sat {
			rep.crossSkipped()
			return
		}
		prefix, _ := positionPrefix(3, 4, 3)
		nt, _, okn := nativeTokens(w, prefix+src)
		if !okn || len(nt) < 2 {
			rep.crossSkipped()
			return
		}
		t := nt[1]
		for _, f := range []struct {
			name string
			idx  int
		}{{"LineNumber", interp.TokLine}, {"StartCharIndex", interp.TokStartChar}, {"StartUtf8CharIndex", interp.TokStartUtf8}, {"EndLineNumber", interp.TokEndLine}, {"EndCharIndex", interp.TokEndChar}, {"EndUtf8CharIndex", interp.TokEndUtf8}} {
			ev, err := interp.EvalInt(interp.IntTerm(tok[f.idx]), model)
			if err != nil || int64(t[f.name].(float64)) != ev {
				// The havocked pre-state assumes the representation invariant of
				// the position counters. If the natively reached state differs,
				// either the real lexer does not maintain that invariant - then
				// the native positions themselves are checked against the source
				// text - or the engine is wrong.
				full := prefix + src
				lines := strings.Split(full, "\n")
				ln := int(t["LineNumber"].(float64))
				sb, su := int(t["StartCharIndex"].(float64)), int(t["StartUtf8CharIndex"].(float64))
				lit, _ := t["Literal"].(string)
				okNative := ln >= 1 && ln <= len(lines) && sb <= len(lines[ln-1]) && strings.HasPrefix(lines[ln-1][sb:], firstPiece(lexeme)) && utf8.RuneCountInString(lines[ln-1][:sb]) == su
				if !okNative && !stopped {
					stopped = true
					rep.violation(&Finding{Property: "C19", Case: fmt.Sprintf("c19/positions/%q/%q", gap, lexeme), Sub: "positions", Shape: shape, Confirmed: true,
						Msg:     fmt.Sprintf("on the native lexer token %q of %q is reported at line %d, byte column %d, character column %d, which does not locate its first character", lit, full, ln, sb, su),
						Sources: map[string]string{"source": full}, Outputs: map[string]string{"token": fmt.Sprint(t)}})
					return
				}
				rep.engineMismatch(fmt.Sprintf("lexer positions on %q: %s engine %d native %v", prefix+src, f.name, ev, t[f.name]))
				return
			}
		}
		rep.crossOK()
	}
	st, hit := w.E.Explore(w.S, 64, body, done)
	rep.addExplore(nil, st, hit)
}

// positionPrefix builds source text after which the lexer is on line L with
// byte column C and character column U: L-1 newlines, then one identifier of
// C bytes and U characters followed by... the identifier must end exactly at
// column C, so the lexeme under test follows it directly after a space that
// is part of the counted columns.
func positionPrefix(L, C, U int) (string, bool) {
	if L < 1 || U > C || C > 0 && U == 0 {
		return "", false
	}
	p := strings.Repeat("\n", L-1)
	if C == 0 {
		return p, true
	}
	// C bytes / U characters ending in a space: (U-1) letters then a space
	bytesLeft, chars := C-1, U-1
	if chars == 0 {
		if bytesLeft != 0 {
			return "", false
		}
		return p + " ", true
	}
	// use k 3-byte letters, m 2-byte letters and the rest 1-byte letters
	extra := bytesLeft - chars
	if extra < 0 || extra > 2*chars {
		return "", false
	}
	var sb strings.Builder
	for i := 0; i < chars; i++ {
		switch {
		case extra >= 2:
			sb.WriteString("ポ")
			extra -= 2
		case extra == 1:
			sb.WriteString("é")
			extra--
		default:
			sb.WriteString("a")
		}
	}
	return p + sb.String() + " ", true
}

// RunC19 is the check of property C19.
func RunC19(env *Env, rep *Report) {
	fields := map[string]int{}
	probe := interp.NewEngine(env.P)
	missing := []string{}
	for _, f := range []string{"lineNumber", "prevCharNumber", "charNumber", "prevUtf8CharNumber", "utf8CharNumber"} {
		fields[f] = probe.FieldIndex(lexerPkg, "Lexer", f)
		if fields[f] < 0 {
			missing = append(missing, f)
		}
	}
	// gaps: sequences of up to 2 layout items
	var gaps [][]string
	for _, a := range c19LayoutItems {
		gaps = append(gaps, []string{a})
	}
	maxGap := 2
	if env.Tier == "thorough" {
		maxGap = 3
	}
	for _, a := range c19LayoutItems {
		for _, b := range c19LayoutItems {
			gaps = append(gaps, []string{a, b})
			if maxGap >= 3 {
				for _, d := range []string{" ", "\n", "#C\n", "//C C\n"} {
					gaps = append(gaps, []string{a, b, d})
				}
			}
		}
	}
	type job struct {
		lex []string
		gap []string
		pos bool
		g   string
	}
	var jobs []job
	for _, a := range append(append([]string{}, c19Lexemes...), c19Extra...) {
		for _, g := range gaps {
			jobs = append(jobs, job{lex: []string{a}, gap: g})
		}
	}
	pairGaps := gaps
	if env.Tier != "thorough" {
		pairGaps = gaps[:len(c19LayoutItems)+14]
	}
	for _, a := range c19Lexemes {
		for _, b := range c19Lexemes {
			for gi, g := range pairGaps {
				if env.Tier != "thorough" && (gi+len(a)+len(b))%3 != 0 {
					continue
				}
				jobs = append(jobs, job{lex: []string{a, b}, gap: g})
			}
		}
	}
	for _, a := range c19Reduced {
		for _, b := range c19Reduced {
			for _, d := range c19Reduced {
				for _, g := range gaps[:len(c19LayoutItems)] {
					jobs = append(jobs, job{lex: []string{a, b, d}, gap: g})
				}
			}
		}
	}
	// adjacent string literals are ONE token for the lexer: layout between
	// them is layout inside a token, which the property does not speak about
	endsStr := func(s string) bool { return strings.HasSuffix(s, "\"") }
	startsStr := func(s string) bool { return strings.HasPrefix(s, "\"") }
	kept := jobs[:0]
	for _, j := range jobs {
		ok := true
		for i := 0; i+1 < len(j.lex); i++ {
			if endsStr(j.lex[i]) && startsStr(j.lex[i+1]) {
				ok = false
			}
		}
		if ok {
			kept = append(kept, j)
		}
	}
	jobs = kept
	nLayout := len(jobs)
	if len(missing) == 0 {
		// positions also after raw sections and strings with multi-byte text
		// and line breaks inside (the state they leave behind is checked through
		// the position of the token that follows)
		posLexemes := append(append(append([]string{}, c19Lexemes...), c19Extra...), "`é`", "`a\né ポ`", "`\n`", "\"é ポ\"", "\"a\n é\"")
		for _, lx := range posLexemes {
			for _, g := range []string{"", " ", "\t  ", "\n", "\r\n ", "# c\n", "// é\n  ", "  #x\n\n\t", "\n\n"} {
				jobs = append(jobs, job{lex: []string{lx}, pos: true, g: g})
			}
		}
	} else {
		rep.note(fmt.Sprintf("position sub-check NOT RUN: lexer fields %v not found (renamed?)", missing))
	}
	rep.Technique = "symbolic execution of the real lexer (go/ssa): comment characters symbolic for layout independence; position counters havocked to arbitrary line/column values for one NextToken step, position equalities decided by the solver (z3 LIA)"
	rep.Explanation = "Bounded symbolic verification, not a proof. (a) Layout independence: for lexeme lists (one representative per token class incl. multi-byte identifiers, hex, negative numbers, string-type prefixes, raw strings, lone '-', '&', '|') of length 1, 2 (all pairs) and 3 (reduced set), the real lexer is executed symbolically on the list joined by every layout gap of up to the stated number of items over {space, tab, LF, CRLF, '#...', '//...'} - the characters inside comments are symbolic source characters of 1..4 bytes - and on the single-space rendering; the (type, literal) sequences must be equal. (b) Positions for every line/column: one NextToken step is executed from a lexer whose five position counters are set (by field name, inside the engine) to arbitrary values L, C, U - the line, byte column and character column at which lexing resumes - for every lexeme after each of 9 layout prefixes; start line/columns must equal the position of the lexeme's first character and, for single-line tokens other than raw strings, end = start + length, as validity queries over all L, C, U (one inductive step instead of enumerating file prefixes). (c) CRLF: sources with CRLF line ends between tokens, after comments and inside string literals that wrap onto the next line (with symbolic characters in the strings and comments) lex to the same (type, literal) sequence as the same source with LF line ends."
	rep.Bounds = map[string]interface{}{"lexemes": c19Lexemes, "layout_items": c19LayoutItems, "max_gap_items": maxGap, "layout_cases": nLayout, "position_cases": len(jobs) - nLayout}
	rep.Outside = []string{"lexeme lists longer than 3", "non-ASCII characters other than the representative set (2-, 3- and 4-byte letters, digits, spaces, symbols)", "the end column of raw strings (excluded by the property)", "'hence the compiled output does not change' is not re-checked here (the parser only sees the token stream)"}
	rep.Outside = append(rep.Outside, "line ends inside raw sections (their content is verbatim by design, CR included)", "layout between two adjacent string literals (the lexer merges them into one token, so that layout is inside a token)")
	rep.Assumptions = []string{"representation invariant of the havocked lexer state: charNumber = C + size of the current character, utf8CharNumber = U + 1, prev* = C / U, 0 <= U <= C", "Unicode classification of non-ASCII characters is taken from the host's tables for the representative characters"}
	rep.Functions = []string{"lexer."}
	rep.Match = func(k *KnownFinding, f *Finding) bool { return false }
	rep.AddSample(map[string]interface{}{"layout_case": map[string]interface{}{"lexemes": jobs[len(jobs)/3].lex, "gap": strings.Join(jobs[len(jobs)/3].gap, "")}, "position_case": "NextToken from (L, C, U) symbolic on gap+lexeme"})
	// reachability witness: a twin claiming that every token starts at column C
	wit := false
	env.RunJobs(1, rep, func(w *Worker, i int) {
		newFn := w.E.Func(lexerPkg, "New")
		nextFn := w.E.Method(lexerPkg, "Lexer", "NextToken")
		w.E.Explore(w.S, 8, func(c *interp.Ctx) {
			C := c.NewInt("col")
			c.Assume(fmt.Sprintf("(>= %s 0)", C.T))
			lx := w.E.Call(c, newFn, "  foo")
			if len(missing) == 0 {
				interp.SetField(lx, fields["prevCharNumber"], C)
				interp.SetField(lx, fields["charNumber"], interp.SymInt{T: fmt.Sprintf("(+ %s 1)", C.T), Kind: 2})
			}
			tok := interp.Fields(w.E.Call(c, nextFn, lx))
			if c.Valid(fmt.Sprintf("(= %s %s)", interp.IntTerm(tok[interp.TokStartChar]), C.T)) != interp.Unsat {
				wit = true
			}
		}, nil)
	})
	rep.Witness("c19-witness-start-column", wit || len(missing) > 0)
	env.RunJobs(len(jobs), rep, func(w *Worker, i int) {
		rep.mu.Lock()
		rep.Cases++
		rep.NonTrivial++
		rep.mu.Unlock()
		j := jobs[i]
		if j.pos {
			c19PositionRun(w, j.lex[0], j.g, fields, rep)
		} else {
			c19LayoutRun(w, j.lex, j.gap, rep)
		}
	})
	env.RunJobs(len(c19CRLFInputs), rep, func(w *Worker, i int) {
		rep.mu.Lock()
		rep.Cases++
		rep.NonTrivial++
		rep.mu.Unlock()
		c19CRLFRun(w, c19CRLFInputs[i], rep)
	})
}

// firstPiece is the source text with which the token of a lexeme starts.
func firstPiece(lexeme string) string {
	if i := strings.IndexByte(lexeme, '"'); i > 0 {
		return lexeme[:i]
	}
	return lexeme
}
