package checks

import (
	"fmt"
	"strings"

	"verif/engine/interp"
)

type c20Shape struct {
	Template string `json:"template"`
}

// c20Tpl is one program template with an injected (possibly conditional)
// violation.
type c20Tpl struct {
	name   string
	atoms  *AtomTable
	src    func() string               // source with placeholders; line numbers are 1-based in this text
	bad    func(x *OracleCtx) interp.Value // bool/SymBool: the program is ill-formed
	line   int                         // line of the offending construct
	avs    []AVSpec
	sw     [][2]Tok
	extra  func(x *OracleCtx)
	// badV, when set, replaces bad per variant; maybe marks inputs on which the
	// property does not fix the outcome for that variant (a name equal to the
	// label of a chunk whose label is not emitted under that setting)
	badV  func(x *OracleCtx, variant string) interp.Value
	maybe func(x *OracleCtx, variant string) interp.Value
}

func lines(ls ...string) string { return strings.Join(ls, "\n") }

func c20Templates() []*c20Tpl {
	var res []*c20Tpl
	add := func(name string, build func(t *c20Tpl)) {
		t := &c20Tpl{name: name, atoms: &AtomTable{Coded: true}}
		build(t)
		res = append(res, t)
	}
	always := func(x *OracleCtx) interp.Value { return true }
	ph := func(a *Atom) string { return a.Placeholder() }
	// ---- break / continue
	for _, v := range []struct {
		name string
		body []string
		line int
	}{
		{"break-top", []string{"  zcmd", "  break", "  zcmd2"}, 3},
		{"break-in-if", []string{"  if (flag(zflag)) {", "    break", "  }"}, 3},
		{"break-after-closed-loop", []string{"  while (flag(zflag)) {", "    zcmd", "  }", "  break"}, 5},
		{"break-after-closed-switch", []string{"  switch (var(zflag)) {", "    case 1:", "      zcmd", "  }", "  break"}, 6},
		{"continue-top", []string{"  continue", "  zcmd"}, 2},
		{"continue-in-switch", []string{"  switch (var(zflag)) {", "    case 1:", "      continue", "  }"}, 4},
		{"continue-after-closed-loop", []string{"  do {", "    zcmd", "  } while (flag(zflag))", "  if (flag(zflag)) {", "    continue", "  }"}, 6},
		{"continue-not-last", []string{"  while (flag(zflag)) {", "    continue", "    zcmd", "  }"}, 3},
		{"continue-not-last-in-case-body", []string{"  while (flag(zflag)) {", "    switch (var(zflag)) {", "      case 1:", "        continue", "        zcmd", "    }", "  }"}, 5},
		{"continue-not-last-in-default-body", []string{"  do {", "    switch (var(zflag)) {", "      default:", "        zcmd", "        continue", "        zcmd2", "      case 2:", "        zcmd", "    }", "  } while (flag(zflag))"}, 6},
		{"continue-not-last-nested", []string{"  while (flag(zflag)) {", "    if (flag(zflag)) {", "      continue", "      zcmd", "    }", "  }"}, 4},
	} {
		v := v
		add(v.name, func(t *c20Tpl) {
			s := t.atoms.New(ClsUserName, "script", "names")
			f := t.atoms.New(ClsIdent, "flag", "")
			c1 := t.atoms.New(ClsPlainCmd, "cmd", "")
			c2 := t.atoms.New(ClsPlainCmd, "cmd", "")
			t.src = func() string {
				b := strings.Join(v.body, "\n")
				b = strings.ReplaceAll(b, "zflag", ph(f))
				b = strings.ReplaceAll(b, "zcmd2", ph(c2))
				b = strings.ReplaceAll(b, "zcmd", ph(c1))
				return lines("script "+ph(s)+" {", b, "}")
			}
			t.bad, t.line = always, v.line
		})
	}
	add("break-in-inline-mapscript", func(t *c20Tpl) {
		m := t.atoms.New(ClsUserName, "map", "names")
		ty := t.atoms.New(ClsIdent, "mstype", "")
		c := t.atoms.New(ClsPlainCmd, "cmd", "")
		t.src = func() string {
			return lines("mapscripts "+ph(m)+" {", "  "+ph(ty)+" {", "    "+ph(c), "    break", "  }", "}")
		}
		t.bad, t.line = always, 4
	})
	add("break-in-poryswitch-case", func(t *c20Tpl) {
		s := t.atoms.New(ClsUserName, "script", "names")
		k := t.atoms.New(ClsIdent, "swkey", "")
		v := t.atoms.New(ClsIdent, "swval", "", "_")
		t.sw = [][2]Tok{{A(k), A(v)}}
		t.src = func() string {
			return lines("script "+ph(s)+" {", "  poryswitch("+ph(k)+") {", "    "+ph(v)+" {", "      break", "    }", "    _: end", "  }", "}")
		}
		t.bad, t.line = always, 4
	})
	// ---- switch: duplicate cases, two defaults
	add("duplicate-case-numbers", func(t *c20Tpl) {
		s := t.atoms.New(ClsUserName, "script", "names")
		vv := t.atoms.New(ClsIdent, "var", "")
		n1 := t.atoms.New(ClsNum, "case", "")
		n2 := t.atoms.New(ClsNum, "case", "")
		n3 := t.atoms.New(ClsNum, "case", "")
		c := t.atoms.New(ClsPlainCmd, "cmd", "")
		t.src = func() string {
			return lines("script "+ph(s)+" {", "  switch (var("+ph(vv)+")) {", "    case "+ph(n1)+":", "      "+ph(c), "    case "+ph(n2)+":", "    case "+ph(n3)+":", "      "+ph(c), "  }", "}")
		}
		// the first duplicate in source order decides the reported line; keep it
		// unambiguous: n1 and n2 are distinct, n3 may equal either
		t.bad = func(x *OracleCtx) interp.Value {
			return interp.SymBool{T: fmt.Sprintf("(or (= %s %s) (= %s %s))", n3.IntT, n1.IntT, n3.IntT, n2.IntT)}
		}
		t.line = 6
		t.extra = func(x *OracleCtx) {
			if !x.Replay {
				x.C.Assume(fmt.Sprintf("(distinct %s %s)", n1.IntT, n2.IntT))
			}
		}
	})
	add("duplicate-case-identifiers", func(t *c20Tpl) {
		s := t.atoms.New(ClsUserName, "script", "names")
		vv := t.atoms.New(ClsIdent, "var", "")
		a1 := t.atoms.New(ClsIdent, "case", "")
		a2 := t.atoms.New(ClsIdent, "case", "")
		c := t.atoms.New(ClsPlainCmd, "cmd", "")
		t.src = func() string {
			return lines("script "+ph(s)+" {", "  switch (var("+ph(vv)+")) {", "    case "+ph(a1)+":", "      "+ph(c), "    default:", "      "+ph(c), "    case "+ph(a2)+":", "      "+ph(c), "  }", "}")
		}
		t.bad = func(x *OracleCtx) interp.Value { return interp.StrEq(a1.Val, a2.Val) }
		t.line = 7
	})
	add("duplicate-case-through-constant", func(t *c20Tpl) {
		s := t.atoms.New(ClsUserName, "script", "names")
		vv := t.atoms.New(ClsIdent, "var", "")
		k := t.atoms.New(ClsIdent, "const", "")
		kv := t.atoms.New(ClsNum, "constval", "")
		n := t.atoms.New(ClsNum, "case", "")
		c := t.atoms.New(ClsPlainCmd, "cmd", "")
		t.src = func() string {
			return lines("const "+ph(k)+" = "+ph(kv), "script "+ph(s)+" {", "  switch (var("+ph(vv)+")) {", "    case "+ph(k)+":", "      "+ph(c), "    case "+ph(n)+":", "      "+ph(c), "  }", "}")
		}
		t.bad = func(x *OracleCtx) interp.Value { return interp.SymBool{T: fmt.Sprintf("(= %s %s)", kv.IntT, n.IntT)} }
		t.line = 6
	})
	add("duplicate-case-constant-second", func(t *c20Tpl) {
		s := t.atoms.New(ClsUserName, "script", "names")
		vv := t.atoms.New(ClsIdent, "var", "")
		k := t.atoms.New(ClsIdent, "const", "")
		kv := t.atoms.New(ClsNum, "constval", "")
		n := t.atoms.New(ClsNum, "case", "")
		c := t.atoms.New(ClsPlainCmd, "cmd", "")
		t.src = func() string {
			return lines("const "+ph(k)+" = "+ph(kv), "script "+ph(s)+" {", "  switch (var("+ph(vv)+")) {", "    case "+ph(n)+":", "      "+ph(c), "    case "+ph(k)+":", "      "+ph(c), "  }", "}")
		}
		t.bad = func(x *OracleCtx) interp.Value { return interp.SymBool{T: fmt.Sprintf("(= %s %s)", kv.IntT, n.IntT)} }
		t.line = 6
	})
	// duplicate values of the outer switch with another switch (directly, or
	// inside an if) in the case body between them
	for _, inIf := range []bool{false, true} {
		inIf := inIf
		name := "duplicate-case-around-nested-switch"
		if inIf {
			name += "-in-if"
		}
		add(name, func(t *c20Tpl) {
			s := t.atoms.New(ClsUserName, "script", "names")
			vv, ww := t.atoms.New(ClsIdent, "var", ""), t.atoms.New(ClsIdent, "var", "")
			n1, n2, n3 := t.atoms.New(ClsNum, "case", ""), t.atoms.New(ClsNum, "case", ""), t.atoms.New(ClsNum, "case", "")
			c := t.atoms.New(ClsPlainCmd, "cmd", "")
			f := t.atoms.New(ClsIdent, "flag", "")
			t.src = func() string {
				inner := []string{"      switch (var(" + ph(ww) + ")) {", "        case " + ph(n3) + ":", "          " + ph(c), "      }"}
				if inIf {
					inner = append(append([]string{"      if (flag(" + ph(f) + ")) {"}, inner...), "      }")
				}
				ls := append([]string{"script " + ph(s) + " {", "  switch (var(" + ph(vv) + ")) {", "    case " + ph(n1) + ":"}, inner...)
				ls = append(ls, "    case "+ph(n2)+":", "      "+ph(c), "  }", "}")
				return lines(ls...)
			}
			t.bad = func(x *OracleCtx) interp.Value { return interp.SymBool{T: fmt.Sprintf("(= %s %s)", n1.IntT, n2.IntT)} }
			t.line = 8
			if inIf {
				t.line = 10
			}
		})
	}
	add("two-defaults", func(t *c20Tpl) {
		s := t.atoms.New(ClsUserName, "script", "names")
		vv := t.atoms.New(ClsIdent, "var", "")
		c := t.atoms.New(ClsPlainCmd, "cmd", "")
		t.src = func() string {
			return lines("script "+ph(s)+" {", "  switch (var("+ph(vv)+")) {", "    default:", "      "+ph(c), "    case 1:", "    default:", "      "+ph(c), "  }", "}")
		}
		t.bad, t.line = always, 6
	})
	// ---- constants
	add("constant-redefined", func(t *c20Tpl) {
		k1 := t.atoms.New(ClsIdent, "const", "")
		k2 := t.atoms.New(ClsIdent, "const", "")
		k3 := t.atoms.New(ClsIdent, "const", "")
		s := t.atoms.New(ClsUserName, "script", "names")
		t.src = func() string {
			return lines("const "+ph(k1)+" = 1", "const "+ph(k2)+" = 2", "script "+ph(s)+" {", "  end", "}", "const "+ph(k3)+" = 3")
		}
		t.bad = func(x *OracleCtx) interp.Value {
			return interp.SymBool{T: interp.Or(interp.BoolTerm(interp.StrEq(k3.Val, k1.Val)), interp.BoolTerm(interp.StrEq(k3.Val, k2.Val)))}
		}
		t.line = 6
		t.extra = func(x *OracleCtx) {
			if !x.Replay {
				x.C.Assume(interp.Not(interp.BoolTerm(interp.StrEq(k1.Val, k2.Val))))
			}
		}
	})
	// redefinition with the very same value (also through another constant) is
	// still a redefinition
	for _, via := range []bool{false, true} {
		via := via
		name := "constant-redefined-with-the-same-value"
		if via {
			name += "-through-a-constant"
		}
		add(name, func(t *c20Tpl) {
			k1 := t.atoms.New(ClsIdent, "const", "")
			k2 := t.atoms.New(ClsIdent, "const", "")
			k3 := t.atoms.New(ClsIdent, "const", "")
			n := t.atoms.New(ClsNum, "constval", "")
			s := t.atoms.New(ClsUserName, "script", "names")
			t.src = func() string {
				second := ph(n) + " + 1"
				if via {
					second = ph(k2) + " + 1"
				}
				return lines("const "+ph(k2)+" = "+ph(n), "const "+ph(k1)+" = "+ph(n)+" + 1", "const "+ph(k3)+" = "+second, "script "+ph(s)+" {", "  end", "}")
			}
			t.bad = func(x *OracleCtx) interp.Value {
				return interp.SymBool{T: interp.Or(interp.BoolTerm(interp.StrEq(k3.Val, k1.Val)), interp.BoolTerm(interp.StrEq(k3.Val, k2.Val)))}
			}
			t.line = 3
			t.extra = func(x *OracleCtx) {
				if !x.Replay {
					x.C.Assume(interp.Not(interp.BoolTerm(interp.StrEq(k1.Val, k2.Val))))
				}
			}
		})
	}
	// ---- labels vs generated labels (concrete script name, symbolic label)
	anyOf := func(l *Atom, names ...string) interp.Value {
		var ts []string
		for _, n := range names {
			ts = append(ts, interp.BoolTerm(interp.StrEq(l.Val, n)))
		}
		if len(ts) == 0 {
			return false
		}
		return interp.SymBool{T: interp.Or(ts...)}
	}
	add("label-equals-own-chunk-label", func(t *c20Tpl) {
		l := t.atoms.New(ClsIdent, "lbl", "")
		f := t.atoms.New(ClsIdent, "flag", "")
		c := t.atoms.New(ClsPlainCmd, "cmd", "")
		t.src = func() string {
			return lines("script MyScript {", "  if (flag("+ph(f)+")) {", "    "+ph(c), "  }", "  "+ph(c), "  "+ph(l)+":", "  "+ph(c), "}")
		}
		// MyScript_3 is the condition chunk: its label is emitted without
		// -optimize only
		t.badV = func(x *OracleCtx, v string) interp.Value {
			if v == "opt" {
				return anyOf(l, "MyScript", "MyScript_1", "MyScript_2")
			}
			return anyOf(l, "MyScript", "MyScript_1", "MyScript_2", "MyScript_3")
		}
		t.maybe = func(x *OracleCtx, v string) interp.Value {
			if v == "opt" {
				return anyOf(l, "MyScript_3")
			}
			return false
		}
		t.line = 6
	})
	// the same clash with the label at every position of a script with an if
	// and a loop: before the chunk it clashes with is rendered, inside a
	// branch, inside the loop, at the end. Emitted labels: with -optimize
	// MyScript, _1, _2, _5, _6; without, _1 ... _7.
	for _, pos := range []struct {
		name string
		line int
	}{{"top", 2}, {"in-if-body", 5}, {"in-loop-body", 9}, {"at-end", 12}} {
		pos := pos
		add("label-equals-chunk-label-"+pos.name, func(t *c20Tpl) {
			l := t.atoms.New(ClsIdent, "lbl", "")
			f := t.atoms.New(ClsIdent, "flag", "")
			g := t.atoms.New(ClsIdent, "flag", "")
			c := t.atoms.New(ClsPlainCmd, "cmd", "")
			t.src = func() string {
				body := []string{"script MyScript {", "  if (flag(" + ph(f) + ")) {", "    " + ph(c), "  }", "  " + ph(c), "  while (flag(" + ph(g) + ")) {", "    " + ph(c), "  }", "  " + ph(c), "}"}
				at := map[string]int{"top": 1, "in-if-body": 3, "in-loop-body": 6, "at-end": 8}[pos.name]
				ls := append([]string{}, body[:at]...)
				ls = append(ls, "  "+ph(l)+":")
				ls = append(ls, body[at:]...)
				return lines(ls...)
			}
			t.badV = func(x *OracleCtx, v string) interp.Value {
				if v == "opt" {
					return anyOf(l, "MyScript", "MyScript_1", "MyScript_2", "MyScript_5", "MyScript_6")
				}
				return anyOf(l, "MyScript", "MyScript_1", "MyScript_2", "MyScript_3", "MyScript_4", "MyScript_5", "MyScript_6", "MyScript_7")
			}
			t.maybe = func(x *OracleCtx, v string) interp.Value {
				if v == "opt" {
					return anyOf(l, "MyScript_3", "MyScript_4", "MyScript_7")
				}
				return false
			}
			t.line = map[string]int{"top": 2, "in-if-body": 4, "in-loop-body": 7, "at-end": 9}[pos.name]
		})
	}
	// the same with script names that contain digits or letters outside ASCII
	// (a generated label is recognised by its exact spelling, whatever
	// characters the script's name is made of)
	for _, sn := range []string{"Script1", "Route101_Boy1", "Pok\u00e9Center", "S_1"} {
		sn := sn
		// pin "": the label / text name is symbolic; otherwise it is pinned to
		// one of the spellings at which the verdict flips
		for _, pin := range []string{"", "_1", "_2", "_9"} {
			pin := pin
			add("label-equals-own-chunk-label/"+sn+"/pin="+pin, func(t *c20Tpl) {
				l := t.atoms.New(ClsIdent, "lbl", "")
				if pin != "" {
					v := sn + pin
					l.Fixed = &v
				}
				f := t.atoms.New(ClsIdent, "flag", "")
				c := t.atoms.New(ClsPlainCmd, "cmd", "")
				t.src = func() string {
					return lines("script "+sn+" {", "  if (flag("+ph(f)+")) {", "    "+ph(c), "  }", "  "+ph(c), "  "+ph(l)+":", "  "+ph(c), "}")
				}
				t.badV = func(x *OracleCtx, v string) interp.Value {
					if v == "opt" {
						return anyOf(l, sn, sn+"_1", sn+"_2")
					}
					return anyOf(l, sn, sn+"_1", sn+"_2", sn+"_3")
				}
				t.maybe = func(x *OracleCtx, v string) interp.Value {
					if v == "opt" {
						return anyOf(l, sn+"_3")
					}
					return false
				}
				t.line = 6
			})
		}
		for _, pin := range []string{"", "_Text_0", "_Text_1", "_Text_2"} {
			pin := pin
			add("text-name-equals-generated/"+sn+"/pin="+pin, func(t *c20Tpl) {
				tn := t.atoms.New(ClsIdent, "text", "")
				if pin != "" {
					v := sn + pin
					tn.Fixed = &v
				}
				c := t.atoms.New(ClsPlainCmd, "cmd", "")
				t.src = func() string {
					return lines("script "+sn+" {", "  "+ph(c)+"(\"one$\")", "  "+ph(c)+"(\"two$\")", "}", "text "+ph(tn)+" {", "  \"abc$\"", "}")
				}
				t.bad = func(x *OracleCtx) interp.Value {
					return interp.SymBool{T: interp.Or(interp.BoolTerm(interp.StrEq(tn.Val, sn+"_Text_0")), interp.BoolTerm(interp.StrEq(tn.Val, sn+"_Text_1")))}
				}
				t.line = 5
			})
		}
	}
	add("label-equals-text-label", func(t *c20Tpl) {
		l := t.atoms.New(ClsIdent, "lbl", "")
		tn := t.atoms.New(ClsUserName, "text", "")
		c := t.atoms.New(ClsPlainCmd, "cmd", "")
		t.src = func() string {
			return lines("script MyScript {", "  "+ph(c)+"(\"inline$\")", "  "+ph(l)+"(global):", "  "+ph(c), "}", "text "+ph(tn)+" {", "  \"abc$\"", "}")
		}
		t.bad = func(x *OracleCtx) interp.Value {
			return interp.SymBool{T: interp.Or(interp.BoolTerm(interp.StrEq(l.Val, "MyScript")), interp.BoolTerm(interp.StrEq(l.Val, "MyScript_Text_0")), interp.BoolTerm(interp.StrEq(l.Val, tn.Val)))}
		}
		t.line = 3
	})
	// a label inside nested blocks equal to a text label (explicit or hoisted)
	for _, where := range []string{"if", "else", "while", "case"} {
		where := where
		add("nested-label-equals-text-label-in-"+where, func(t *c20Tpl) {
			l := t.atoms.New(ClsIdent, "lbl", "")
			tn := t.atoms.New(ClsUserName, "text", "")
			c := t.atoms.New(ClsPlainCmd, "cmd", "")
			f := t.atoms.New(ClsIdent, "flag", "")
			t.src = func() string {
				var blk []string
				switch where {
				case "if":
					blk = []string{"  if (flag(" + ph(f) + ")) {", "    " + ph(l) + ":", "    " + ph(c), "  }"}
				case "else":
					blk = []string{"  if (flag(" + ph(f) + ")) {", "    " + ph(c), "  } else {", "    " + ph(l) + "(global):", "  }"}
				case "while":
					blk = []string{"  while (flag(" + ph(f) + ")) {", "    " + ph(c), "    " + ph(l) + ":", "  }"}
				case "case":
					blk = []string{"  switch (var(" + ph(f) + ")) {", "    case 1:", "      " + ph(l) + ":", "      " + ph(c), "  }"}
				}
				ls := append([]string{"script MyScript {", "  " + ph(c) + "(\"inline$\")"}, blk...)
				ls = append(ls, "}", "text "+ph(tn)+" {", "  \"abc$\"", "}")
				return lines(ls...)
			}
			t.bad = func(x *OracleCtx) interp.Value {
				return interp.SymBool{T: interp.Or(interp.BoolTerm(interp.StrEq(l.Val, "MyScript_Text_0")), interp.BoolTerm(interp.StrEq(l.Val, tn.Val)))}
			}
			t.line = map[string]int{"if": 4, "else": 6, "while": 5, "case": 5}[where]
			t.extra = func(x *OracleCtx) {
				// clashes with the script's own chunk labels are the subject of the
				// label-equals-chunk-label templates
				if !x.Replay {
					for _, n := range []string{"MyScript", "MyScript_1", "MyScript_2", "MyScript_3", "MyScript_4", "MyScript_5", "MyScript_6"} {
						x.C.Assume(interp.Not(interp.BoolTerm(interp.StrEq(l.Val, n))))
					}
				}
			}
		})
	}
	// ---- text / movement names vs generated names
	add("text-name-equals-generated", func(t *c20Tpl) {
		tn := t.atoms.New(ClsIdent, "text", "")
		c := t.atoms.New(ClsPlainCmd, "cmd", "")
		t.src = func() string {
			return lines("script MyScript {", "  "+ph(c)+"(\"one$\")", "  "+ph(c)+"(\"two$\")", "}", "text "+ph(tn)+" {", "  \"abc$\"", "}")
		}
		t.bad = func(x *OracleCtx) interp.Value {
			return interp.SymBool{T: interp.Or(interp.BoolTerm(interp.StrEq(tn.Val, "MyScript_Text_0")), interp.BoolTerm(interp.StrEq(tn.Val, "MyScript_Text_1")))}
		}
		t.line = 5
	})
	// the same with the user text carrying exactly the content (and type) of
	// the inline text whose label it takes
	for _, first := range []bool{false, true} {
		first := first
		name := "text-name-equals-generated-same-content"
		if first {
			name += "-text-first"
		}
		add(name, func(t *c20Tpl) {
			tn := t.atoms.New(ClsIdent, "text", "")
			c := t.atoms.New(ClsPlainCmd, "cmd", "")
			t.src = func() string {
				scr := []string{"script MyScript {", "  " + ph(c) + "(\"one$\")", "  " + ph(c) + "(\"two$\")", "}"}
				txt := []string{"text " + ph(tn) + " {", "  \"one$\"", "}"}
				if first {
					return lines(append(txt, scr...)...)
				}
				return lines(append(scr, txt...)...)
			}
			t.bad = func(x *OracleCtx) interp.Value {
				return interp.SymBool{T: interp.Or(interp.BoolTerm(interp.StrEq(tn.Val, "MyScript_Text_0")), interp.BoolTerm(interp.StrEq(tn.Val, "MyScript_Text_1")))}
			}
			t.line = 5
			if first {
				t.line = 1
			}
		})
	}
	add("text-name-equals-generated-text-first", func(t *c20Tpl) {
		tn := t.atoms.New(ClsIdent, "text", "")
		c := t.atoms.New(ClsPlainCmd, "cmd", "")
		t.src = func() string {
			return lines("text "+ph(tn)+" {", "  \"abc$\"", "}", "script MyScript {", "  "+ph(c)+"(\"one$\")", "  "+ph(c)+"(\"two$\")", "}")
		}
		t.bad = func(x *OracleCtx) interp.Value {
			return interp.SymBool{T: interp.Or(interp.BoolTerm(interp.StrEq(tn.Val, "MyScript_Text_0")), interp.BoolTerm(interp.StrEq(tn.Val, "MyScript_Text_1")))}
		}
		t.line = 1
	})
	add("movement-name-equals-generated", func(t *c20Tpl) {
		mn := t.atoms.New(ClsIdent, "movement", "")
		c := t.atoms.New(ClsPlainCmd, "cmd", "")
		t.src = func() string {
			return lines("movement "+ph(mn)+" {", "  walk_down", "}", "script MyScript {", "  "+ph(c)+"(moves(walk_up))", "}")
		}
		t.bad = func(x *OracleCtx) interp.Value { return interp.StrEq(mn.Val, "MyScript_Movement_0") }
		t.line = 1
	})
	add("two-texts-same-name", func(t *c20Tpl) {
		t1 := t.atoms.New(ClsIdent, "text", "")
		t2 := t.atoms.New(ClsIdent, "text", "")
		t.src = func() string {
			return lines("text "+ph(t1)+" {", "  \"abc$\"", "}", "text "+ph(t2)+" {", "  \"def$\"", "}")
		}
		t.bad = func(x *OracleCtx) interp.Value { return interp.StrEq(t1.Val, t2.Val) }
		t.line = 4
	})
	return res
}

func c20Case(t *c20Tpl) *Case {
	var swK, swV []Tok
	for _, kv := range t.sw {
		swK, swV = append(swK, kv[0]), append(swV, kv[1])
	}
	prog := &Program{Atoms: t.atoms, Tops: []interface{}{&TopRaw{Text: t.src()}}}
	variants := []Variant{
		{Name: "opt", Opt: CompileOpts{Optimize: true, SwKeys: swK, SwVals: swV, Path: "x.pory", LM: true}},
		{Name: "noopt", Opt: CompileOpts{Optimize: false, SwKeys: swK, SwVals: swV}},
	}
	cs := &Case{Name: "c20/" + t.name, Prog: prog, Variants: variants, SymLines: true, NonTrivial: true, Shape: c20Shape{Template: t.name}, MaxPaths: 256}
	cs.Setup = func(x *OracleCtx) {
		if t.extra != nil {
			t.extra(x)
		}
	}
	cs.Oracle = func(x *OracleCtx) *Violation {
		bad0 := false
		if t.badV == nil {
			bad0 = x.C.DecideValue(t.bad(x))
		}
		for _, v := range x.Case.Variants {
			res := x.Res[v.Name]
			if res.Err.Panic != "" {
				return &Violation{Sub: "panic", Msg: res.Err.Panic}
			}
			bad := bad0
			if t.badV != nil {
				bad = x.C.DecideValue(t.badV(x, v.Name))
			}
			if !bad && t.maybe != nil && x.C.DecideValue(t.maybe(x, v.Name)) {
				if !res.Err.IsErr {
					continue // the clashing label is not emitted under this setting
				}
				bad = true // rejected: the error must still be located
			}
			if !bad {
				if res.Err.IsErr {
					return &Violation{Sub: "false-rejection", Msg: "variant " + v.Name + ": a well-formed program was rejected: " + interp.ToString(res.Err.Msg)}
				}
				continue
			}
			if !res.Err.IsErr {
				return &Violation{Sub: "accepted", Msg: fmt.Sprintf("variant %s: the ill-formed program (%s) was compiled instead of being rejected", v.Name, t.name)}
			}
			if !isEmpty(res.Out) {
				return &Violation{Sub: "accepted", Msg: "an error was returned together with output"}
			}
			if !res.Err.IsParseError {
				return &Violation{Sub: "location", Msg: "the rejection carries no line: " + interp.ToString(res.Err.Msg)}
			}
			want := x.Lines[t.line]
			eq := fmt.Sprintf("(= %s %s)", interp.IntTerm(res.Err.LineStart), want)
			switch x.C.Valid(eq) {
			case interp.Unsat:
			case interp.Unknown:
				panic(interp.Inconclusive{Msg: "solver unknown on the error line"})
			default:
				return &Violation{Sub: "location", Query: interp.Not(eq), Msg: fmt.Sprintf("variant %s: the error is reported on line %s, the offending construct is on rendered line %d", v.Name, interp.ToString(res.Err.LineStart), t.line)}
			}
		}
		return nil
	}
	return cs
}

// RunC20 is the check of property C20.
func RunC20(env *Env, rep *Report) {
	tpls := c20Templates()
	var cases []*Case
	var names []string
	for _, t := range tpls {
		cases = append(cases, c20Case(t))
		names = append(names, t.name)
	}
	rep.Technique = "symbolic execution of the real parser/emitter rejection paths (go/ssa) with symbolic names, case values and line numbers; which names clash is found by the solver, the reported line is compared with the symbolic line of the offending construct (z3)"
	rep.Explanation = "Bounded symbolic verification, not a proof. Templates injecting one ill-formedness at a time - break outside a loop/switch (top level, inside if, after a closed loop, after a closed switch, in an inline map script, in a poryswitch case), continue outside a loop / inside a switch only / after a closed loop / not last in its block (also nested), duplicate case values (symbolic numbers, symbolic identifiers, through a constant in either order, with a nested switch between the two), two defaults, a redefined constant, a script label equal to one of the script's generated labels (with the label at the top of the script, inside an if body, inside a loop body and at the end; a chunk label that is not emitted under the given -optimize setting may be accepted or rejected) or to a text label, a text or movement name equal to a generated name, two texts with one name - are compiled by symbolic execution with symbolic names/values and symbolic line numbers. Whether the clash happens is a solver-decided fork of the oracle (the solver finds the clashing names/values); on the ill-formed side the result must be an error without output whose line equals, for every layout, the symbolic line of the offending construct; on the well-formed side the program must be accepted."
	rep.Bounds = map[string]interface{}{"templates": names, "cases": len(cases), "variants": "optimize on (with line markers and a path) and off"}
	rep.Outside = []string{"other positions and nestings of the violation than the listed templates", "several violations in one program"}
	rep.Assumptions = []string{"in the label/name clash templates the script name is the concrete 'MyScript' so that generated names are concrete literals the symbolic user name can equal"}
	rep.Functions = []string{"parseBreakStatement", "parseContinueStatement", "pushBreakStack", "popBreakStack", "parseSwitchStatement", "parseConstant", "ParseProgram", "renderStatements", "renderChunks", "NewParseError", "NewRangeParseError"}
	rep.Match = func(k *KnownFinding, f *Finding) bool { return false }
	src, _ := cases[len(cases)-5].Prog.Render()
	rep.AddSample(map[string]interface{}{"case": cases[len(cases)-5].Name, "source_with_holes": src})
	runWitness(env, rep, "c20-witness-wrong-line", func() *Case {
		t := c20Templates()[0]
		t.line = 2 // the twin expects the error one line too early
		return c20Case(t)
	})
	env.RunJobs(len(cases), rep, func(w *Worker, i int) { w.RunCase(cases[i], rep) })
}
