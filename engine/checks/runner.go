package checks

// Shared machinery of all checks: environment (program load, native helper),
// workers, compile cases with symbolic exploration + native cross-check,
// violation confirmation by native replay, known findings, evidence.

import (
	"bufio"
	"encoding/json"
	"fmt"
	"os"
	"os/exec"
	"path/filepath"
	"sort"
	"strings"
	"sync"
	"time"

	"verif/engine/interp"
)

const (
	VerifDir   = "/verif"
	RepoPrefix = "github.com/huderlem/poryscript"
	HzPkg      = "verif/harness/hz"
)

// The registered commands always check /repo's working tree. For trying a
// seeded change without touching /repo (tools/scratch_check.sh), VERIF_SCRATCH
// names a directory holding a worktree of the repository (repo/), a copy of the
// harness module whose replace directive points at it (harness/) and an output
// directory (out/) that receives the evidence and replay files instead of
// /verif.
var (
	RepoDir    = "/repo"
	HarnessDir = "/verif/harness"
	OutDir     = VerifDir
)

func init() {
	if s := os.Getenv("VERIF_SCRATCH"); s != "" {
		RepoDir, HarnessDir, OutDir = filepath.Join(s, "repo"), filepath.Join(s, "harness"), filepath.Join(s, "out")
	}
}

// Env is shared by all workers of one check run.
type Env struct {
	P         *interp.Program
	TmpDir    string
	NativeBin string
	Tier      string
	Seed      int64
	Workers   int
	Start     time.Time
}

// NewEnv loads /repo's current working tree and builds the native helper.
func NewEnv(tier string, seed int64) (*Env, error) {
	env := &Env{Tier: tier, Seed: seed, Workers: 16, Start: time.Now()}
	if w := os.Getenv("VERIF_WORKERS"); w != "" {
		fmt.Sscanf(w, "%d", &env.Workers)
	}
	tmp, err := os.MkdirTemp("", "pvcheck-")
	if err != nil {
		return nil, err
	}
	env.TmpDir = tmp
	env.NativeBin = filepath.Join(tmp, "native")
	var wg sync.WaitGroup
	var buildErr error
	wg.Add(1)
	go func() {
		defer wg.Done()
		cmd := exec.Command("go", "build", "-o", env.NativeBin, "./cmd/native")
		cmd.Dir = HarnessDir
		cmd.Env = append(os.Environ(), "GOFLAGS=-mod=mod", "GOPROXY=off", "GOSUMDB=off", "GOTOOLCHAIN=local")
		if out, err := cmd.CombinedOutput(); err != nil {
			buildErr = fmt.Errorf("building native helper from /repo's working tree failed: %v\n%s", err, out)
		}
	}()
	p, err := interp.LoadProgram(HarnessDir, []string{"./hz"}, RepoPrefix)
	wg.Wait()
	if err != nil {
		env.Close()
		return nil, fmt.Errorf("loading /repo into SSA failed: %v", err)
	}
	if buildErr != nil {
		env.Close()
		return nil, buildErr
	}
	env.P = p
	return env, nil
}

// Close removes the scratch directory.
func (env *Env) Close() {
	if env.TmpDir != "" {
		os.RemoveAll(env.TmpDir)
	}
}

// ---- native helper

type Native struct {
	cmd *exec.Cmd
	in  *bufio.Writer
	out *bufio.Reader
	bin string
}

type NativeReq struct {
	Op       string            `json:"op"`
	Src      string            `json:"src"`
	Optimize bool              `json:"optimize"`
	LM       bool              `json:"lm"`
	Path     string            `json:"path"`
	Lint     bool              `json:"lint"`
	AVs      []AutoVarCfg      `json:"avs"`
	Switches map[string]string `json:"switches"`
	FontPath string            `json:"font_path"`
	FontID   string            `json:"font_id"`
	MaxLen   int               `json:"max_len"`
	Font     interface{}       `json:"font,omitempty"`
	MaxWidth int               `json:"max_width"`
	Overlap  int               `json:"overlap"`
	NumLines int               `json:"num_lines"`
}

type AutoVarCfg struct {
	Name    string
	VarName string
	Pos     int
}

type NativePErr struct {
	LineNumberStart int
	LineNumberEnd   int
	CharStart       int
	Utf8CharStart   int
	CharEnd         int
	Utf8CharEnd     int
	Message         string
}

type NativeResp struct {
	Out    string          `json:"out"`
	Err    string          `json:"err"`
	IsErr  bool            `json:"is_err"`
	PErr   *NativePErr     `json:"perr"`
	Panic  string          `json:"panic"`
	Tokens json.RawMessage `json:"tokens"`
}

func StartNative(bin string) (*Native, error) {
	n := &Native{bin: bin}
	return n, n.start()
}

func (n *Native) start() error {
	cmd := exec.Command(n.bin)
	cmd.Dir = RepoDir
	in, err := cmd.StdinPipe()
	if err != nil {
		return err
	}
	out, err := cmd.StdoutPipe()
	if err != nil {
		return err
	}
	cmd.Stderr = nil
	if err := cmd.Start(); err != nil {
		return err
	}
	n.cmd, n.in, n.out = cmd, bufio.NewWriter(in), bufio.NewReaderSize(out, 1<<20)
	return nil
}

func (n *Native) Close() {
	if n.cmd != nil {
		n.cmd.Process.Kill()
		n.cmd.Wait()
		n.cmd = nil
	}
}

// Do runs one request with a timeout (a hang of the real code is an
// observable outcome for C18).
func (n *Native) Do(req NativeReq, timeout time.Duration) (resp NativeResp, timedOut bool, err error) {
	b, _ := json.Marshal(req)
	n.in.Write(b)
	n.in.WriteByte('\n')
	if err := n.in.Flush(); err != nil {
		return resp, false, err
	}
	type res struct {
		line []byte
		err  error
	}
	ch := make(chan res, 1)
	go func() {
		line, err := n.out.ReadBytes('\n')
		ch <- res{line, err}
	}()
	select {
	case r := <-ch:
		if r.err != nil {
			n.Close()
			n.start()
			return resp, false, fmt.Errorf("native helper died: %v", r.err)
		}
		if err := json.Unmarshal(r.line, &resp); err != nil {
			return resp, false, err
		}
		return resp, false, nil
	case <-time.After(timeout):
		n.Close()
		n.start()
		return resp, true, nil
	}
}

// DoPatient is Do with one retry: a request that is not answered within the
// timeout is sent again (to the restarted process) with six times the
// timeout, so that a machine under heavy load is not mistaken for a hang. A
// real hang is still reported, after both timeouts.
func (n *Native) DoPatient(req NativeReq, timeout time.Duration) (NativeResp, bool, error) {
	resp, timedOut, err := n.Do(req, timeout)
	if timedOut && err == nil {
		return n.Do(req, 6*timeout)
	}
	return resp, timedOut, err
}

// Fresh restarts the helper process, so that the next request is answered by
// a process that has not compiled anything yet.
func (n *Native) Fresh() {
	n.Close()
	n.start()
}

// ---- workers

type Worker struct {
	Env *Env
	E   *interp.Engine
	S   *interp.Solver
	RS  *interp.Solver // separate solver for native replays (clean scope)
	replayLines []int64 // layout to realise in the next replay (symbolic-lines cases)
	N   *Native
	ID  int
}

func (env *Env) NewWorker(id int) (*Worker, error) {
	s, err := interp.NewSolver(20000)
	if err != nil {
		return nil, err
	}
	s.Raw(stateDecls)
	n, err := StartNative(env.NativeBin)
	if err != nil {
		s.Close()
		return nil, err
	}
	rs, err := interp.NewSolver(20000)
	if err != nil {
		s.Close()
		n.Close()
		return nil, err
	}
	rs.Raw(stateDecls)
	return &Worker{Env: env, E: interp.NewEngine(env.P), S: s, RS: rs, N: n, ID: id}, nil
}

func (w *Worker) Close() {
	w.E.FlushCoverage()
	w.S.Close()
	w.RS.Close()
	w.N.Close()
}

// RunJobs runs n jobs on the worker pool. job(w, i) must not panic except
// with EngineError, which aborts the whole check (exit 3).
func (env *Env) RunJobs(n int, rep *Report, job func(w *Worker, i int)) {
	nw := env.Workers
	if nw > n {
		nw = n
	}
	if nw < 1 {
		nw = 1
	}
	var next int64
	var mu sync.Mutex
	var wg sync.WaitGroup
	for k := 0; k < nw; k++ {
		wg.Add(1)
		go func(k int) {
			defer wg.Done()
			w, err := env.NewWorker(k)
			if err != nil {
				rep.Fatal(fmt.Sprintf("cannot start worker: %v", err))
				return
			}
			defer func() {
				rep.addSolver(w.S)
				rep.addSolver(w.RS)
				w.Close()
			}()
			for {
				mu.Lock()
				i := int(next)
				next++
				mu.Unlock()
				if i >= n || rep.Aborted() {
					return
				}
				func() {
					defer func() {
						if r := recover(); r != nil {
							rep.Fatal(fmt.Sprintf("job %d: %v", i, r))
						}
					}()
					job(w, i)
				}()
			}
		}(k)
	}
	wg.Wait()
}

// ---- compile cases

// CompileOpts are the concrete options of a compilation.
type CompileOpts struct {
	Optimize bool
	LM       bool
	Path     string // concrete path; PathAtom overrides
	PathAtom *Atom
	AVs      []AVSpec
	SwKeys   []Tok
	SwVals   []Tok
	Lint     bool
	FontID   string // CLI default font id (-f)
}

// AVSpec is an autovar config entry whose strings may be atoms.
type AVSpec struct {
	Name    Tok
	VarName Tok
	Pos     int
}

// ErrInfo is the error result of a compilation.
type ErrInfo struct {
	IsErr        bool
	Msg          interp.Value
	IsParseError bool
	LineStart    interp.Value
	LineEnd      interp.Value
	Panic        string
}

// Result of one compilation (engine or native).
type CompileResult struct {
	Out interp.Value
	Err ErrInfo
}

// Violation is a property violation found by an oracle under the current
// path condition.
type Violation struct {
	Sub    string // sub-check name
	Msg    string
	Query  string   // satisfiable formula (under the path condition) witnessing it
	Detail []string // free text lines
	Tags   []string // classification hints for known-finding predicates
}

// OracleCtx is what an oracle sees.
type OracleCtx struct {
	W      *Worker
	C      *interp.Ctx
	Case   *Case
	Src    string // rendered source with placeholders
	NLines int
	Res    map[string]*CompileResult // by variant name
	Replay bool
	Lines  []string // SMT terms of Λ(k), if symbolic lines are on
	NTerm  string   // SMT term of N
	Notes  []string
}

// Variant is one compilation of the case's source.
type Variant struct {
	Name string
	Opt  CompileOpts
	// Src, if non-nil, overrides the program to compile for this variant.
	Prog *Program
}

// Case is one skeleton with its variants and oracle.
type Case struct {
	Name      string
	Prog      *Program
	Variants  []Variant
	SymLines  bool
	// SharedLines (with SymLines): consecutive rendered lines may be written
	// on one source line (the program must not contain tokens for which a line
	// break is significant: string literals on adjacent lines, raw blocks)
	SharedLines bool
	Oracle    func(x *OracleCtx) *Violation
	Shape     interface{} // for known-finding predicates
	MaxPaths  int
	NonTrivial bool
	noEscalation bool // set while the case is re-run with SMT-string names
	Setup     func(x *OracleCtx) // extra assumptions before running
}

func tokVal(t Tok) interp.Value { return t.Val() }

func (w *Worker) engineCompile(c *interp.Ctx, src string, o CompileOpts) *CompileResult {
	fn := w.E.Func(HzPkg, "CompileSimple")
	var avs []interp.Value
	for _, a := range o.AVs {
		avs = append(avs, mkStruct(a.Name.Val(), a.VarName.Val(), a.Pos))
	}
	var ks, vs []interp.Value
	for i := range o.SwKeys {
		ks = append(ks, o.SwKeys[i].Val())
		vs = append(vs, o.SwVals[i].Val())
	}
	var path interp.Value = o.Path
	if o.PathAtom != nil {
		path = o.PathAtom.Val
	}
	res := w.E.Call(c, fn, src, o.Optimize, o.LM, path, interp.MkSlice(avs...), interp.MkSlice(ks...), interp.MkSlice(vs...), o.Lint, o.FontID)
	t := interp.Tuple(res)
	cr := &CompileResult{Out: t[0]}
	if !interp.IsNilIface(t[1]) {
		cr.Err.IsErr = true
		msg, _ := w.E.ErrorText(c, t[1])
		cr.Err.Msg = msg
		if strings.HasSuffix(interp.IfaceType(t[1]), "parser.ParseError") {
			cr.Err.IsParseError = true
			f := interp.Fields(interp.IfaceValue(t[1]))
			cr.Err.LineStart, cr.Err.LineEnd = f[0], f[1]
		}
	}
	return cr
}

func mkStruct(fields ...interp.Value) interp.Value { return interp.MkStruct(fields...) }

func strOf(v interp.Value) string {
	s, _ := v.(string)
	return s
}

func (w *Worker) nativeCompile(src string, o CompileOpts, values map[int]string) (*CompileResult, error) {
	req := NativeReq{Op: "compile", Src: src, Optimize: o.Optimize, LM: o.LM, Path: o.Path, Lint: o.Lint, FontPath: "/nonexistent/font_config.json", FontID: o.FontID}
	conc := func(t Tok) string {
		if t.A != nil {
			return values[t.A.ID]
		}
		return t.Lit
	}
	if o.PathAtom != nil {
		req.Path = values[o.PathAtom.ID]
	}
	for _, a := range o.AVs {
		req.AVs = append(req.AVs, AutoVarCfg{Name: conc(a.Name), VarName: conc(a.VarName), Pos: a.Pos})
	}
	if len(o.SwKeys) > 0 {
		req.Switches = map[string]string{}
		for i := range o.SwKeys {
			req.Switches[conc(o.SwKeys[i])] = conc(o.SwVals[i])
		}
	}
	resp, timedOut, err := w.N.DoPatient(req, 10*time.Second)
	if err != nil {
		return nil, err
	}
	cr := &CompileResult{Out: resp.Out}
	if timedOut {
		cr.Err.Panic = "timeout (no answer within 10 s, nor within 60 s when asked again)"
		return cr, nil
	}
	if resp.Panic != "" {
		cr.Err.Panic = resp.Panic
	}
	if resp.IsErr {
		cr.Err.IsErr = true
		cr.Err.Msg = resp.Err
		if resp.PErr != nil {
			cr.Err.IsParseError = true
			cr.Err.LineStart, cr.Err.LineEnd = resp.PErr.LineNumberStart, resp.PErr.LineNumberEnd
		}
	}
	return cr, nil
}

// RunCase explores one case symbolically, cross-checks each path against the
// native build and confirms violations by native replay.
func (w *Worker) RunCase(cs *Case, rep *Report) {
	// development aid: VERIF_ONLY=<substring> runs only the cases whose name
	// contains it (never set by a registered command)
	if only := os.Getenv("VERIF_ONLY"); only != "" && !strings.Contains(cs.Name, only) && !strings.Contains(cs.Name, "witness") {
		return
	}
	// enough is enough: once 25 counterexamples are confirmed the verdict is
	// settled; the remaining cases are skipped (and said so) instead of paying
	// for, e.g., one native timeout per case when the code under test hangs
	if rep.violationCount() >= 25 {
		rep.skipAfterEnough()
		return
	}
	progs := []*Program{cs.Prog}
	for _, v := range cs.Variants {
		if v.Prog != nil {
			progs = append(progs, v.Prog)
		}
	}
	srcOf := map[*Program]string{}
	nlines := 0
	for _, p := range progs {
		s, n := p.Render()
		// atoms pinned to a concrete spelling are written into the source as
		// that spelling, so that the lexer classifies them itself (a pinned
		// "01" is an INT token, not the identifier its placeholder would be)
		for _, a := range p.Atoms.Atoms {
			if a.Fixed != nil && a.Class != ClsFixedTok {
				s = strings.ReplaceAll(s, a.Placeholder(), *a.Fixed)
			}
		}
		srcOf[p] = s
		if p == cs.Prog {
			nlines = n
		}
	}
	rep.countCase(cs)
	maxPaths := cs.MaxPaths
	if maxPaths == 0 {
		maxPaths = 4096
	}
	stopped := false
	// needStrings: a path ended because the code under test looked inside an
	// Int-coded name (its prefix, a substring, its case, ...): the case is then
	// run once more with SMT-string names, which turns that look into a solver
	// query instead of leaving it to the genericity assumption.
	needStrings := false
	body := func(c *interp.Ctx) {
		cs.Prog.Atoms.Declare(c, nil)
		x := &OracleCtx{W: w, C: c, Case: cs, Src: srcOf[cs.Prog], NLines: nlines, Res: map[string]*CompileResult{}}
		var lineMap func(int) interp.Value
		if cs.SymLines {
			lineMap, x.Lines, x.NTerm = SymLines(c, nlines, cs.SharedLines)
		}
		if cs.Setup != nil {
			cs.Setup(x)
		}
		c.EnableTokenSymbolisation(cs.Prog.Atoms.Placeholders(), placeholderRe, lineMap)
		c.TypePlaceholders = cs.Prog.Atoms.TypePlaceholders()
		for _, v := range cs.Variants {
			p := cs.Prog
			if v.Prog != nil {
				p = v.Prog
			}
			x.Res[v.Name] = w.engineCompile(c, srcOf[p], v.Opt)
		}
		c.User["x"] = x
		if stopped {
			return
		}
		if v := cs.Oracle(x); v != nil {
			// only a reported counterexample ends the exploration of the case: an
			// assertion failure without a model (an infeasible or undecided path)
			// must not hide a real one on a later path
			if w.handleViolation(cs, x, v, rep, srcOf) {
				stopped = true
			}
		}
	}
	done := func(c *interp.Ctx, r interp.PathResult) {
		if r.Outcome != interp.PathDone {
			if r.Outcome == interp.PathTargetPanic {
				rep.note(fmt.Sprintf("case %s: target panic: %s", cs.Name, r.Msg))
			}
			// (only for small skeletons: with dozens of SMT-string names the
			// string queries are too slow to be worth it)
			if r.Outcome == interp.PathInconclusive && cs.Prog.Atoms.Coded && !cs.noEscalation && strings.Contains(r.Msg, "Int-coded atom") && cs.Prog.Atoms.identCount() <= 12 {
				needStrings = true
			}
			if (r.Outcome == interp.PathInconclusive || r.Outcome == interp.PathTargetPanic || r.Outcome == interp.PathFuel) && !stopped {
				// Completion of a path the engine could not finish: one model
				// of its path condition is run on the native build with the
				// same oracle. This does not cover the path (it stays counted
				// as inconclusive) but a violation found this way is real.
				vars := append(cs.Prog.Atoms.Vars(), c.IntVars...)
				if res, model := c.CheckModel("true", vars); res == interp.Sat {
					if values, err := cs.Prog.Atoms.ModelValues(model); err == nil {
						rep.completion()
						if ok, rv, srcs, outs := w.Replay(cs, values, srcOf); ok {
							f := &Finding{Property: rep.Property, Case: cs.Name, Sub: rv.Sub, Msg: rv.Msg + " (found on a model of a path the engine could not finish: " + r.Msg + ")", Detail: rv.Detail, Sources: srcs, Outputs: outs, Model: model, AtomValues: values, Shape: cs.Shape, Confirmed: true, Tags: rv.Tags}
							rep.violation(f)
							stopped = true
						}
					}
				}
			}
			return
		}
		x, _ := c.User["x"].(*OracleCtx)
		if x == nil || stopped {
			return
		}
		w.crossCheck(cs, x, rep, srcOf)
	}
	st, hit := w.E.Explore(w.S, maxPaths, body, done)
	rep.addExplore(cs, st, hit)
	if needStrings && !stopped && os.Getenv("VERIF_NO_ESCALATION") == "" {
		// second run of the same case with SMT-string names (the oracles read
		// the mode from the atom table at oracle time)
		rep.escalated()
		cs.Prog.Atoms.Coded = false
		cs.noEscalation = true
		name := cs.Name
		cs.Name = name + " [string names]"
		w.RunCase(cs, rep)
		cs.Name = name
		cs.Prog.Atoms.Coded = true
		cs.noEscalation = false
	}
}

// crossCheck: engine vs native on one model of the path (DESIGN.md §5.2).
func (w *Worker) crossCheck(cs *Case, x *OracleCtx, rep *Report, srcOf map[*Program]string) {
	c := x.C
	vars := append(cs.Prog.Atoms.Vars(), c.IntVars...)
	q := "true"
	if cs.SymLines {
		// the native build sees the rendered text: pick the model in which
		// every line number is the rendered one
		var ts []string
		for k := 1; k < len(x.Lines); k++ {
			if x.Lines[k] != "" {
				ts = append(ts, fmt.Sprintf("(= %s %d)", x.Lines[k], k))
			}
		}
		q = interp.And(ts...)
	}
	r, model := c.CheckModel(q, vars)
	if r != interp.Sat {
		rep.crossSkipped()
		return
	}
	values, err := cs.Prog.Atoms.ModelValues(model)
	if err != nil {
		rep.crossSkipped()
		return
	}
	for _, v := range cs.Variants {
		p := cs.Prog
		if v.Prog != nil {
			p = v.Prog
		}
		src := cs.Prog.Atoms.Substitute(srcOf[p], values)
		nres, err := w.nativeCompile(src, v.Opt, values)
		if err != nil {
			rep.crossSkipped()
			return
		}
		eres := x.Res[v.Name]
		eout, err1 := interp.Instantiate(eres.Out, model)
		emsg := ""
		var err2 error
		if eres.Err.IsErr {
			emsg, err2 = interp.Instantiate(eres.Err.Msg, model)
		}
		if err1 != nil || err2 != nil {
			rep.crossSkipped()
			return
		}
		differs := func(nres *CompileResult) bool {
			return nres.Err.Panic != "" || eout != strOf(nres.Out) || eres.Err.IsErr != nres.Err.IsErr || emsg != strOf(nres.Err.Msg)
		}
		if differs(nres) {
			// the helper process has served other requests: ask a fresh one
			w.N.Fresh()
			if fres, err := w.nativeCompile(src, v.Opt, values); err == nil && !differs(fres) {
				rep.historyDependent(fmt.Sprintf("case %s variant %s: the native build answers differently in a process that compiled other inputs before\nsource:\n%s\nfresh process: %q\nused process: %q", cs.Name, v.Name, src, strOf(fres.Out), strOf(nres.Out)))
				continue
			}
		}
		if differs(nres) {
			dbg := ""
			if os.Getenv("VERIF_DEBUG_MISMATCH") != "" {
				dbg = fmt.Sprintf("\nrope: %s\nmodel: %v\nvalues: %v\nsrc-with-holes:\n%s", interp.ToString(eres.Out), model, values, srcOf[p])
			}
			rep.engineMismatch(fmt.Sprintf("case %s variant %s: engine and native build disagree\nsource:\n%s\nengine: %q err=%q\nnative: %q err=%q panic=%q%s", cs.Name, v.Name, src, eout, emsg, strOf(nres.Out), strOf(nres.Err.Msg), nres.Err.Panic, dbg))
			return
		}
	}
	rep.crossOK()
}

// handleViolation: get a model, replay natively with the same oracle, match
// known findings, report.
func (w *Worker) handleViolation(cs *Case, x *OracleCtx, v *Violation, rep *Report, srcOf map[*Program]string) bool {
	c := x.C
	vars := append(cs.Prog.Atoms.Vars(), c.IntVars...)
	q := v.Query
	if q == "" {
		q = "true"
	}
	r, model := c.CheckModel(q, vars)
	if r == interp.Unknown {
		// a solver timeout is not an answer: ask once more
		r, model = c.CheckModel(q, vars)
	}
	if r != interp.Sat {
		why := "the violation query has no model on this path (the path is infeasible)"
		if r == interp.Unknown {
			why = "UNDECIDED: the solver answered unknown to the violation query"
		}
		rep.inconclusiveViolation(cs, v, why)
		return false
	}
	values, err := cs.Prog.Atoms.ModelValues(model)
	if err != nil {
		rep.inconclusiveViolation(cs, v, err.Error())
		return false
	}
	// a symbolic layout is realised by inserting blank lines
	var lineVals []int64
	if cs.SymLines {
		lineVals = make([]int64, len(x.Lines))
		for k := 1; k < len(x.Lines); k++ {
			if x.Lines[k] != "" {
				lineVals[k], _ = interp.EvalInt(x.Lines[k], model)
			}
		}
		if n, err := interp.EvalInt(x.NTerm, model); err == nil {
			lineVals = append(lineVals, n) // last element: total number of lines
		}
	}
	w.replayLines = lineVals
	confirmed, rv, rsrcs, routs := w.Replay(cs, values, srcOf)
	w.replayLines = nil
	f := &Finding{Property: rep.Property, Case: cs.Name, Sub: v.Sub, Msg: v.Msg, Detail: v.Detail, Sources: rsrcs, Outputs: routs, Model: model, AtomValues: values, Shape: cs.Shape, Confirmed: confirmed}
	if rv != nil {
		f.ReplayMsg = rv.Msg
		f.ReplayDetail = rv.Detail
		f.ReplaySub = rv.Sub
		f.Tags = rv.Tags // tags count only when established on the native build
	}
	if !confirmed {
		rep.unconfirmed(f)
		return true
	}
	rep.violation(f)
	// an instance of a listed known finding does not end the case: a different
	// violation on another path must still be reported
	return f.Known == ""
}

func (w *Worker) Replay(cs *Case, values map[int]string, srcOf map[*Program]string) (bool, *Violation, map[string]string, map[string]string) {
	w.N.Fresh() // a counterexample is confirmed on a process that compiled nothing before
	var rv *Violation
	srcs := map[string]string{}
	outs := map[string]string{}
	body := func(c *interp.Ctx) {
		cs.Prog.Atoms.Declare(c, values)
		nlines := strings.Count(srcOf[cs.Prog], "\n")
		x := &OracleCtx{W: w, C: c, Case: cs, Src: cs.Prog.Atoms.Substitute(srcOf[cs.Prog], values), NLines: nlines, Res: map[string]*CompileResult{}, Replay: true}
		layout := func(s string) string { return s }
		if cs.SymLines {
			x.Lines = make([]string, nlines+2)
			for k := 1; k <= nlines; k++ {
				x.Lines[k] = interp.IntLit(int64(k))
			}
			x.NTerm = interp.IntLit(int64(nlines))
			if lv := w.replayLines; len(lv) >= nlines+1 {
				// put rendered line k on source line lv[k] by inserting blank lines
				for k := 1; k <= nlines && k < len(lv); k++ {
					x.Lines[k] = interp.IntLit(lv[k])
				}
				total := lv[len(lv)-1]
				if len(lv) > nlines+1 && total >= lv[nlines] {
					x.NTerm = interp.IntLit(total)
				} else {
					x.NTerm = interp.IntLit(lv[nlines])
				}
				layout = func(s string) string {
					ls := strings.Split(s, "\n")
					var sb strings.Builder
					cur := int64(1)
					for k := 1; k <= len(ls); k++ {
						if k <= nlines && k < len(lv) {
							for cur < lv[k] {
								sb.WriteString("\n")
								cur++
							}
						}
						sb.WriteString(ls[k-1])
						if k < len(ls) {
							if k+1 <= nlines && k+1 < len(lv) && lv[k+1] == lv[k] && cur == lv[k] {
								sb.WriteString(" ") // the next rendered line is on the same source line
							} else {
								sb.WriteString("\n")
								cur++
							}
						}
					}
					return sb.String()
				}
			}
		}
		for _, v := range cs.Variants {
			p := cs.Prog
			if v.Prog != nil {
				p = v.Prog
			}
			src := layout(cs.Prog.Atoms.Substitute(srcOf[p], values))
			srcs[v.Name] = src
			nres, err := w.nativeCompile(src, v.Opt, values)
			if err != nil {
				panic(interp.Inconclusive{Msg: "native helper: " + err.Error()})
			}
			x.Res[v.Name] = nres
			outs[v.Name] = strOf(nres.Out)
			if nres.Err.IsErr {
				outs[v.Name+".err"] = strOf(nres.Err.Msg)
			}
			if nres.Err.Panic != "" {
				outs[v.Name+".panic"] = nres.Err.Panic
			}
		}
		rv = cs.Oracle(x)
	}
	w.E.Explore(w.RS, 1, body, nil)
	// restore symbolic binding of atoms is done by the next Declare
	return rv != nil, rv, srcs, outs
}

// ---- findings, report, evidence

type Finding struct {
	Property     string            `json:"property"`
	Case         string            `json:"case"`
	Sub          string            `json:"sub_check"`
	Msg          string            `json:"message"`
	Detail       []string          `json:"detail,omitempty"`
	Sources      map[string]string `json:"sources"`
	Outputs      map[string]string `json:"native_outputs"`
	Model        map[string]string `json:"model,omitempty"`
	AtomValues   map[int]string    `json:"atom_values,omitempty"`
	Shape        interface{}       `json:"shape,omitempty"`
	Confirmed    bool              `json:"confirmed_by_native_replay"`
	ReplaySub    string            `json:"replay_sub_check,omitempty"`
	ReplayMsg    string            `json:"replay_message,omitempty"`
	ReplayDetail []string          `json:"replay_detail,omitempty"`
	Known        string            `json:"known_finding,omitempty"`
	Tags         []string          `json:"tags,omitempty"`
}

type KnownFinding struct {
	Property string          `json:"property"`
	ID       string          `json:"id"`
	Status   string          `json:"status"` // open | fixed
	Commit   string          `json:"commit,omitempty"`
	Title    string          `json:"title"`
	Witness  string          `json:"witness"`
	Match    json.RawMessage `json:"match"`
}

// Matcher decides whether a finding is an instance of a known finding.
type Matcher func(k *KnownFinding, f *Finding) bool

type Report struct {
	mu          sync.Mutex
	Property    string
	Tier        string
	Seed        int64
	Start       time.Time
	Technique   string
	Explanation string
	Bounds      map[string]interface{}
	Outside     []string
	Assumptions []string
	Functions   []string // name substrings anchoring coverage

	Cases        int
	NonTrivial   int
	Paths        interp.ExploreStats
	PathBoundHit int
	CrossOK      int
	CrossSkipped int
	Completions  int
	Escalated    int // cases re-run with SMT-string names
	EngineMism   []string
	SkippedAfterEnough int
	HistoryDep      int
	HistoryDepFirst string
	Violations   []*Finding
	Unconfirmed  []*Finding
	KnownHit     map[string]int
	InconViol    []string
	Samples      []interface{}
	Notes        []string
	fatal        []string
	solverQ      int
	solverSat    int
	solverUnsat  int
	solverUnk    int
	solverTime   time.Duration
	solverErrs   []string
	Extra        map[string]interface{}
	Known        []*KnownFinding
	Match        Matcher
	distinct     map[string]bool
	Witnesses    int // reachability witnesses that came back violated
	WitnessFail  []string
}

func NewReport(prop, tier string, seed int64) *Report {
	r := &Report{Property: prop, Tier: tier, Seed: seed, Start: time.Now(), KnownHit: map[string]int{}, Bounds: map[string]interface{}{}, Extra: map[string]interface{}{}, distinct: map[string]bool{}}
	r.loadKnown()
	return r
}

func (r *Report) loadKnown() {
	b, err := os.ReadFile(filepath.Join(VerifDir, "known_findings.json"))
	if err != nil {
		return
	}
	var all []*KnownFinding
	if err := json.Unmarshal(b, &all); err != nil {
		r.fatal = append(r.fatal, "known_findings.json: "+err.Error())
		return
	}
	for _, k := range all {
		if k.Property == r.Property {
			r.Known = append(r.Known, k)
		}
	}
}

func (r *Report) Fatal(msg string) {
	r.mu.Lock()
	r.fatal = append(r.fatal, msg)
	r.mu.Unlock()
}

func (r *Report) Aborted() bool {
	r.mu.Lock()
	defer r.mu.Unlock()
	return len(r.fatal) > 0
}

func (r *Report) note(s string) {
	r.mu.Lock()
	if len(r.Notes) < 50 {
		r.Notes = append(r.Notes, s)
	}
	r.mu.Unlock()
}

func (r *Report) countCase(cs *Case) {
	r.mu.Lock()
	r.Cases++
	if cs.NonTrivial && !r.distinct[cs.Name] {
		r.distinct[cs.Name] = true
		r.NonTrivial++
	}
	r.mu.Unlock()
}

func (r *Report) addExplore(cs *Case, st interp.ExploreStats, hit bool) {
	r.mu.Lock()
	r.Paths.Add(st)
	if hit {
		r.PathBoundHit++
	}
	r.mu.Unlock()
}

func (r *Report) addSolver(s *interp.Solver) {
	r.mu.Lock()
	r.solverQ += s.Queries
	r.solverSat += s.NSat
	r.solverUnsat += s.NUnsat
	r.solverUnk += s.NUnk
	r.solverTime += s.Time
	for _, e := range s.Errors {
		if len(r.solverErrs) < 20 {
			r.solverErrs = append(r.solverErrs, e)
		}
	}
	r.mu.Unlock()
}

func (r *Report) completion()   { r.mu.Lock(); r.Completions++; r.mu.Unlock() }
func (r *Report) escalated()    { r.mu.Lock(); r.Escalated++; r.mu.Unlock() }
func (r *Report) crossOK()      { r.mu.Lock(); r.CrossOK++; r.mu.Unlock() }
func (r *Report) crossSkipped() { r.mu.Lock(); r.CrossSkipped++; r.mu.Unlock() }
// historyDependent records that the native build gave a different answer
// after other compilations in the same process (a C17 matter; the engine
// starts every path from fresh package state).
func (r *Report) historyDependent(s string) {
	r.mu.Lock()
	r.HistoryDep++
	if r.HistoryDepFirst == "" {
		r.HistoryDepFirst = s
	}
	r.mu.Unlock()
}

func (r *Report) engineMismatch(s string) {
	r.mu.Lock()
	if len(r.EngineMism) < 20 {
		r.EngineMism = append(r.EngineMism, s)
	} else {
		r.EngineMism = append(r.EngineMism, "")
	}
	r.mu.Unlock()
}

func (r *Report) inconclusiveViolation(cs *Case, v *Violation, why string) {
	r.mu.Lock()
	r.InconViol = append(r.InconViol, fmt.Sprintf("%s/%s: %s (%s)", cs.Name, v.Sub, v.Msg, why))
	r.mu.Unlock()
}

func (r *Report) violationCount() int {
	r.mu.Lock()
	defer r.mu.Unlock()
	return len(r.Violations)
}

func (r *Report) skipAfterEnough() {
	r.mu.Lock()
	r.SkippedAfterEnough++
	r.mu.Unlock()
}

func (r *Report) unconfirmed(f *Finding) {
	r.mu.Lock()
	r.Unconfirmed = append(r.Unconfirmed, f)
	r.mu.Unlock()
}

func (r *Report) violation(f *Finding) {
	r.mu.Lock()
	defer r.mu.Unlock()
	for _, k := range r.Known {
		if k.Status == "open" && r.Match != nil && r.Match(k, f) {
			f.Known = k.ID
			r.KnownHit[k.ID]++
			return
		}
	}
	r.Violations = append(r.Violations, f)
}

// AddSample records a sample case for the evidence file.
func (r *Report) AddSample(s interface{}) {
	r.mu.Lock()
	if len(r.Samples) < 6 {
		r.Samples = append(r.Samples, s)
	}
	r.mu.Unlock()
}

// Witness records the outcome of a reachability witness.
func (r *Report) Witness(name string, violated bool) {
	r.mu.Lock()
	if violated {
		r.Witnesses++
	} else {
		r.WitnessFail = append(r.WitnessFail, name)
	}
	r.mu.Unlock()
}

// Finish writes evidence and replay files, prints the verdict lines and
// returns the process exit code.
func (r *Report) Finish(env *Env) int {
	wall := time.Since(r.Start).Seconds()
	if len(r.fatal) > 0 {
		for _, f := range r.fatal {
			fmt.Fprintln(os.Stderr, "CHECK-ERROR:", f)
		}
		return 3
	}
	os.MkdirAll(filepath.Join(OutDir, "replays"), 0o755)
	os.MkdirAll(filepath.Join(OutDir, "evidence"), 0o755)
	exit := 0
	for i, f := range r.Violations {
		path := filepath.Join(OutDir, "replays", fmt.Sprintf("%s-%s-%d.json", r.Property, r.Tier, i))
		b, _ := json.MarshalIndent(f, "", " ")
		os.WriteFile(path, b, 0o644)
		if i < 20 {
			fmt.Printf("VIOLATION property=%s replay=%s\n", r.Property, path)
			fmt.Printf("  %s / %s: %s\n", f.Case, f.Sub, f.Msg)
		}
		exit = 1
	}
	var knownIDs []string
	for id := range r.KnownHit {
		knownIDs = append(knownIDs, id)
	}
	sort.Strings(knownIDs)
	for _, id := range knownIDs {
		for _, k := range r.Known {
			if k.ID == id {
				fmt.Printf("KNOWN-FINDING: property=%s %s: %s (%d instances in this run)\n", r.Property, k.ID, k.Title, r.KnownHit[id])
			}
		}
	}
	if exit == 0 {
		for _, iv := range r.InconViol {
			if strings.Contains(iv, "UNDECIDED") {
				// an assertion failed and the solver neither produced nor refuted a
				// counterexample: that is not a pass
				fmt.Fprintf(os.Stderr, "CHECK-ERROR: an assertion failed on a path and the solver answered unknown to the counterexample query (nothing is claimed): %s\n", iv)
				return 3
			}
		}
	}
	// Diagnostics about the machinery itself. Without a confirmed
	// counterexample they mean that nothing can be claimed (exit 3). With one,
	// the verdict stands - every reported violation was reproduced on the
	// natively built code with the same oracle - and the diagnostics are printed
	// for information: code that breaks the property often also breaks an
	// expectation of a twin or sends the encoder down a path it cannot follow.
	broken := false
	if len(r.EngineMism) > 0 {
		fmt.Fprintf(os.Stderr, "CHECK-ERROR: %d engine/native mismatches (engine defect, nothing is claimed for those paths)\n%s\n", len(r.EngineMism), r.EngineMism[0])
		broken = true
	}
	if len(r.WitnessFail) > 0 {
		fmt.Fprintf(os.Stderr, "CHECK-ERROR: reachability witnesses not violated (vacuous harness): %v\n", r.WitnessFail)
		broken = true
	}
	if len(r.Unconfirmed) > 0 {
		// a counterexample that does not reproduce natively means the
		// encoding or an oracle is wrong: the check is broken, not the code
		b, _ := json.MarshalIndent(r.Unconfirmed[0], "", " ")
		fmt.Fprintf(os.Stderr, "CHECK-ERROR: %d symbolic counterexamples did not reproduce on the native build (encoding/oracle defect); first:\n%s\n", len(r.Unconfirmed), b)
		broken = true
	}
	if broken && exit == 0 {
		return 3
	}
	cov := env.P.Coverage(r.Functions...)
	unreached := []string{}
	reached := 0
	for _, fc := range cov {
		if fc.BlocksReached == 0 {
			unreached = append(unreached, fc.Name)
		} else {
			reached++
		}
	}
	ev := map[string]interface{}{
		"property_id": r.Property,
		"tier":        r.Tier,
		"seed":        r.Seed,
		"level":       "other",
		"wall_s":      wall,
		"violations":  len(r.Violations),
		"assumptions": r.Assumptions,
		"coverage": map[string]interface{}{
			"explanation":                   r.Explanation,
			"technique":                     r.Technique,
			"evaluations":                   r.Paths.Paths + r.Cases,
			"distinct_nontrivial":           r.NonTrivial,
			"rule":                          "evaluations = skeletons + symbolic paths explored; distinct_nontrivial = distinct skeletons (by name) that contain at least one branching construct or symbolic decision",
			"skeletons":                     r.Cases,
			"paths":                         map[string]interface{}{"explored": r.Paths.Paths, "completed": r.Paths.Done, "cut_at_bound": r.Paths.BeyondBound, "inconclusive": r.Paths.Inconclusive, "fuel_exhausted": r.Paths.Fuel, "target_panics": r.Paths.Panics, "path_bound_hit_cases": r.PathBoundHit, "inconclusive_reasons": r.Paths.InconMsgs, "feasibility_unknown": r.Paths.UnknownFeas},
			"ssa_steps":                     r.Paths.Steps,
			"queries":                       map[string]interface{}{"total": r.solverQ, "sat": r.solverSat, "unsat": r.solverUnsat, "unknown": r.solverUnk},
			"solver_time_s":                 r.solverTime.Seconds(),
			"solver":                        interp.SolverBin + " (z3 5.1.0) via one incremental pipe per worker",
			"solver_errors":                 r.solverErrs,
			"traces_validated_against_impl": r.CrossOK,
			"cross_check_skipped":           r.CrossSkipped,
			"inconclusive_paths_completed_by_one_native_model": r.Completions,
			"cases_rerun_with_smt_string_names":                r.Escalated,
			"engine_mismatches":             len(r.EngineMism),
			"native_answers_depending_on_process_history": r.HistoryDep,
			"reachability_witnesses":        r.Witnesses,
			"known_findings_hit":            r.KnownHit,
			"inconclusive_violation_queries": r.InconViol,
			"functions_encoded":             cov,
			"functions_reached":             reached,
			"anchored_functions_unreached":  unreached,
			"bounds":                        r.Bounds,
			"outside_bounds":                r.Outside,
			"samples":                       r.Samples,
			"notes":                         r.Notes,
			"extra":                         r.Extra,
			"load_time_s":                   env.P.LoadTime.Seconds(),
			"exhaustive":                    false,
		},
	}
	b, _ := json.MarshalIndent(ev, "", " ")
	os.WriteFile(filepath.Join(OutDir, "evidence", r.Property+".json"), b, 0o644)
	fmt.Printf("%s %s: skeletons=%d paths=%d (inconclusive %d, beyond-bound %d) queries=%d solver=%.1fs cross-checked=%d violations=%d known=%d wall=%.1fs\n",
		r.Property, r.Tier, r.Cases, r.Paths.Paths, r.Paths.Inconclusive, r.Paths.BeyondBound, r.solverQ, r.solverTime.Seconds(), r.CrossOK, len(r.Violations), len(r.KnownHit), wall)
	if r.SkippedAfterEnough > 0 {
		fmt.Printf("NOTE: %d cases were skipped after 25 confirmed counterexamples\n", r.SkippedAfterEnough)
	}
	for _, iv := range r.InconViol {
		fmt.Printf("NOTE: an assertion failed on a path but no counterexample could be produced: %s\n", iv)
	}
	if r.HistoryDep > 0 {
		fmt.Printf("NOTE: %d native cross-checks gave a different answer in a used helper process than in a fresh one (compilation depends on earlier compilations in the process: see C17): %s\n", r.HistoryDep, strings.SplitN(r.HistoryDepFirst, "\n", 2)[0])
	}
	if r.Paths.Inconclusive > 0 {
		why := ""
		for m := range r.Paths.InconMsgs {
			why = m
			break
		}
		fmt.Printf("NOTE: %d of %d paths were not decided by the encoder (each was completed by one native run only; they are outside the claim): %s\n", r.Paths.Inconclusive, r.Paths.Paths, why)
	}
	return exit
}
