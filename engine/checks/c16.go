package checks

import (
	"fmt"
	"strings"

	"verif/engine/interp"
)

type c16Shape struct {
	Program string `json:"program"`
}

// lineExpect maps an output line to the source lines its marker may name.
type lineExpect struct {
	desc  string
	match func(al *AsmLine, c *interp.Ctx) bool
	lines func() []int
}

type c16Prog struct {
	prog    *Program
	expects []*lineExpect
	raws    []*RawTopStmt
	avs     []AVSpec
	name    string
	pathAtom *Atom
	concretePath string
	setup func(x *OracleCtx)
}

func mnemIs(al *AsmLine, m string) bool { return al.Kind == "instr" && al.Mnem == m }

func firstOperand(al *AsmLine) interp.Value {
	if a, _, ok := splitFirst(al.Rest, ", "); ok {
		return a
	}
	return al.Rest
}

func c16Build(kind string) *c16Prog {
	atoms := &AtomTable{Coded: true}
	cp := &c16Prog{name: kind}
	add := func(desc string, match func(al *AsmLine, c *interp.Ctx) bool, lines func() []int) {
		cp.expects = append(cp.expects, &lineExpect{desc, match, lines})
	}
	same := func(c *interp.Ctx, a, b interp.Value) bool { return sameValue(c, a, b) == 1 }
	newCmd := func() *Cmd {
		cm := &Cmd{Name: A(atoms.New(ClsPlainCmd, "cmd", "cmds"))}
		add("command", func(al *AsmLine, c *interp.Ctx) bool {
			return al.Kind == "instr" && al.Mnem == "" && same(c, firstWord(al), cm.Name.Val())
		}, func() []int { return []int{cm.Line} })
		return cm
	}
	newLabel := func(scope string) *Label {
		lb := &Label{Name: atoms.New(ClsUserName, "lbl", "names"), Scope: scope}
		add("label", func(al *AsmLine, c *interp.Ctx) bool { return al.Kind == "label" && same(c, al.Name, lb.Name.Val) },
			func() []int { return []int{lb.Line} })
		return lb
	}
	flagLeaf := func(kind string) *Expr {
		op := atoms.New(ClsIdent, "operand", "operands")
		lf := &Leaf{Kind: kind, Operand: []Tok{A(op)}}
		if kind == "var" {
			lf.Op, lf.Value = "==", []Tok{A(atoms.New(ClsNum, "val", ""))}
		}
		add(kind+" operand", func(al *AsmLine, c *interp.Ctx) bool {
			switch kind {
			case "flag":
				return (mnemIs(al, "goto_if_set") || mnemIs(al, "goto_if_unset")) && same(c, firstOperand(al), op.Val)
			case "var":
				return (mnemIs(al, "compare") || mnemIs(al, "compare_var_to_value")) && same(c, firstOperand(al), op.Val)
			default:
				return mnemIs(al, "checktrainerflag") && same(c, al.Rest, op.Val)
			}
		}, func() []int { return []int{lf.Line} })
		return &Expr{Kind: ELeaf, Leaf: lf}
	}
	var tops []interface{}
	sname := atoms.New(ClsUserName, "script", "names")
	switch kind {
	case "script":
		sw := &Switch{Operand: []Tok{A(atoms.New(ClsIdent, "swvar", "operands"))}}
		add("switch operand", func(al *AsmLine, c *interp.Ctx) bool { return mnemIs(al, "switch") && same(c, al.Rest, sw.Operand[0].Val()) },
			func() []int { return []int{sw.Line} })
		for i := 0; i < 2; i++ {
			v := atoms.New(ClsNum, "case", "")
			cs := &SwCase{Value: []Tok{A(v)}, Body: []Stmt{newCmd()}}
			add("case", func(al *AsmLine, c *interp.Ctx) bool { return mnemIs(al, "case") && same(c, firstOperand(al), v.Val) },
				func() []int { return []int{cs.Line} })
			sw.Cases = append(sw.Cases, cs)
		}
		sw.Cases = append(sw.Cases, &SwCase{Default: true, Body: []Stmt{newCmd()}})
		caseVals := []*Atom{sw.Cases[0].Value[0].A, sw.Cases[1].Value[0].A}
		_ = caseVals
		body := []Stmt{
			newCmd(), newLabel(""),
			&If{Conds: []*Expr{{Kind: EAnd, L: flagLeaf("flag"), R: flagLeaf("var")}, flagLeaf("defeated")}, Bodies: [][]Stmt{{newCmd(), newLabel("global")}, {newCmd()}}, Else: []Stmt{newCmd()}, HasElse: true},
			&While{Cond: flagLeaf("flag"), Body: []Stmt{newCmd(), &If{Conds: []*Expr{flagLeaf("var")}, Bodies: [][]Stmt{{&Break{}}}}}},
			&DoWhile{Cond: flagLeaf("defeated"), Body: []Stmt{newCmd()}},
			sw, newCmd(), &Cmd{Name: L("end")},
		}
		tops = append(tops, &Script{Name: sname, Body: body})
		cp.prog = &Program{Atoms: atoms, Tops: tops}
		setup := func(x *OracleCtx) {
			if !x.Replay && caseVals[0].IntT != "" {
				x.C.Assume(fmt.Sprintf("(distinct %s %s)", caseVals[0].IntT, caseVals[1].IntT))
			}
		}
		cp.setup = setup
	case "autovar":
		av := atoms.New(ClsPlainCmd, "av", "cmds")
		res := atoms.New(ClsIdent, "res", "operands")
		arg := atoms.New(ClsIdent, "arg", "")
		cp.avs = []AVSpec{{Name: A(av), VarName: A(res), Pos: -1}}
		use := &AVUse{Name: A(av), Args: [][]Tok{{A(arg)}}}
		lf := &Leaf{Kind: "autovar", AV: use, Op: "==", Value: []Tok{A(atoms.New(ClsNum, "val", ""))}}
		add("autovar result comparison", func(al *AsmLine, c *interp.Ctx) bool {
			return mnemIs(al, "compare") && same(c, firstOperand(al), res.Val)
		}, func() []int { return []int{lf.Line} })
		sw := &Switch{AV: &AVUse{Name: A(av), Args: [][]Tok{{A(arg)}}}, Cases: []*SwCase{{Value: []Tok{L("1")}, Body: []Stmt{newCmd()}}}}
		add("autovar switch", func(al *AsmLine, c *interp.Ctx) bool { return mnemIs(al, "switch") && same(c, al.Rest, res.Val) },
			func() []int { return []int{sw.Line} })
		add("case", func(al *AsmLine, c *interp.Ctx) bool { return mnemIs(al, "case") }, func() []int { return []int{sw.Cases[0].Line} })
		body := []Stmt{&If{Conds: []*Expr{{Kind: ELeaf, Leaf: lf}}, Bodies: [][]Stmt{{newCmd()}}}, sw}
		cp.prog = &Program{Atoms: atoms, Tops: []interface{}{&Script{Name: sname, Body: body}}}
	case "data":
		tname := atoms.New(ClsUserName, "text", "names")
		text := &TextTop{Name: tname, Lits: []*StrLit{{Parts: []Tok{L("hello")}}, {Parts: []Tok{L("world")}}}}
		add("text line", func(al *AsmLine, c *interp.Ctx) bool { return al.Kind == "instr" && al.Mnem == ".string" },
			func() []int { return []int{text.Line, text.LitLine} })
		mname := atoms.New(ClsUserName, "movement", "names")
		mov := &MovementTop{Name: mname}
		add("movement label", func(al *AsmLine, c *interp.Ctx) bool { return al.Kind == "label" && same(c, al.Name, mname.Val) },
			func() []int { return []int{mov.Line} })
		for i := 0; i < 2; i++ {
			st := &Step{Name: A(atoms.New(ClsIdent, "step", "steps", "step_end"))}
			mov.Steps = append(mov.Steps, st)
			add("movement step", func(al *AsmLine, c *interp.Ctx) bool {
				return al.Kind == "instr" && al.Mnem == "" && same(c, firstWord(al), st.Name.Val())
			}, func() []int { return []int{st.Line} })
		}
		martname := atoms.New(ClsUserName, "mart", "names")
		mart := &MartTop{Name: martname}
		add("mart label", func(al *AsmLine, c *interp.Ctx) bool { return al.Kind == "label" && same(c, al.Name, martname.Val) },
			func() []int { return []int{mart.Line} })
		for i := 0; i < 2; i++ {
			it := &Step{Name: A(atoms.New(ClsIdent, "item", "items", "ITEM_NONE"))}
			mart.Items = append(mart.Items, it)
			add("mart item", func(al *AsmLine, c *interp.Ctx) bool {
				return mnemIs(al, ".2byte") && same(c, al.Rest, it.Name.Val())
			}, func() []int { return []int{it.Line} })
		}
		msname := atoms.New(ClsUserName, "map", "names")
		e1 := &MapEntry{Type: atoms.New(ClsIdent, "mstype", "mstypes"), Kind: "plain", Label: atoms.New(ClsIdent, "target", "")}
		e2 := &MapEntry{Type: atoms.New(ClsIdent, "mstype", "mstypes"), Kind: "table"}
		r1 := &MapRow{Cond: []Tok{A(atoms.New(ClsIdent, "cond", "conds"))}, Value: []Tok{L("1")}, Label: atoms.New(ClsIdent, "target", "")}
		r2 := &MapRow{Cond: []Tok{A(atoms.New(ClsIdent, "cond", "conds"))}, Value: []Tok{L("2")}, Body: []Stmt{newCmd()}}
		e2.Rows = []*MapRow{r1, r2}
		for _, e := range []*MapEntry{e1, e2} {
			e := e
			add("map script entry", func(al *AsmLine, c *interp.Ctx) bool { return mnemIs(al, "map_script") && same(c, firstOperand(al), e.Type.Val) },
				func() []int { return []int{e.Line} })
		}
		for _, r := range []*MapRow{r1, r2} {
			r := r
			add("map script table row", func(al *AsmLine, c *interp.Ctx) bool {
				return mnemIs(al, "map_script_2") && same(c, firstOperand(al), r.Cond[0].Val())
			}, func() []int { return []int{r.Line} })
		}
		ms := &MapScriptsTop{Name: msname, Entries: []*MapEntry{e1, e2}}
		// hoisted text and movement of a script
		hcmd := atoms.New(ClsPlainCmd, "cmd", "cmds")
		mcmd := atoms.New(ClsPlainCmd, "cmd", "cmds")
		hs := &Script{Name: sname, Body: []Stmt{&RawStmt{Text: hcmd.Placeholder() + "(\"inline$\")"}, &RawStmt{Text: mcmd.Placeholder() + "(moves(walk_up))"}}}
		for _, cm := range []*Atom{hcmd, mcmd} {
			cm := cm
			add("command", func(al *AsmLine, c *interp.Ctx) bool {
				return al.Kind == "instr" && al.Mnem == "" && same(c, firstWord(al), cm.Val)
			}, func() []int { return []int{hs.Line + 1, hs.Line + 2} })
		}
		add("hoisted movement label / step", func(al *AsmLine, c *interp.Ctx) bool {
			return al.Kind == "label" && same(c, al.Name, cat(sname.Val, "_Movement_0")) || al.Kind == "instr" && al.Mnem == "walk_up"
		}, func() []int { return []int{hs.Line + 2} })
		cp.expects = append([]*lineExpect{{"hoisted text line", func(al *AsmLine, c *interp.Ctx) bool {
			return mnemIs(al, ".string") && same(c, al.Rest, "\"inline$\"")
		}, func() []int { return []int{hs.Line + 1} }}}, cp.expects...)
		cp.prog = &Program{Atoms: atoms, Tops: []interface{}{hs, text, mov, mart, ms}}
	case "raw-empty", "raw-blank", "raw-crlf", "unicode-line-separators":
		// edge layouts of raw blocks: only transparency, marker form, path and
		// range are asserted (no per-line expectation)
		text := map[string]string{
			"raw-empty": "raw ``",
			"raw-blank": "raw `\n\n\n`",
			"raw-crlf":  "raw `\r\nfirst\r\nsecond\r\n`\r",
			// U+2028 / U+2029 / U+0085 / form feed do not end a source line
			"unicode-line-separators": "# a comment\u2028with\u2029separators\u0085\f\nraw `\none\u2028two`\ntext Zt { \"a\u2029b$\" }",
		}[kind]
		cp.prog = &Program{Atoms: atoms, Tops: []interface{}{&TopRaw{Text: text}, &Script{Name: sname, Body: []Stmt{newCmd()}}}}
	case "raw-same-line", "raw-next-line":
		rw := &RawTopStmt{Lines: []string{"rawline_one", "rawline_two 100% %d %%s", "\t.string \"three$\" @ comment"}, SameLine: kind == "raw-same-line"}
		cp.raws = append(cp.raws, rw)
		for i, l := range rw.Lines {
			i, l := i, l
			add("raw line", func(al *AsmLine, c *interp.Ctx) bool { return al.Kind == "other" && same(c, al.Raw, l) },
				func() []int { return []int{rw.TickLine + 1 + i} })
		}
		cp.expects = append(cp.expects, &lineExpect{"raw first (empty) line", func(al *AsmLine, c *interp.Ctx) bool { return al.Kind == "blank" }, func() []int { return []int{rw.TickLine} }})
		cp.prog = &Program{Atoms: atoms, Tops: []interface{}{&Script{Name: sname, Body: []Stmt{newCmd()}}, rw}}
	}
	return cp
}

func firstWord(al *AsmLine) interp.Value {
	body, _ := trimPrefixLit(al.Raw, "\t")
	if a, _, ok := splitFirst(body, " "); ok {
		return a
	}
	return body
}

// parseMarker splits `# <n> "<path>"`.
func parseMarker(v interp.Value) (n interp.Value, path interp.Value, ok bool) {
	rest, ok1 := trimPrefixLit(v, "# ")
	if !ok1 {
		return nil, nil, false
	}
	num, p, ok2 := splitFirst(rest, " \"")
	if !ok2 {
		return nil, nil, false
	}
	p, ok3 := trimSuffixLit(p, "\"")
	if !ok3 {
		return nil, nil, false
	}
	return num, p, true
}

func numTermOf(v interp.Value) (string, bool) {
	if s, ok := v.(string); ok {
		if n, ok := concreteNum(s); ok {
			return interp.IntLit(n), true
		}
		return "", false
	}
	ps := interp.Parts(v)
	if len(ps) == 1 && ps[0].Kind == interp.PInt {
		return ps[0].Lit, true
	}
	return "", false
}

func c16Case(kind string, pathKind string) *Case {
	cp := c16Build(kind)
	atoms := cp.prog.Atoms
	lmOpt := CompileOpts{Optimize: true, LM: true, AVs: cp.avs}
	switch pathKind {
	case "atom":
		cp.pathAtom = atoms.New(ClsPath, "path", "")
		lmOpt.PathAtom = cp.pathAtom
	case "backslash":
		cp.concretePath = `C:\dir\file.pory`
		lmOpt.Path = cp.concretePath
	default:
		cp.concretePath = "some/dir/file.pory"
		lmOpt.Path = cp.concretePath
	}
	variants := []Variant{
		{Name: "lm", Opt: lmOpt},
		{Name: "nolm", Opt: CompileOpts{Optimize: true, LM: false, AVs: cp.avs, Path: "x.pory"}},
		{Name: "lm-nopath", Opt: CompileOpts{Optimize: true, LM: true, AVs: cp.avs, Path: ""}},
		{Name: "lm-noopt", Opt: CompileOpts{Optimize: false, LM: true, AVs: cp.avs, Path: "x.pory"}},
		{Name: "nolm-noopt", Opt: CompileOpts{Optimize: false, LM: false, AVs: cp.avs, Path: "x.pory"}},
	}
	cs := &Case{Name: fmt.Sprintf("c16/%s/path=%s", kind, pathKind), Prog: cp.prog, Variants: variants, SymLines: true, NonTrivial: true, Shape: c16Shape{Program: kind}, MaxPaths: 64}
	// programs without string literals and raw blocks: several constructs may
	// be written on one source line
	cs.SharedLines = kind == "script" || kind == "autovar"
	cs.Setup = func(x *OracleCtx) {
		if cp.setup != nil {
			cp.setup(x)
		}
		if x.Replay {
			return
		}
		// inside a raw block the source lines are consecutive
		for _, rw := range cp.raws {
			for i := 1; i <= len(rw.Lines)+1; i++ {
				if rw.TickLine+i < len(x.Lines) && x.Lines[rw.TickLine+i] != "" {
					x.C.Assume(fmt.Sprintf("(= %s (+ %s %d))", x.Lines[rw.TickLine+i], x.Lines[rw.TickLine], i))
				}
			}
		}
	}
	cs.Oracle = func(x *OracleCtx) *Violation {
		for _, v := range x.Case.Variants {
			r := x.Res[v.Name]
			if r.Err.Panic != "" || r.Err.IsErr {
				return &Violation{Sub: "accept", Msg: "variant " + v.Name + " rejected: " + interp.ToString(r.Err.Msg) + r.Err.Panic}
			}
		}
		// (1) transparency
		for _, pair := range [][2]string{{"lm", "nolm"}, {"lm-noopt", "nolm-noopt"}} {
			got := outputLines(x.Res[pair[0]].Out, false)
			want := outputLines(x.Res[pair[1]].Out, true)
			if v := expectLines(x, "transparency", "-lm output without its marker lines vs -lm=false output ("+pair[0]+")", got, want); v != nil {
				return v
			}
		}
		// (3) no path, no markers
		if v := expectLines(x, "no-path", "-lm output without an input path vs -lm=false output", outputLines(x.Res["lm-nopath"].Out, true), outputLines(x.Res["nolm"].Out, true)); v != nil {
			return v
		}
		// (2) every marker names the file and the right line
		var wantPath interp.Value = cp.concretePath
		if cp.pathAtom != nil {
			wantPath = cp.pathAtom.Val
		}
		if s, ok := wantPath.(string); ok {
			wantPath = strings.ReplaceAll(s, `\`, `\\`)
		}
		for _, vn := range []string{"lm", "lm-noopt"} {
			expectPath := wantPath
			if vn == "lm-noopt" {
				expectPath = "x.pory"
			}
			all := ParseAsm(x.Res[vn].Out)
			for i, al := range all {
				if al.Kind != "marker" {
					continue
				}
				n, path, ok := parseMarker(al.Raw)
				if !ok {
					return &Violation{Sub: "marker", Msg: "malformed marker line " + interp.ToString(al.Raw)}
				}
				if _, isAtomPath := expectPath.(string); isAtomPath || cp.pathAtom == nil || !pathHasBackslash(cp.pathAtom) {
					switch sameValue(x.C, path, expectPath) {
					case 1:
					case -2:
						panic(interp.Inconclusive{Msg: "solver unknown comparing marker path"})
					default:
						return &Violation{Sub: "marker-path", Query: interp.Not(interp.BoolTerm(interp.StrEq(path, expectPath))), Msg: fmt.Sprintf("marker names file %s, expected %s", interp.ToString(path), interp.ToString(expectPath))}
					}
				}
				nt, ok := numTermOf(n)
				if !ok {
					return &Violation{Sub: "marker", Msg: "marker line number is not a number: " + interp.ToString(n)}
				}
				inRange := fmt.Sprintf("(and (>= %s 1) (<= %s %s))", nt, nt, x.NTerm)
				if x.C.Valid(inRange) != interp.Unsat {
					return &Violation{Sub: "marker-range", Query: interp.Not(inRange), Msg: fmt.Sprintf("marker line number %s is not inside 1..number of source lines (followed by %s)", interp.ToString(n), interp.ToString(nextLine(all, i)))}
				}
				// the construct that follows
				var next *AsmLine
				for j := i + 1; j < len(all); j++ {
					if all[j].Kind != "marker" {
						next = all[j]
						break
					}
				}
				if next == nil {
					return &Violation{Sub: "marker", Msg: "a marker is the last line of the output"}
				}
				var exp *lineExpect
				for _, e := range cp.expects {
					if e.match(next, x.C) {
						exp = e
						break
					}
				}
				if exp == nil {
					continue // a construct the registry does not know (e.g. generated jumps have no marker of their own)
				}
				var alts []string
				for _, k := range exp.lines() {
					if k >= 1 && k < len(x.Lines) && x.Lines[k] != "" {
						alts = append(alts, fmt.Sprintf("(= %s %s)", nt, x.Lines[k]))
					}
				}
				ok2 := interp.Or(alts...)
				if x.C.Valid(ok2) != interp.Unsat {
					v := &Violation{Sub: "marker-line", Query: interp.Not(ok2), Msg: fmt.Sprintf("the marker before the %s names line %s, but the construct was written on source line #%v of the rendered text", exp.desc, interp.ToString(n), exp.lines())}
					if exp.desc == "raw line" || exp.desc == "raw first (empty) line" {
						v.Tags = append(v.Tags, "raw_numbered_from_keyword")
					}
					return v
				}
			}
		}
		return nil
	}
	return cs
}

func nextLine(all []*AsmLine, i int) interp.Value {
	for j := i + 1; j < len(all); j++ {
		if all[j].Kind != "marker" {
			return all[j].Raw
		}
	}
	return ""
}

func pathHasBackslash(a *Atom) bool { return true }

func matchKnownC16(k *KnownFinding, f *Finding) bool {
	var sh c16Shape
	shapeOfFinding(f, &sh)
	switch kindOf(k) {
	case "autovar_marker_zero":
		return sh.Program == "autovar" && f.ReplaySub == "marker-range"
	case "raw_numbered_from_keyword":
		if sh.Program != "raw-next-line" {
			return false
		}
		for _, t := range f.Tags {
			if t == "raw_numbered_from_keyword" {
				return true
			}
		}
	}
	return false
}

// RunC16 is the check of property C16.
func RunC16(env *Env, rep *Report) {
	var cases []*Case
	for _, kind := range []string{"script", "autovar", "data", "raw-same-line", "raw-next-line", "raw-empty", "raw-blank", "raw-crlf", "unicode-line-separators"} {
		cases = append(cases, c16Case(kind, "concrete"))
	}
	cases = append(cases, c16Case("script", "atom"), c16Case("data", "backslash"))
	if env.Tier == "thorough" {
		// every program under every kind of path
		for _, kind := range []string{"script", "autovar", "data", "raw-same-line", "raw-next-line", "raw-empty", "raw-blank", "raw-crlf", "unicode-line-separators"} {
			for _, pk := range []string{"atom", "backslash"} {
				if (kind == "script" && pk == "atom") || (kind == "data" && pk == "backslash") {
					continue // already in the quick list
				}
				cases = append(cases, c16Case(kind, pk))
			}
		}
	}
	rep.Technique = "symbolic execution of the real emitter's line-marker paths (go/ssa) with symbolic line numbers (a strictly increasing symbolic map of the rendered lines) and a symbolic input path; assertions on the marker lines decided by the solver (z3 LIA + seq)"
	rep.Explanation = "Bounded symbolic verification, not a proof. Programs containing every construct that gets a marker (commands, labels, flag/var/defeated operands in if/elif/while/do-while, switch operand and cases, autovar conditions and switches, text statements and inline text, movement statements, steps and hoisted moves(), marts and items, map-script entries and table rows, raw blocks with the backtick on the keyword's line or the next) are compiled by symbolic execution with every token's line number replaced by L(k), an increasing symbolic function of the rendered line k with L(1)>=1 and L(last)<=N - i.e. any number of blank or comment lines anywhere; for the script and autovar programs L is only non-decreasing, so any run of consecutive constructs may also be written on one source line - and with the input path a symbolic string, a path with backslashes, or empty. Asserted: (1) the -lm output without its marker lines equals the -lm=false output line by line; (2) every marker has the form '# n \"path\"' with the given path (backslashes doubled), 1<=n<=N valid under the path condition, and n = L(k) for the source line k of the construct that follows it (validity queries to the solver); (3) with an empty path there are no markers."
	rep.Bounds = map[string]interface{}{"programs": []string{"script (all statement kinds)", "autovar", "data (text, movement, mart, mapscripts, hoisted text and movement)", "raw (two layouts; empty, blank-only and CRLF blocks for transparency)"}, "cases": len(cases), "paths": "concrete, symbolic (printable, no quote), with backslashes, empty"}
	rep.Outside = []string{"two constructs on one source line in the programs with string literals or raw blocks (there L is strictly increasing)", "one construct spread over several lines", "other program shapes", "whether every construct gets a marker (the property only constrains the markers that are emitted)"}
	rep.Assumptions = []string{"inside a raw block source lines are consecutive", "for a text statement the marker may name the line of the 'text' keyword or of its first literal"}
	rep.Functions = []string{"tryEmitLineMarker", "emitLineMarker", "shouldEmitLineMarkers", "emitRawStatement", "emitText", "emitMovementStatement", "emitMartStatement", "emitMapScriptStatement", "renderStatements", "renderBranchComparison", "switchBranch"}
	rep.Match = matchKnownC16
	src, _ := cases[0].Prog.Render()
	rep.AddSample(map[string]interface{}{"case": cases[0].Name, "source_with_holes": src})
	runWitness(env, rep, "c16-witness-off-by-one", func() *Case {
		cs := c16Case("raw-same-line", "concrete")
		orig := cs.Oracle
		// twin: claim that raw lines are numbered one too low
		cs.Setup = func(x *OracleCtx) {}
		_ = orig
		cs.Oracle = func(x *OracleCtx) *Violation {
			all := ParseAsm(x.Res["lm"].Out)
			for _, al := range all {
				if al.Kind == "marker" {
					n, _, _ := parseMarker(al.Raw)
					if nt, ok := numTermOf(n); ok {
						q := fmt.Sprintf("(> %s %s)", nt, x.Lines[1])
						if x.C.Check(q) == interp.Sat {
							return &Violation{Sub: "witness", Query: q, Msg: "a marker names a line after the first"}
						}
					}
				}
			}
			return nil
		}
		return cs
	})
	env.RunJobs(len(cases), rep, func(w *Worker, i int) { w.RunCase(cases[i], rep) })
}
