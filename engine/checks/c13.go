package checks

import (
	"fmt"
	"strings"

	"verif/engine/interp"
)

type c13Shape struct {
	Site   string `json:"site"`
	Defs   string `json:"defs"`
	IsSite bool   `json:"is_site"`
}

type c13Site struct {
	name   string
	isSite bool
	// prog renders the program around the use token text u
	prog func(u string, a *AtomTable) string
	avs  func(a *AtomTable) []AVSpec
}

func c13Sites() []c13Site {
	ph := func(a *Atom) string { return a.Placeholder() }
	script := func(at *AtomTable, body string) string {
		return "script " + ph(at.New(ClsUserName, "script", "names")) + " {\n" + body + "\n}"
	}
	cmd := func(at *AtomTable) string { return ph(at.New(ClsPlainCmd, "cmd", "")) }
	return []c13Site{
		{"command-argument", true, func(u string, at *AtomTable) string { return script(at, cmd(at)+"("+ph(at.New(ClsIdent, "arg", "consts"))+", "+u+" + 1)") }, nil},
		{"command-argument-nested-parens", true, func(u string, at *AtomTable) string { return script(at, cmd(at)+"("+ph(at.New(ClsIdent, "fn", "consts"))+"("+u+"))") }, nil},
		{"command-argument-before-paren", true, func(u string, at *AtomTable) string { return script(at, cmd(at)+"("+u+"(3), "+ph(at.New(ClsIdent, "arg", "consts"))+")") }, nil},
		{"flag-operand", true, func(u string, at *AtomTable) string { return script(at, "if (flag("+u+")) {\n"+cmd(at)+"\n}") }, nil},
		{"var-operand", true, func(u string, at *AtomTable) string { return script(at, "if (var("+u+") == 1) {\n"+cmd(at)+"\n}") }, nil},
		// operands of several tokens that mention the identifier
		{"flag-operand-multi", true, func(u string, at *AtomTable) string { return script(at, "if (!flag("+u+" + 1)) {\n"+cmd(at)+"\n}") }, nil},
		{"var-operand-multi", true, func(u string, at *AtomTable) string { return script(at, "if (var("+ph(at.New(ClsIdent, "base", "consts"))+" + "+u+") == 1) {\n"+cmd(at)+"\n}") }, nil},
		{"defeated-operand-multi", true, func(u string, at *AtomTable) string { return script(at, "if (defeated("+u+" + 2)) {\n"+cmd(at)+"\n}") }, nil},
		{"switch-operand-multi", true, func(u string, at *AtomTable) string {
			return script(at, "switch (var("+u+" + 1)) {\ncase 1:\n"+cmd(at)+"\n}")
		}, nil},
		{"defeated-operand", true, func(u string, at *AtomTable) string { return script(at, "while (!defeated("+u+")) {\n"+cmd(at)+"\n}") }, nil},
		{"comparison-value", true, func(u string, at *AtomTable) string {
			return script(at, "if (var("+ph(at.New(ClsIdent, "var", "consts"))+") >= "+u+") {\n"+cmd(at)+"\n}")
		}, nil},
		{"comparison-value-strict", true, func(u string, at *AtomTable) string {
			return script(at, "do {\n"+cmd(at)+"\n} while (var("+ph(at.New(ClsIdent, "var", "consts"))+") != value("+u+"))")
		}, nil},
		{"switch-operand", true, func(u string, at *AtomTable) string {
			return script(at, "switch (var("+u+")) {\ncase 1:\n"+cmd(at)+"\n}")
		}, nil},
		{"case-value", true, func(u string, at *AtomTable) string {
			return script(at, "switch (var("+ph(at.New(ClsIdent, "var", "consts"))+")) {\ncase "+u+":\n"+cmd(at)+"\ncase 777123:\n"+cmd(at)+"\n}")
		}, nil},
		{"table-condition", true, func(u string, at *AtomTable) string {
			return "mapscripts " + ph(at.New(ClsUserName, "map", "names")) + " {\n" + ph(at.New(ClsIdent, "mstype", "consts")) + " [\n" + u + ", 1: " + ph(at.New(ClsIdent, "target", "consts")) + "\n]\n}"
		}, nil},
		{"table-value", true, func(u string, at *AtomTable) string {
			return "mapscripts " + ph(at.New(ClsUserName, "map", "names")) + " {\n" + ph(at.New(ClsIdent, "mstype", "consts")) + " [\n" + ph(at.New(ClsIdent, "cond", "consts")) + ", " + u + " {\n" + cmd(at) + "\n}\n]\n}"
		}, nil},
		{"mart-item", true, func(u string, at *AtomTable) string {
			return "mart " + ph(at.New(ClsUserName, "mart", "names")) + " {\n" + ph(at.New(ClsIdent, "item", "consts")) + "\n" + u + "\n" + ph(at.New(ClsIdent, "item", "consts")) + "\n}"
		}, nil},
		{"autovar-argument", true, func(u string, at *AtomTable) string {
			return script(at, "if (zavz("+u+") == 1) {\n"+cmd(at)+"\n}")
		}, func(at *AtomTable) []AVSpec {
			return []AVSpec{{Name: L("zavz"), VarName: A(at.New(ClsIdent, "res", "consts")), Pos: -1}}
		}},
		// non-sites
		{"command-name", false, func(u string, at *AtomTable) string { return script(at, u+"("+ph(at.New(ClsIdent, "arg", "consts"))+")") }, nil},
		{"movement-step", false, func(u string, at *AtomTable) string {
			return "movement " + ph(at.New(ClsUserName, "mv", "names")) + " {\n" + u + " * 2\n}"
		}, nil},
		{"moves-step", false, func(u string, at *AtomTable) string { return script(at, cmd(at)+"(moves("+u+"))") }, nil},
		{"label", false, func(u string, at *AtomTable) string { return script(at, cmd(at)+"\n"+u+":\n"+cmd(at)) }, nil},
		{"text-content", false, func(u string, at *AtomTable) string { return script(at, cmd(at)+"(\"say "+u+" now$\")") }, nil},
		{"text-content-exact", false, func(u string, at *AtomTable) string { return script(at, cmd(at)+"(\""+u+"\")\n"+cmd(at)+"(ascii\""+u+"\")") }, nil},
		{"text-statement-exact", false, func(u string, at *AtomTable) string {
			return "text " + ph(at.New(ClsUserName, "text", "names")) + " {\n\"" + u + "\"\n}"
		}, nil},
		// a label spelled like the constant, then the constant as an argument:
		// the label stays, the argument is replaced
		{"command-argument-after-same-named-label", true, func(u string, at *AtomTable) string {
			return script(at, cmd(at)+"\n\x00NAME\x00:\n"+cmd(at)+"("+u+", "+ph(at.New(ClsIdent, "arg", "consts"))+")")
		}, nil},
		{"case-value-later-token", true, func(u string, at *AtomTable) string {
			return script(at, "switch (var("+ph(at.New(ClsIdent, "var", "consts"))+")) {\ncase 7 + "+u+":\n"+cmd(at)+"\ncase 777123:\n"+cmd(at)+"\n}")
		}, nil},
		{"mapscript-type", false, func(u string, at *AtomTable) string {
			return "mapscripts " + ph(at.New(ClsUserName, "map", "names")) + " {\n" + u + ": " + ph(at.New(ClsIdent, "target", "consts")) + "\n}"
		}, nil},
		{"script-name", false, func(u string, at *AtomTable) string { return "script " + u + " {\n" + cmd(at) + "\n}" }, nil},
	}
}

// c13Defs: constant definition sets. Each def: name atom + value tokens;
// later ones may use earlier ones.
type c13Def struct {
	name  *Atom
	value func() string // source text of the value
	exp   func() string // fully expanded text
}

func c13MakeDefs(kind string, at *AtomTable) []*c13Def {
	ph := func(a *Atom) string { return a.Placeholder() }
	k := func() *Atom { return at.New(ClsIdent, "const", "consts") }
	switch kind {
	case "one-single":
		v := at.New(ClsIdent, "cv", "consts")
		return []*c13Def{{k(), func() string { return ph(v) }, func() string { return ph(v) }}}
	case "one-multi":
		v := at.New(ClsIdent, "cv", "consts")
		n := at.New(ClsNum, "cv", "")
		return []*c13Def{{k(), func() string { return ph(v) + " + " + ph(n) }, func() string { return ph(v) + " + " + ph(n) }}}
	case "alias-multi":
		// a constant defined as exactly one other constant whose value has
		// several tokens
		v := at.New(ClsIdent, "cv", "consts")
		n := at.New(ClsNum, "cv", "")
		k1, k2 := k(), k()
		return []*c13Def{
			{k1, func() string { return ph(v) + " + " + ph(n) }, func() string { return ph(v) + " + " + ph(n) }},
			{k2, func() string { return ph(k1) }, func() string { return ph(v) + " + " + ph(n) }},
		}
	case "shared-base":
		// a base constant of five tokens and two constants that extend it (no
		// parentheses: inside an operand the written-out value would end at
		// the first ')')
		v1, v2, v3 := at.New(ClsIdent, "cv", "consts"), at.New(ClsIdent, "cv", "consts"), at.New(ClsNum, "cv", "")
		b, q1, q2 := k(), k(), k()
		base := func() string { return ph(v1) + " + " + ph(v2) + " + " + ph(v3) }
		return []*c13Def{
			{b, base, base},
			{q1, func() string { return ph(b) + " + 1" }, func() string { return base() + " + 1" }},
			{q2, func() string { return ph(b) + " + 2" }, func() string { return base() + " + 2" }},
		}
	case "chain":
		v := at.New(ClsNum, "cv", "")
		k1, k2, k3 := k(), k(), k()
		return []*c13Def{
			{k1, func() string { return ph(v) }, func() string { return ph(v) }},
			{k2, func() string { return ph(k1) + " + 1" }, func() string { return ph(v) + " + 1" }},
			{k3, func() string { return ph(k2) + " * " + ph(k1) }, func() string { return ph(v) + " + 1 * " + ph(v) }},
		}
	}
	panic("defs")
}

func c13Case(site c13Site, defKind string) *Case { return c13CaseRaw(site, defKind, false) }

// c13CaseRaw: with rawAfter a top-level raw block directly follows the
// definitions (a definition's value must end before it).
func c13CaseRaw(site c13Site, defKind string, rawAfter bool) *Case {
	return c13CaseMode(site, defKind, rawAfter, true)
}

// c13CaseMode with coded=false: names are SMT strings, so a decision taken on
// a name's spelling (its first character, its case, ...) is a solver query.
func c13CaseMode(site c13Site, defKind string, rawAfter, coded bool) *Case {
	at := &AtomTable{Coded: coded}
	defs := c13MakeDefs(defKind, at)
	use := at.New(ClsIdent, "use", "")
	_ = use
	// build the program once; the same atoms serve every variant
	body := site.prog("\x00USE\x00", at)
	var defSrc []string
	for _, d := range defs {
		defSrc = append(defSrc, "const "+d.name.Placeholder()+" = "+d.value())
	}
	mk := func(withDefs bool, u string) *Program {
		src := strings.ReplaceAll(body, "\x00USE\x00", u)
		src = strings.ReplaceAll(src, "\x00NAME\x00", use.Placeholder())
		if rawAfter {
			src = "raw `\nkept_raw_line\n`\n" + src
		}
		if withDefs {
			src = strings.Join(defSrc, "\n") + "\n" + src
		}
		return &Program{Atoms: at, Tops: []interface{}{&TopRaw{Text: src}}}
	}
	var avs []AVSpec
	if site.avs != nil {
		avs = site.avs(at)
	}
	opt := CompileOpts{Optimize: true, AVs: avs}
	prog := mk(true, use.Placeholder())
	variants := []Variant{{Name: "base", Opt: opt}, {Name: "none", Opt: opt, Prog: mk(false, use.Placeholder())}}
	if site.isSite {
		for j, d := range defs {
			variants = append(variants, Variant{Name: fmt.Sprintf("expanded%d", j), Opt: opt, Prog: mk(false, d.exp())})
		}
	}
	nm := fmt.Sprintf("c13/%s/%s", site.name, defKind)
	if rawAfter {
		nm += "/raw-after-definitions"
	}
	cs := &Case{Name: nm, Prog: prog, Variants: variants, NonTrivial: true, Shape: c13Shape{Site: site.name, Defs: defKind, IsSite: site.isSite}, MaxPaths: 128}
	cs.Oracle = func(x *OracleCtx) *Violation {
		base := x.Res["base"]
		if base.Err.Panic != "" {
			return &Violation{Sub: "panic", Msg: base.Err.Panic}
		}
		ref := "none"
		if site.isSite {
			for j, d := range defs {
				if decideSame(x.C, use.Val, d.name.Val) {
					ref = fmt.Sprintf("expanded%d", j)
					break
				}
			}
		}
		want := x.Res[ref]
		if want.Err.IsErr != base.Err.IsErr {
			return &Violation{Sub: "acceptance", Msg: fmt.Sprintf("with constants: error=%v (%s); with the value written out (%s): error=%v (%s)", base.Err.IsErr, interp.ToString(base.Err.Msg), ref, want.Err.IsErr, interp.ToString(want.Err.Msg))}
		}
		if base.Err.IsErr {
			return nil
		}
		what := "output vs output of the program with the constant's value written out"
		if ref == "none" {
			what = "output vs output of the program without the constant definitions (the identifier is not a constant use)"
		}
		v := expectLines(x, "substitution", what, outputLines(base.Out, false), outputLines(want.Out, false))
		if v != nil && site.name == "comparison-value-strict" && defKind != "one-single" && defKind != "alias-multi" && ref != "none" {
			v.Tags = append(v.Tags, "value_of_multi_token_constant")
		}
		return v
	}
	return cs
}

// c13PairCase: two uses per file, at two sites (one top-level statement each).
// placement "before": the definitions precede both statements; "between":
// they stand between the two, so that the first use is not a later use and
// must stay as written whatever it is called.
func c13PairCase(siteA, siteB c13Site, defKind, placement string) *Case {
	at := &AtomTable{Coded: true}
	defs := c13MakeDefs(defKind, at)
	use := []*Atom{at.New(ClsIdent, "use", ""), at.New(ClsIdent, "use", "")}
	bodies := []string{siteA.prog("\x00USE\x00", at), siteB.prog("\x00USE\x00", at)}
	var defSrc []string
	for _, d := range defs {
		defSrc = append(defSrc, "const "+d.name.Placeholder()+" = "+d.value())
	}
	text := func(r int, i int) string {
		if r < 0 {
			return use[i].Placeholder()
		}
		return defs[r].exp()
	}
	mk := func(withDefs bool, r0, r1 int) *Program {
		a := strings.ReplaceAll(strings.ReplaceAll(bodies[0], "\x00USE\x00", text(r0, 0)), "\x00NAME\x00", use[0].Placeholder())
		b := strings.ReplaceAll(strings.ReplaceAll(bodies[1], "\x00USE\x00", text(r1, 1)), "\x00NAME\x00", use[1].Placeholder())
		src := a + "\n" + b
		if withDefs {
			if placement == "between" {
				src = a + "\n" + strings.Join(defSrc, "\n") + "\n" + b
			} else {
				src = strings.Join(defSrc, "\n") + "\n" + src
			}
		}
		return &Program{Atoms: at, Tops: []interface{}{&TopRaw{Text: src}}}
	}
	var avs []AVSpec
	for _, st := range []c13Site{siteA, siteB} {
		if st.avs != nil && len(avs) == 0 {
			avs = st.avs(at)
		}
	}
	opt := CompileOpts{Optimize: true, AVs: avs}
	subst := []bool{siteA.isSite && placement != "between", siteB.isSite}
	variants := []Variant{{Name: "base", Opt: opt}}
	rng := func(i int) []int {
		out := []int{-1}
		if subst[i] {
			for j := range defs {
				out = append(out, j)
			}
		}
		return out
	}
	for _, r0 := range rng(0) {
		for _, r1 := range rng(1) {
			variants = append(variants, Variant{Name: fmt.Sprintf("ref%d_%d", r0, r1), Opt: opt, Prog: mk(false, r0, r1)})
		}
	}
	cs := &Case{Name: fmt.Sprintf("c13pair/%s+%s/%s/%s", siteA.name, siteB.name, defKind, placement), Prog: mk(true, -1, -1), Variants: variants, NonTrivial: true,
		Shape: c13Shape{Site: siteA.name + "+" + siteB.name + "/" + placement, Defs: defKind, IsSite: siteA.isSite || siteB.isSite}, MaxPaths: 256}
	cs.Oracle = func(x *OracleCtx) *Violation {
		base := x.Res["base"]
		if base.Err.Panic != "" {
			return &Violation{Sub: "panic", Msg: base.Err.Panic}
		}
		r := []int{-1, -1}
		for i := range r {
			if !subst[i] {
				continue
			}
			for j, d := range defs {
				if decideSame(x.C, use[i].Val, d.name.Val) {
					r[i] = j
					break
				}
			}
		}
		ref := fmt.Sprintf("ref%d_%d", r[0], r[1])
		want := x.Res[ref]
		if want.Err.IsErr != base.Err.IsErr {
			return &Violation{Sub: "acceptance", Msg: fmt.Sprintf("with constants: error=%v (%s); with the values written out (%s): error=%v (%s)", base.Err.IsErr, interp.ToString(base.Err.Msg), ref, want.Err.IsErr, interp.ToString(want.Err.Msg))}
		}
		if base.Err.IsErr {
			return nil
		}
		return expectLines(x, "substitution", fmt.Sprintf("two uses (%s): output vs output of the program with the values written out (first use: %s, second use: %s)", placement, c13RefName(r[0]), c13RefName(r[1])), outputLines(base.Out, false), outputLines(want.Out, false))
	}
	return cs
}

func c13RefName(r int) string {
	if r < 0 {
		return "left as written"
	}
	return fmt.Sprintf("constant %d expanded", r+1)
}

// RunC13 is the check of property C13.
func RunC13(env *Env, rep *Report) {
	var cases []*Case
	var siteNames []string
	for _, s := range c13Sites() {
		siteNames = append(siteNames, s.name)
		for _, dk := range []string{"one-single", "one-multi", "chain", "alias-multi", "shared-base"} {
			if s.name == "mart-item" && dk != "one-single" {
				continue // a multi-token value cannot be written out as a mart item
			}
			cases = append(cases, c13Case(s, dk))
			if dk == "one-multi" || (dk == "one-single" && s.name == "mart-item") {
				cases = append(cases, c13CaseRaw(s, dk, true))
			}
		}
	}
	// SMT-string names at two sites
	for i, s := range c13Sites() {
		if i == 0 || s.name == "flag-operand" || s.name == "case-value" {
			cs := c13CaseMode(s, "one-single", false, false)
			cs.Name = strings.Replace(cs.Name, "c13/", "c13/spelled/", 1)
			cases = append(cases, cs)
		}
	}
	// "redefining a constant is rejected": the templates of C20 (different and
	// identical values, also through another constant)
	for _, t := range c20Templates() {
		if strings.HasPrefix(t.name, "constant-redefined") {
			cs := c20Case(t)
			cs.Name = "c13/" + t.name
			cs.Shape = c13Shape{Site: t.name, Defs: "redefinition"}
			cases = append(cases, cs)
		}
	}
	// two uses per file
	sites := c13Sites()
	pairs := 0
	multiOK := func(s c13Site, dk string) bool { return s.name != "mart-item" || dk == "one-single" }
	for i, a := range sites {
		for j, b := range sites {
			for _, dk := range []string{"one-single", "one-multi", "chain", "alias-multi"} {
				if !multiOK(a, dk) || !multiOK(b, dk) || (a.avs != nil && b.avs != nil) {
					continue
				}
				for _, pl := range []string{"before", "between"} {
					if env.Tier != "thorough" {
						// quick: every site once as first and once as second use
						// (paired with its successor in the list), chain only
						if dk != "chain" || j != (i+1)%len(sites) {
							continue
						}
					}
					cases = append(cases, c13PairCase(a, b, dk, pl))
					pairs++
				}
			}
		}
	}
	rep.Technique = "symbolic execution of the real constant handling (go/ssa) with symbolic constant names, values and use-site identifier; relational rope equality between P with constants and P with the value written out, the aliasing pattern decided by the solver (z3)"
	rep.Explanation = "Bounded symbolic verification, not a proof. For every documented use site (command argument - also inside nested parentheses and of an autovar command -, flag/var/defeated operand, comparison value with and without value(), switch operand, case value, map-script table condition and value, mart item) and every non-site (command name, movement and moves() step, label, text content, map-script type, script name), a program with one identifier U at that position is compiled by symbolic execution under four definition sets (one single-token constant, one multi-token constant, a chain of three constants defined from each other, a multi-token constant with an alias defined as just that constant), with all names and values symbolic; in the same symbolic state the programs with each constant's fully expanded value written in place of U, and the program without definitions, are compiled. Whether U is one of the constants is a solver-decided fork. Asserted: at a site the output equals that of the program with the matching constant's expanded value (or of the definition-free program if U matches none); at a non-site it equals the definition-free program's output whatever U is; acceptance/rejection agree. Files with two uses (two top-level statements at two sites; every ordered pair of sites in the thorough tier, each site with its successor in the quick tier) are checked the same way against the program with both values written out, with the definitions placed before both statements or between them - in the latter placement the first use is not a later use and must stay as written."
	rep.Bounds = map[string]interface{}{"sites": siteNames, "definition_sets": []string{"one single-token", "one multi-token", "chain of 3 (defined from each other)", "a multi-token constant and an alias of it"}, "cases": len(cases), "uses_per_program": "1 and 2 (two statements at two sites; definitions before both or between them)", "two_use_cases": pairs}
	rep.Outside = []string{"more than two uses per program", "more than 3 definitions", "constants inside poryswitch cases"}
	rep.Assumptions = []string{"constant names are pairwise distinct identifiers except in the redefinition templates (shared with C20)", "names are generic identifiers (Int-coded)"}
	rep.Functions = []string{"parseConstant", "tryReplaceWithConstant", "parseCommandStatement", "parseLeafBooleanExpression", "parseConditionVarOperator", "parseSwitchStatement", "parseMapscriptsStatement", "parseMartStatement"}
	rep.Match = func(k *KnownFinding, f *Finding) bool {
		if kindOf(k) != "value_of_multi_token_constant_not_parenthesised" {
			return false
		}
		for _, t := range f.Tags {
			if t == "value_of_multi_token_constant" {
				// the only difference must be the parentheses around the value
				return strings.Contains(f.ReplayMsg, "compare_var_to_value") && strings.Contains(f.ReplayMsg, ", ( ")
			}
		}
		return false
	}
	src, _ := cases[2].Prog.Render()
	rep.AddSample(map[string]interface{}{"case": cases[2].Name, "source_with_holes": src})
	runWitness(env, rep, "c13-witness-never-substituted", func() *Case {
		cs := c13Case(c13Sites()[0], "one-single")
		cs.Oracle = func(x *OracleCtx) *Violation {
			// twin: claim the identifier is never replaced
			return expectLines(x, "witness", "vs none", outputLines(x.Res["base"].Out, false), outputLines(x.Res["none"].Out, false))
		}
		return cs
	})
	env.RunJobs(len(cases), rep, func(w *Worker, i int) { w.RunCase(cases[i], rep) })
}
