package checks

import (
	"fmt"
	"strings"

	"verif/engine/interp"
)

// token kinds of the C10 alphabet
var c10Alphabet = []string{"I", "N", "K", "O", "(", ")", ","}

func enumTokenLists(maxLen int) [][]string {
	var res [][]string
	var rec func(cur []string, depth int)
	rec = func(cur []string, depth int) {
		if len(cur) > 0 && depth == 0 && cur[len(cur)-1] != "," {
			res = append(res, append([]string{}, cur...))
		}
		if len(cur) == maxLen {
			return
		}
		for _, k := range c10Alphabet {
			switch k {
			case ")":
				if depth == 0 {
					continue
				}
				rec(append(cur, k), depth-1)
			case "(":
				rec(append(cur, k), depth+1)
			case ",":
				// arguments are non-empty: no leading comma, no ",,"
				if len(cur) == 0 || cur[len(cur)-1] == "," {
					continue
				}
				rec(append(cur, k), depth)
			default:
				rec(append(cur, k), depth)
			}
		}
	}
	rec(nil, 0)
	return res
}

type c10Shape struct {
	Cmds  []string `json:"commands"`
	Const bool     `json:"const"`
}

// renderArgsRef: tokens split at every comma, each argument's tokens joined
// by single spaces, arguments joined by ", " - with constants substituted.
func renderArgsRef(toks []Tok, subst func(t Tok) interp.Value) interp.Value {
	var parts []interp.Value
	first := true
	for _, t := range toks {
		if t.A == nil && t.Lit == "," {
			parts = append(parts, ", ")
			first = true
			continue
		}
		if !first {
			parts = append(parts, " ")
		}
		parts = append(parts, subst(t))
		first = false
	}
	return interp.Concat(parts...)
}

type c10Cmd struct {
	name   Tok
	toks   []Tok // nil: no parenthesis
	label  *Label
	paren  bool
}

var c10ForceKeyword = ""

func c10Case(cmdKinds [][]string, withConst bool, special string) *Case {
	atoms := &AtomTable{Coded: true}
	sname := atoms.New(ClsIdent, "script", "names")
	var constName *Atom
	var constVal []Tok
	var tops []interface{}
	if withConst {
		constName = atoms.New(ClsIdent, "const", "")
		constVal = []Tok{A(atoms.New(ClsIdent, "cv", "")), L("+"), A(atoms.New(ClsNum, "cv", ""))}
		tops = append(tops, &ConstTop{Name: A(constName), Value: constVal})
	}
	var cmds []*c10Cmd
	var body []Stmt
	var names []string
	ops := []string{"==", "*", "!", "<=", "=", "&&"}
	kws := []string{"TRUE", "value", "var", "global", "flag"}
	for ci, kinds := range cmdKinds {
		c := &c10Cmd{name: A(atoms.New(ClsPlainCmd, "cmd", ""))}
		if kinds != nil {
			c.paren = true
			c.toks = []Tok{}
			for ti, k := range kinds {
				switch k {
				case "I":
					c.toks = append(c.toks, A(atoms.New(ClsIdent, "arg", "")))
				case "N":
					c.toks = append(c.toks, A(atoms.New(ClsNum, "arg", "")))
				case "K":
					if c10ForceKeyword != "" {
						c.toks = append(c.toks, L(c10ForceKeyword))
					} else {
						c.toks = append(c.toks, L(kws[(ci+ti)%len(kws)]))
					}
				case "O":
					c.toks = append(c.toks, L(ops[(ci+ti)%len(ops)]))
				default:
					c.toks = append(c.toks, L(k))
				}
			}
		}
		cmds = append(cmds, c)
		names = append(names, strings.Join(kinds, ""))
		st := &Cmd{Name: c.name}
		if c.paren {
			// the printer joins args with ", ": give it the token runs
			st.Args = splitAtCommas(c.toks)
		}
		body = append(body, st)
	}
	switch special {
	case "label":
		lb := &Label{Name: atoms.New(ClsUserName, "lbl", "names")}
		body = append([]Stmt{body[0], lb}, body[1:]...)
		cmds = append([]*c10Cmd{cmds[0], {label: lb}}, cmds[1:]...)
	case "label-global":
		lb := &Label{Name: atoms.New(ClsUserName, "lbl", "names"), Scope: "global"}
		body = append([]Stmt{body[0], lb}, body[1:]...)
		cmds = append([]*c10Cmd{cmds[0], {label: lb}}, cmds[1:]...)
	case "mid-end", "mid-return":
		// a terminating command in the middle of the straight-line stretch:
		// the commands after it are still part of the script's text
		kw := strings.TrimPrefix(special, "mid-")
		body = append([]Stmt{body[0], &Cmd{Name: L(kw)}}, body[1:]...)
		cmds = append([]*c10Cmd{cmds[0], {name: L(kw)}}, cmds[1:]...)
	case "label-local":
		lb := &Label{Name: atoms.New(ClsUserName, "lbl", "names"), Scope: "local"}
		body = append([]Stmt{body[0], lb}, body[1:]...)
		cmds = append([]*c10Cmd{cmds[0], {label: lb}}, cmds[1:]...)
	}
	tops = append(tops, &Script{Name: sname, Body: body})
	prog := &Program{Atoms: atoms, Tops: tops}
	shape := c10Shape{Cmds: names, Const: withConst}
	cs := &Case{Name: fmt.Sprintf("c10/%v/const=%v/%s/kw=%s", names, withConst, special, c10ForceKeyword), Prog: prog, Variants: optVariants, NonTrivial: true, Shape: shape, MaxPaths: 256}
	cs.Oracle = func(x *OracleCtx) *Violation {
		subst := func(t Tok) interp.Value {
			if constName == nil || t.A == nil || t.A.Class != ClsIdent {
				return t.Val()
			}
			if decideSame(x.C, t.A.Val, constName.Val) {
				return JoinToks(constVal)
			}
			return t.Val()
		}
		want := []interp.Value{cat(sname.Val, "::")}
		for _, c := range cmds {
			if c.label != nil {
				suffix := ":"
				if c.label.Scope == "global" {
					suffix = "::"
				}
				want = append(want, cat(c.label.Name.Val, suffix))
				continue
			}
			line := cat("\t", c.name.Val())
			if c.paren && len(c.toks) > 0 {
				line = cat(line, " ", renderArgsRef(c.toks, subst))
			}
			want = append(want, line)
		}
		want = append(want, "\treturn")
		for _, v := range x.Case.Variants {
			res := x.Res[v.Name]
			if res.Err.Panic != "" {
				return &Violation{Sub: "panic", Msg: res.Err.Panic}
			}
			if res.Err.IsErr {
				return &Violation{Sub: "verbatim", Msg: "an accepted command list was rejected: " + interp.ToString(res.Err.Msg)}
			}
			got := trimTrailingEmpty(outputLines(res.Out, false))
			if v := expectLines(x, "verbatim", "variant "+v.Name, got, want); v != nil {
				return v
			}
		}
		return nil
	}
	return cs
}

func splitAtCommas(toks []Tok) [][]Tok {
	args := [][]Tok{}
	cur := []Tok{}
	for _, t := range toks {
		if t.A == nil && t.Lit == "," {
			args = append(args, cur)
			cur = []Tok{}
			continue
		}
		cur = append(cur, t)
	}
	args = append(args, cur)
	return args
}

func trimTrailingEmpty(ls []interp.Value) []interp.Value {
	for len(ls) > 0 && isEmpty(ls[len(ls)-1]) {
		ls = ls[:len(ls)-1]
	}
	return ls
}

// RunC10 is the check of property C10.
// every keyword spelling of the lexer except format and moves (operators
// inside argument lists)
var c10Keywords = []string{"global", "local", "TRUE", "FALSE", "true", "false", "value", "var", "flag", "defeated", "if", "else", "elif", "do", "while", "break", "continue",
	"switch", "case", "default", "script", "raw", "text", "movement", "mart", "mapscripts", "poryswitch", "const"}

func RunC10(env *Env, rep *Report) {
	maxTok := 4
	if env.Tier == "thorough" {
		maxTok = 6
	}
	lists := enumTokenLists(maxTok)
	var cases []*Case
	for _, l := range lists {
		cases = append(cases, c10Case([][]string{l}, false, ""))
	}
	// every keyword in every position of the lists of up to 3 tokens
	for _, kw := range c10Keywords {
		c10ForceKeyword = kw
		for _, l := range enumTokenLists(3) {
			hasK := false
			for _, k := range l {
				if k == "K" {
					hasK = true
				}
			}
			if hasK {
				cases = append(cases, c10Case([][]string{l}, false, ""), c10Case([][]string{l, {"I"}}, false, ""))
			}
		}
	}
	c10ForceKeyword = ""
	// constants: every list of up to 3 tokens that contains an identifier
	for _, l := range enumTokenLists(3) {
		hasI := false
		for _, k := range l {
			if k == "I" {
				hasI = true
			}
		}
		if hasI {
			cases = append(cases, c10Case([][]string{l}, true, ""))
		}
	}
	// no-parenthesis form, empty parentheses, several commands, label look-alikes
	cases = append(cases, c10Case([][]string{nil}, false, ""), c10Case([][]string{{}}, false, ""))
	short := enumTokenLists(2)
	for _, a := range short {
		for _, b := range short {
			cases = append(cases, c10Case([][]string{a, nil, b}, false, ""))
		}
		for _, sp := range []string{"label", "label-global", "label-local", "mid-end", "mid-return"} {
			cases = append(cases, c10Case([][]string{a, {"K"}, a}, false, sp))
		}
		cases = append(cases, c10Case([][]string{a, a}, true, ""))
	}
	for _, where := range []string{"if", "else", "while", "case"} {
		for _, kw := range []string{"end", "return"} {
			cases = append(cases, c10NestedTerminatorCase(where, kw))
		}
	}
	// commands that differ from end / return only in letter case are ordinary commands
	for _, where := range []string{"if", "case", "top"} {
		for _, kw := range []string{"END", "End", "RETURN", "Return"} {
			cases = append(cases, c10NestedTerminatorCase(where, kw))
		}
	}
	cases = append(cases, c10PoryswitchCase(true), c10PoryswitchCase(false), c10PoryswitchCaseOrder(true, true), c10PoryswitchCaseOrder(false, true), c10SwitchBodyCase(), c10NumberFormsCase(),
		c10UnreachableStretchCase("after-infinite-loop"), c10UnreachableStretchCase("after-leaving-ifelse"), c10UnreachableStretchCase("after-break-in-loop"))
	rep.Technique = "symbolic execution of the real command parser and renderer (go/ssa) with symbolic token literals; rope equalities between output lines and the token-wise reference, aliasing with constant names decided by the solver (z3)"
	rep.Explanation = "Bounded symbolic verification, not a proof. Every argument token list up to the length bound over {identifier, number, keyword, operator, '(', ')', ','} with balanced parentheses and non-empty arguments (plus the no-parenthesis form, empty parentheses, several commands in a row, the label look-alikes, every keyword spelling of the lexer as an argument token, and a stretch with 'end' / 'return' in the middle, whose later commands must still all be emitted) is compiled by symbolic execution of the real code with all identifier and number tokens symbolic. Each output line must equal, as a rope and hence for every name and number, the reference rendering: tab, the unchanged command name, the argument tokens in order joined by single spaces with ', ' at every comma; lines in source order. With a constant defined, whether an identifier token equals the constant's name is a solver-decided fork (every aliasing pattern is explored) and the reference substitutes the constant's value exactly there."
	rep.Bounds = map[string]interface{}{"max_tokens_per_argument_list": maxTok, "token_lists": len(lists), "cases": len(cases), "const_aliasing": "lists of up to 3 tokens with one constant definition", "commands_in_a_row": "up to 3, lists of up to 2 tokens"}
	rep.Outside = []string{"longer argument lists", "inline text / format() / moves() arguments (C06, C07)", "empty arguments (a leading, doubled or trailing comma)"}
	rep.Assumptions = []string{"identifier tokens are identifiers other than keywords; command names are not control-flow instruction names", "symbolic numbers are canonical decimal integers; hexadecimal (every digit, both cases) and negative spellings are covered by the concrete number-forms case"}
	rep.Functions = []string{"parseStatement", "tryParseLabelStatement", "parseCommandStatement", "renderCommandStatement", "renderLabelStatement", "tryReplaceWithConstant", "parseConstant"}
	rep.Match = func(k *KnownFinding, f *Finding) bool { return false }
	src, _ := cases[len(cases)/3].Prog.Render()
	rep.AddSample(map[string]interface{}{"case": cases[len(cases)/3].Name, "source_with_holes": src})
	runWitness(env, rep, "c10-witness-dropped-token", func() *Case {
		cs := c10Case([][]string{{"I", ",", "N"}}, false, "")
		orig := cs.Oracle
		_ = orig
		prog := cs.Prog
		cs.Oracle = func(x *OracleCtx) *Violation {
			// twin: expect the last token to be missing
			s := scriptsOf(prog)[0]
			c := s.Body[0].(*Cmd)
			want := []interp.Value{cat(s.Name.Val, "::"), cat("\t", c.Name.Val(), " ", JoinToks(c.Args[0])), "\treturn"}
			got := trimTrailingEmpty(outputLines(x.Res["opt"].Out, false))
			return expectLines(x, "witness", "opt", got, want)
		}
		return cs
	})
	env.RunJobs(len(cases), rep, func(w *Worker, i int) { w.RunCase(cases[i], rep) })
}

// c10PoryswitchCase: commands with inline text / moves() inside a poryswitch
// case (selected by name, or the '_' fallback) reach the output with their
// label arguments.
func c10PoryswitchCase(fallback bool) *Case { return c10PoryswitchCaseOrder(fallback, false) }

// c10PoryswitchCaseOrder: with fallbackFirst the '_' case is written before
// the named one.
func c10PoryswitchCaseOrder(fallback, fallbackFirst bool) *Case {
	atoms := &AtomTable{Coded: true}
	sname := atoms.New(ClsUserName, "script", "names")
	key := atoms.New(ClsIdent, "swkey", "")
	val := atoms.New(ClsIdent, "swval", "swvals", "_")
	other := atoms.New(ClsIdent, "swother", "swvals", "_")
	c1, c2, c3 := atoms.New(ClsPlainCmd, "cmd", "cmds"), atoms.New(ClsPlainCmd, "cmd", "cmds"), atoms.New(ClsPlainCmd, "cmd", "cmds")
	arg := atoms.New(ClsIdent, "arg", "")
	named := val
	if fallback {
		named = other
	}
	namedCase := fmt.Sprintf("    %s: %s(\"named$\", %s)\n", named.Placeholder(), c1.Placeholder(), arg.Placeholder())
	fallbackCase := fmt.Sprintf("    _ {\n      %s(%s, \"fallback$\")\n      %s(moves(walk_up))\n    }\n", c2.Placeholder(), arg.Placeholder(), c3.Placeholder())
	cases := namedCase + fallbackCase
	if fallbackFirst {
		cases = fallbackCase + namedCase
	}
	src := fmt.Sprintf("script %s {\n  poryswitch(%s) {\n%s  }\n}", sname.Placeholder(), key.Placeholder(), cases)
	prog := &Program{Atoms: atoms, Tops: []interface{}{&TopRaw{Text: src}}}
	variants := []Variant{{Name: "opt", Opt: CompileOpts{Optimize: true, SwKeys: []Tok{A(key)}, SwVals: []Tok{A(val)}}}}
	cs := &Case{Name: fmt.Sprintf("c10/poryswitch/fallback=%v/fallbackFirst=%v", fallback, fallbackFirst), Prog: prog, Variants: variants, NonTrivial: true, Shape: c10Shape{Cmds: []string{"poryswitch"}}, MaxPaths: 64}
	cs.Oracle = func(x *OracleCtx) *Violation {
		res := x.Res["opt"]
		if res.Err.IsErr || res.Err.Panic != "" {
			return &Violation{Sub: "verbatim", Msg: "rejected: " + interp.ToString(res.Err.Msg) + res.Err.Panic}
		}
		lbl := func(suffix string) interp.Value { return cat(sname.Val, suffix) }
		var want []interp.Value
		if fallback {
			want = []interp.Value{cat(sname.Val, "::"), cat("\t", c2.Val, " ", arg.Val, ", ", lbl("_Text_0")), cat("\t", c3.Val, " ", lbl("_Movement_0")), "\treturn",
				cat(lbl("_Movement_0"), ":"), "\twalk_up", "\tstep_end", cat(lbl("_Text_0"), ":"), "\t.string \"fallback$\""}
		} else {
			want = []interp.Value{cat(sname.Val, "::"), cat("\t", c1.Val, " ", lbl("_Text_0"), ", ", arg.Val), "\treturn", cat(lbl("_Text_0"), ":"), "\t.string \"named$\""}
		}
		return expectLines(x, "verbatim", "output", nonBlank(outputLines(res.Out, false)), want)
	}
	return cs
}

// c10UnreachableStretchCase: a straight-line stretch that no generated jump
// reaches - after an infinite loop, or after an if/else whose branches both
// leave - and that is entered through a user label. Its commands must be
// emitted once, contiguous and in order, under both -optimize settings.
func c10UnreachableStretchCase(kind string) *Case {
	atoms := &AtomTable{Coded: true}
	sname := atoms.New(ClsUserName, "script", "names")
	lbl := atoms.New(ClsUserName, "lbl", "names")
	cmd := func() *Cmd { return &Cmd{Name: A(atoms.New(ClsPlainCmd, "cmd", "cmds"))} }
	flag := func() *Expr { return LeafFlag(atoms.New(ClsIdent, "flag", "")) }
	gotoL := &Cmd{Name: L("goto"), Args: [][]Tok{{A(lbl)}}}
	a, b, c, d := cmd(), cmd(), cmd(), cmd()
	var body []Stmt
	var others []*Cmd
	switch kind {
	case "after-infinite-loop":
		body = []Stmt{&While{Body: []Stmt{a, &If{Conds: []*Expr{flag()}, Bodies: [][]Stmt{{gotoL}}}}}, b, &Label{Name: lbl}, c, d, &Cmd{Name: L("end")}}
		others = []*Cmd{a}
	case "after-leaving-ifelse":
		e := cmd()
		body = []Stmt{&If{Conds: []*Expr{flag()}, Bodies: [][]Stmt{{a, gotoL}}, Else: []Stmt{e, &Cmd{Name: L("end")}}, HasElse: true}, b, &Label{Name: lbl}, c, d, &Cmd{Name: L("end")}}
		others = []*Cmd{a, e}
	case "after-break-in-loop":
		body = []Stmt{&While{Cond: flag(), Body: []Stmt{a, &If{Conds: []*Expr{flag()}, Bodies: [][]Stmt{{gotoL}}}, &Break{}, b, &Label{Name: lbl}, c, d}}, &Cmd{Name: L("end")}}
		others = []*Cmd{a}
	}
	prog := &Program{Atoms: atoms, Tops: []interface{}{&Script{Name: sname, Body: body}}}
	cs := &Case{Name: "c10/unreachable-stretch/" + kind, Prog: prog, Variants: optVariants, NonTrivial: true, Shape: c10Shape{Cmds: []string{"unreachable-stretch:" + kind}}, MaxPaths: 64}
	cs.Oracle = func(x *OracleCtx) *Violation {
		stretch := []interp.Value{cat("\t", b.Name.Val()), cat(lbl.Val, ":"), cat("\t", c.Name.Val()), cat("\t", d.Name.Val())}
		for _, v := range x.Case.Variants {
			res := x.Res[v.Name]
			if res.Err.IsErr || res.Err.Panic != "" {
				return &Violation{Sub: "verbatim", Msg: "variant " + v.Name + " rejected: " + interp.ToString(res.Err.Msg) + res.Err.Panic}
			}
			lines := nonBlank(outputLines(res.Out, false))
			count := func(want interp.Value) (int, int) {
				n, at := 0, -1
				for i, l := range lines {
					if sameValue(x.C, l, want) == 1 {
						n++
						at = i
					}
				}
				return n, at
			}
			for _, o := range others {
				if n, _ := count(cat("\t", o.Name.Val())); n != 1 {
					return &Violation{Sub: "verbatim", Msg: fmt.Sprintf("variant %s: command %s is emitted %d times", v.Name, interp.ToString(o.Name.Val()), n)}
				}
			}
			n, at := count(stretch[0])
			if n != 1 {
				return &Violation{Sub: "verbatim", Msg: fmt.Sprintf("variant %s: the first command of the stretch that only a user label leads to (%s) is emitted %d times", v.Name, interp.ToString(stretch[0]), n)}
			}
			if at+len(stretch) > len(lines) {
				return &Violation{Sub: "verbatim", Msg: "variant " + v.Name + ": the stretch is cut short"}
			}
			if vv := expectLines(x, "verbatim", "variant "+v.Name+": the stretch after the construct (commands and label in source order, contiguous)", lines[at:at+len(stretch)], stretch); vv != nil {
				return vv
			}
		}
		return nil
	}
	return cs
}

// c10NumberFormsCase: number tokens in every spelling the lexer accepts -
// decimal, negative, hexadecimal with every digit in upper and lower case -
// reach the output unchanged (the command names are symbolic).
// c10NestedTerminatorCase: an explicit end / return written as the last
// statement of a nested block (if, else, while, case body) that has code
// after it is a command like any other: it is emitted, right after the command
// written before it.
func c10NestedTerminatorCase(where, kw string) *Case {
	atoms := &AtomTable{Coded: true}
	sname := atoms.New(ClsUserName, "script", "names")
	c1 := atoms.New(ClsPlainCmd, "cmd", "cmds")
	c2 := atoms.New(ClsPlainCmd, "cmd", "cmds")
	c3 := atoms.New(ClsPlainCmd, "cmd", "cmds")
	f := atoms.New(ClsIdent, "flag", "")
	inner := "    " + c1.Placeholder() + "\n    " + kw + "\n"
	var body string
	switch where {
	case "if":
		body = "  if (flag(" + f.Placeholder() + ")) {\n" + inner + "  }\n"
	case "else":
		body = "  if (flag(" + f.Placeholder() + ")) {\n    " + c3.Placeholder() + "\n  } else {\n" + inner + "  }\n"
	case "while":
		body = "  while (flag(" + f.Placeholder() + ")) {\n" + inner + "  }\n"
	case "case":
		body = "  switch (var(" + f.Placeholder() + ")) {\n  case 1:\n" + inner + "  case 2:\n    " + c3.Placeholder() + "\n  }\n"
	}
	src := "script " + sname.Placeholder() + " {\n" + body + "  " + c2.Placeholder() + "\n}"
	if where == "top" {
		// the last statement of the script itself
		src = "script " + sname.Placeholder() + " {\n  " + c2.Placeholder() + "\n" + inner + "}"
	}
	prog := &Program{Atoms: atoms, Tops: []interface{}{&TopRaw{Text: src}}}
	cs := &Case{Name: "c10/nested-terminator/" + where + "/" + kw, Prog: prog, Variants: optVariants, NonTrivial: true, Shape: c10Shape{Cmds: []string{"nested-" + kw + "-in-" + where}}, MaxPaths: 16}
	cs.Oracle = func(x *OracleCtx) *Violation {
		for _, v := range x.Case.Variants {
			res := x.Res[v.Name]
			if res.Err.IsErr || res.Err.Panic != "" {
				return &Violation{Sub: "verbatim", Msg: "variant " + v.Name + " rejected: " + interp.ToString(res.Err.Msg) + res.Err.Panic}
			}
			lines := nonBlank(outputLines(res.Out, false))
			found := false
			for i, l := range lines {
				if sameValue(x.C, l, cat("\t", c1.Val)) == 1 {
					found = true
					if i+1 >= len(lines) || sameValue(x.C, lines[i+1], "\t"+kw) != 1 {
						next := interp.Value("(end of output)")
						if i+1 < len(lines) {
							next = lines[i+1]
						}
						return &Violation{Sub: "verbatim", Msg: fmt.Sprintf("variant %s: the '%s' written after the command in the %s body is not emitted after it (next line: %s)", v.Name, kw, where, interp.ToString(next))}
					}
				}
			}
			if !found {
				return &Violation{Sub: "verbatim", Msg: "variant " + v.Name + ": the command of the nested block is missing"}
			}
		}
		return nil
	}
	return cs
}

func c10NumberFormsCase() *Case {
	atoms := &AtomTable{Coded: true}
	sname := atoms.New(ClsUserName, "script", "names")
	forms := [][]string{
		{"0", "7", "-5", "12345"},
		{"0x0", "0x1F", "0x40f", "0xabcdef", "0xABCDEF", "0x9a8B7c6D5e4F", "0xf", "0xFf0"},
		{"(", "0xdeadbeef", "+", "-1", ")", "*", "0x10"},
		// '%' and the other operator characters are tokens of their own
		{"(", "10", "%", "3", ")"},
		{"(", "NUM_ROOMS", "+", "1", ")", "%", "NUM_FLOORS", "/", "2", "^", "MASK", "~", "x"},
		// identifiers and numbers with decimal digits outside ASCII are one token each
		{"VAR_ROOM\uff11", "\uff11\uff12", "FLAG_DOOR\u0663_OPEN", "-\u0663", "1\u0663"},
	}
	var body []Stmt
	var cmds []*Atom
	for _, f := range forms {
		c := atoms.New(ClsPlainCmd, "cmd", "cmds")
		cmds = append(cmds, c)
		args := strings.Join(f, ", ")
		if f[0] == "(" {
			args = strings.Join(f, " ")
		}
		body = append(body, &RawStmt{Text: c.Placeholder() + "(" + args + ")"})
	}
	prog := &Program{Atoms: atoms, Tops: []interface{}{&Script{Name: sname, Body: body}}}
	cs := &Case{Name: "c10/number-forms", Prog: prog, Variants: optVariants, NonTrivial: true, Shape: c10Shape{Cmds: []string{"number-forms"}}, MaxPaths: 16}
	cs.Oracle = func(x *OracleCtx) *Violation {
		want := []interp.Value{cat(sname.Val, "::")}
		for i, f := range forms {
			args := strings.Join(f, ", ")
			if f[0] == "(" {
				args = strings.Join(f, " ")
			}
			want = append(want, cat("\t", cmds[i].Val, " ", args))
		}
		want = append(want, "\treturn")
		for _, v := range x.Case.Variants {
			res := x.Res[v.Name]
			if res.Err.IsErr || res.Err.Panic != "" {
				return &Violation{Sub: "verbatim", Msg: "variant " + v.Name + " rejected: " + interp.ToString(res.Err.Msg) + res.Err.Panic}
			}
			if vv := expectLines(x, "verbatim", "variant "+v.Name+": number tokens", trimTrailingEmpty(outputLines(res.Out, false)), want); vv != nil {
				return vv
			}
		}
		return nil
	}
	return cs
}

// c10SwitchBodyCase: commands with inline text and moves() in a case body
// and in the default body of a switch keep their (label) arguments.
func c10SwitchBodyCase() *Case {
	atoms := &AtomTable{Coded: true}
	sname := atoms.New(ClsUserName, "script", "names")
	v := atoms.New(ClsIdent, "var", "")
	c1, c2, c3 := atoms.New(ClsPlainCmd, "cmd", "cmds"), atoms.New(ClsPlainCmd, "cmd", "cmds"), atoms.New(ClsPlainCmd, "cmd", "cmds")
	arg := atoms.New(ClsIdent, "arg", "")
	src := fmt.Sprintf("script %s {\n  switch (var(%s)) {\n    case 1:\n      %s(\"in case$\", %s)\n    default:\n      %s(%s, \"in default$\")\n      %s(moves(walk_up))\n  }\n}",
		sname.Placeholder(), v.Placeholder(), c1.Placeholder(), arg.Placeholder(), c2.Placeholder(), arg.Placeholder(), c3.Placeholder())
	prog := &Program{Atoms: atoms, Tops: []interface{}{&TopRaw{Text: src}}}
	cs := &Case{Name: "c10/switch-bodies", Prog: prog, Variants: optVariants, NonTrivial: true, Shape: c10Shape{Cmds: []string{"switch"}}, MaxPaths: 64}
	cs.Oracle = func(x *OracleCtx) *Violation {
		lbl := func(suffix string) interp.Value { return cat(sname.Val, suffix) }
		wantCmds := []interp.Value{
			cat("\t", c1.Val, " ", lbl("_Text_0"), ", ", arg.Val),
			cat("\t", c2.Val, " ", arg.Val, ", ", lbl("_Text_1")),
			cat("\t", c3.Val, " ", lbl("_Movement_0")),
		}
		for _, vr := range x.Case.Variants {
			res := x.Res[vr.Name]
			if res.Err.IsErr || res.Err.Panic != "" {
				return &Violation{Sub: "verbatim", Msg: "rejected: " + interp.ToString(res.Err.Msg) + res.Err.Panic}
			}
			lines := outputLines(res.Out, false)
			for _, w := range wantCmds {
				n := 0
				for _, l := range lines {
					if sameValue(x.C, l, w) == 1 {
						n++
					}
				}
				if n != 1 {
					return &Violation{Sub: "verbatim", Msg: fmt.Sprintf("variant %s: expected exactly one line %s, found %d", vr.Name, interp.ToString(w), n)}
				}
			}
			for _, l := range []interp.Value{lbl("_Text_0"), lbl("_Text_1"), lbl("_Movement_0")} {
				if n := countLabelDefs(x.C, res.Out, l); n != 1 {
					return &Violation{Sub: "verbatim", Msg: fmt.Sprintf("variant %s: label %s defined %d times", vr.Name, interp.ToString(l), n)}
				}
			}
		}
		return nil
	}
	return cs
}
