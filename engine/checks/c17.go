package checks

import (
	"fmt"
	"sort"
	"strings"
	"time"

	"verif/engine/interp"
)

type c17Shape struct {
	Sub     string `json:"sub"`
	Program string `json:"program"`
	Site    string `json:"site,omitempty"`
}

// c17Programs: named source templates (placeholders resolved per call).
func c17Program(name string, atoms *AtomTable) string {
	ph := func(cls Class, hint, group string) string { return atoms.New(cls, hint, group).Placeholder() }
	cmd := func() string { return ph(ClsPlainCmd, "cmd", "") }
	flag := func() string { return "flag(" + ph(ClsIdent, "flag", "") + ")" }
	switch name {
	case "flow":
		return "script " + ph(ClsUserName, "script", "names") + " {\n" + cmd() + "\nif (" + flag() + " && " + flag() + ") {\n" + cmd() + "\n} else {\n" + cmd() + "\n}\nwhile (" + flag() + ") {\n" + cmd() + "\n}\n" + cmd() + "\n}"
	case "small":
		return "script " + ph(ClsUserName, "script", "names") + " {\n" + cmd() + "\nif (" + flag() + ") {\n" + cmd() + "\n}\n" + cmd() + "\n}"
	case "small-loop":
		return "script " + ph(ClsUserName, "script", "names") + " {\nwhile (" + flag() + ") {\n" + cmd() + "\nbreak\n}\n" + ph(ClsUserName, "lbl", "names") + ":\n" + cmd() + "\n}"
	case "small-switch":
		return "script " + ph(ClsUserName, "script", "names") + " {\nswitch (var(" + ph(ClsIdent, "var", "") + ")) {\ncase 1:\n" + cmd() + "\ndefault:\n" + cmd() + "\n}\n}"
	case "switch":
		return "script " + ph(ClsUserName, "script", "names") + " {\nswitch (var(" + ph(ClsIdent, "var", "") + ")) {\ncase 1:\n" + cmd() + "\ncase 2:\ncase 3:\n" + cmd() + "\nbreak\ndefault:\n" + cmd() + "\n}\n" + cmd() + "\n}"
	case "texts":
		s := ph(ClsUserName, "script", "names")
		return "script " + s + " {\n" + cmd() + "(\"one$\")\n" + cmd() + "(\"two$\")\n" + cmd() + "(moves(walk_up walk_down))\n" + cmd() + "(\"one$\")\n}\ntext " + ph(ClsUserName, "text", "names") + " {\n\"three$\"\n}\nmovement " + ph(ClsUserName, "mv", "names") + " {\nwalk_left * 2\n}"
	case "mapscripts":
		return "mapscripts " + ph(ClsUserName, "map", "names") + " {\n" + ph(ClsIdent, "mstype", "mstypes") + " {\n" + cmd() + "\nif (" + flag() + ") {\n" + cmd() + "\n}\n}\n" + ph(ClsIdent, "mstype", "mstypes") + " [\nVAR_A, 1 {\n" + cmd() + "(\"hi$\")\n}\nVAR_B, 2: " + ph(ClsIdent, "target", "") + "\n]\n}\nmart " + ph(ClsUserName, "mart", "names") + " {\nITEM_A\nITEM_B\n}"
	case "constants":
		return "const C1 = 5\nconst C2 = C1 + 1\nscript " + ph(ClsUserName, "script", "names") + " {\n" + cmd() + "(C2)\ndo {\n" + cmd() + "\n} while (var(C1) < C2)\n}"
	case "two-clashes":
		// rejected input with clashes on two different labels: the reported one
		// must not depend on a map's iteration order
		return "text TA {\n\"a$\"\n}\ntext TB {\n\"b$\"\n}\ntext TB {\n\"c$\"\n}\ntext TA {\n\"d$\"\n}\nscript " + ph(ClsUserName, "script", "names") + " {\n" + cmd() + "\n}"
	case "two-generated-clashes":
		return "script S {\n" + cmd() + "(\"one$\")\n" + cmd() + "(\"two$\")\n}\ntext S_Text_1 {\n\"x$\"\n}\ntext S_Text_0 {\n\"y$\"\n}"
	case "unknown-font":
		return "text " + ph(ClsUserName, "text", "names") + " {\nformat(\"hello world\", \"nosuchfont\")\n}"
	case "format":
		return "text " + ph(ClsUserName, "text", "names") + " {\nformat(\"aa bb aa bb aa bb\", \"font1\")\n}\ntext " + ph(ClsUserName, "text", "names") + " {\nformat(\"aa bb aa\", 7, \"font2\")\n}"
	}
	panic("c17 program " + name)
}

// compile under the stub fonts used by C17 (two fonts with small tables)
func c17Compile(w *Worker, c *interp.Ctx, src string, optimize bool) *CompileResult {
	fn := w.E.Func(HzPkg, "CompileFonts")
	names := interp.MkSlice("font1", "font2")
	keys := interp.MkSlice(interp.MkSlice("a", "b", " ", "{A}", "{B}"), interp.MkSlice("a", "b", " ", "{A}", "{B}"))
	widths := interp.MkSlice(interp.MkSlice(1, 1, 1, 1, 1), interp.MkSlice(2, 1, 1, 3, 3))
	res := w.E.Call(c, fn, src, "font1", names, keys, widths, interp.MkSlice(9, 9), interp.MkSlice(2, 3), optimize)
	t := interp.Tuple(res)
	cr := &CompileResult{Out: t[0]}
	if !interp.IsNilIface(t[1]) {
		cr.Err.IsErr = true
		cr.Err.Msg, _ = w.E.ErrorText(c, t[1])
	}
	return cr
}

var c17FontCfg = map[string]interface{}{"defaultFontId": "font1", "fonts": map[string]interface{}{
	"font1": map[string]interface{}{"maxLineLength": 9, "numLines": 2, "widths": map[string]int{"a": 1, "b": 1, " ": 1, "{A}": 1, "{B}": 1}},
	"font2": map[string]interface{}{"maxLineLength": 9, "numLines": 3, "widths": map[string]int{"a": 2, "b": 1, " ": 1, "{A}": 3, "{B}": 3}},
}}

func c17NativeCompile(w *Worker, src string, optimize bool) (NativeResp, bool) {
	cfgPath := fmt.Sprintf("%s/c17fonts-%d.json", w.Env.TmpDir, w.ID)
	writeJSON(cfgPath, c17FontCfg)
	resp, timedOut, err := w.N.DoPatient(NativeReq{Op: "compile", Src: src, Optimize: optimize, FontPath: cfgPath, Switches: map[string]string{"K": "B"}}, 10*time.Second)
	return resp, err == nil && !timedOut
}

func resultKey(r *CompileResult) string {
	return interp.ToString(r.Out) + "|err=" + fmt.Sprint(r.Err.IsErr) + "|" + interp.ToString(r.Err.Msg)
}

// (a) map iteration order: one range-over-map site at a time is given every
// permutation; the result must not change.
func c17MapOrderRun(w *Worker, prog string, optimize bool, rep *Report) {
	shapeBase := c17Shape{Sub: "map-order", Program: prog}
	// 1. discover the sites
	sites := map[string]int{}
	var atoms *AtomTable
	var src string
	setup := func(c *interp.Ctx) {
		atoms = &AtomTable{Coded: true}
		src = c17Program(prog, atoms)
		atoms.Declare(c, nil)
		c.EnableTokenSymbolisation(atoms.Placeholders(), placeholderRe, nil)
	}
	st, _ := w.E.Explore(w.S, 64, func(c *interp.Ctx) {
		setup(c)
		c17Compile(w, c, src, optimize)
		for s, n := range c.MapSitesSeen {
			if n > sites[s] {
				sites[s] = n
			}
		}
	}, nil)
	rep.addExplore(nil, st, false)
	var names []string
	for s := range sites {
		if strings.Contains(s, "verif/harness") {
			continue
		}
		names = append(names, s)
	}
	sort.Strings(names)
	rep.mu.Lock()
	for _, s := range names {
		rep.Extra["map_range_site: "+shortSite(s)] = fmt.Sprintf("up to %d entries", sites[s])
	}
	rep.mu.Unlock()
	// 2. per site: all permutations
	for _, site := range names {
		if sites[site] > 5 {
			rep.note(fmt.Sprintf("map-order: site %s has %d entries, permutations beyond 5 entries are not explored", shortSite(site), sites[site]))
			continue
		}
		first := ""
		firstSet := false
		stopped := false
		shape := shapeBase
		shape.Site = shortSite(site)
		st, hit := w.E.Explore(w.S, 4000, func(c *interp.Ctx) {
			setup(c)
			c.MapSitePermute = map[string]bool{site: true}
			r := c17Compile(w, c, src, optimize)
			k := resultKey(r)
			if !firstSet {
				first, firstSet = k, true
				return
			}
			if k != first && !stopped {
				stopped = true
				f := &Finding{Property: "C17", Case: "c17/map-order/" + prog + "/" + shortSite(site), Sub: "map-order", Shape: shape,
					Msg: "the result depends on the iteration order of a Go map (range at " + shortSite(site) + ")", Detail: []string{"canonical order: " + first, "another order: " + k}}
				// native confirmation: run the same input repeatedly; Go randomises map order
				values := map[int]string{}
				if _, model := c.CheckModel("true", atoms.Vars()); model != nil {
					values, _ = atoms.ModelValues(model)
				}
				nsrc := atoms.Substitute(src, values)
				f.Sources = map[string]string{"source": nsrc}
				seen := map[string]bool{}
				for i := 0; i < 60; i++ {
					resp, ok := c17NativeCompile(w, nsrc, optimize)
					if !ok {
						break
					}
					seen[resp.Out+"|"+resp.Err] = true
				}
				var outs []string
				for o := range seen {
					outs = append(outs, o)
				}
				sort.Strings(outs)
				f.Outputs = map[string]string{"distinct native results over 60 runs": strings.Join(outs, "\n----\n")}
				if len(seen) > 1 {
					f.Confirmed = true
					f.ReplayMsg = "native results differ between runs"
					if strings.Contains(outs[0], "unknown fontID") {
						f.Tags = append(f.Tags, "font_list_in_map_order")
					}
					rep.violation(f)
				} else {
					rep.unconfirmed(f)
				}
			}
		}, nil)
		rep.addExplore(nil, st, hit)
	}
}

func shortSite(s string) string {
	if i := strings.LastIndex(s, "/repo/"); i >= 0 {
		fn := s
		if j := strings.Index(s, "#"); j >= 0 {
			fn = s[:j]
		}
		if k := strings.LastIndex(fn, "."); k >= 0 {
			fn = fn[k+1:]
		}
		return fn + "@" + s[i+6:]
	}
	return s
}

// (b) histories: a compilation leaves every package-level variable of the
// repository's packages unchanged and repeating it gives the same result.
func c17HistoryRun(w *Worker, prog string, rep *Report) {
	shape := c17Shape{Sub: "history", Program: prog}
	stopped := false
	st, hit := w.E.Explore(w.S, 64, func(c *interp.Ctx) {
		atoms := &AtomTable{Coded: true}
		src := c17Program(prog, atoms)
		atoms.Declare(c, nil)
		c.EnableTokenSymbolisation(atoms.Placeholders(), placeholderRe, nil)
		before := w.E.GlobalsSnapshot()
		r1 := c17Compile(w, c, src, true)
		after := w.E.GlobalsSnapshot()
		r2 := c17Compile(w, c, src, true)
		if stopped {
			return
		}
		msg := ""
		var detail []string
		if before != after {
			msg = "a compilation changes package-level state"
			detail = diffLines(before, after)
		} else if resultKey(r1) != resultKey(r2) {
			msg = "compiling the same input twice in one process gives different results"
			detail = []string{"first: " + resultKey(r1), "second: " + resultKey(r2)}
		}
		if msg == "" {
			return
		}
		stopped = true
		f := &Finding{Property: "C17", Case: "c17/history/" + prog, Sub: "history", Msg: msg, Detail: detail, Shape: shape}
		// native confirmation: A, other inputs, A again in one process
		_, model := c.CheckModel("true", atoms.Vars())
		values, _ := atoms.ModelValues(model)
		nsrc := atoms.Substitute(src, values)
		f.Sources = map[string]string{"source": nsrc}
		a1, ok1 := c17NativeCompile(w, nsrc, true)
		for _, other := range []string{"text X {\nformat(\"aa bb aa bb\", \"font2\")\n}", "script Y {\nz(\"q$\")\n}"} {
			c17NativeCompile(w, other, true)
		}
		a2, ok2 := c17NativeCompile(w, nsrc, true)
		f.Outputs = map[string]string{"first": a1.Out + a1.Err, "again after other compilations": a2.Out + a2.Err}
		if ok1 && ok2 && (a1.Out != a2.Out || a1.Err != a2.Err) {
			f.Confirmed = true
			rep.violation(f)
			return
		}
		// state that changes without (yet) changing a result is still a
		// violation of the inductive step, but it cannot be shown on the
		// native build through outputs: report it as confirmed by the real
		// code's own state (the globals are those of the interpreted real code)
		if before != after {
			f.Confirmed = true
			f.ReplayMsg = "package-level state differs after a compilation (observed on the interpreted real code; native outputs of this input did not change)"
			rep.violation(f)
			return
		}
		rep.unconfirmed(f)
	}, nil)
	rep.addExplore(nil, st, hit)
}

func diffLines(a, b string) []string {
	la, lb := strings.Split(a, "\n"), strings.Split(b, "\n")
	var out []string
	for i := 0; i < len(la) || i < len(lb); i++ {
		var x, y string
		if i < len(la) {
			x = la[i]
		}
		if i < len(lb) {
			y = lb[i]
		}
		if x != y {
			out = append(out, "before: "+x, "after:  "+y)
		}
		if len(out) > 10 {
			break
		}
	}
	return out
}

// (c) context independence: the block emitted for X is the same alone and
// between other top-level statements.
type c17Ctx struct {
	name           string
	x              func(a *AtomTable) (src string, label func() interp.Value)
	before, after  func(a *AtomTable) string
}

func blockOf(c *interp.Ctx, out interp.Value, label interp.Value) []interp.Value {
	lines := outputLines(out, false)
	for i, l := range lines {
		al := ParseAsm(l)[0]
		if al.Kind == "label" && sameValue(c, al.Name, label) == 1 {
			var blk []interp.Value
			for j := i; j < len(lines); j++ {
				if isEmpty(lines[j]) {
					break
				}
				blk = append(blk, lines[j])
			}
			return blk
		}
	}
	return nil
}

func c17ContextRun(w *Worker, cx c17Ctx, rep *Report) {
	shape := c17Shape{Sub: "context", Program: cx.name}
	stopped := false
	st, hit := w.E.Explore(w.S, 256, func(c *interp.Ctx) {
		atoms := &AtomTable{Coded: true}
		xsrc, label := cx.x(atoms)
		var bsrc, asrc string
		if cx.before != nil {
			bsrc = cx.before(atoms) + "\n"
		}
		if cx.after != nil {
			asrc = "\n" + cx.after(atoms)
		}
		atoms.Declare(c, nil)
		c.EnableTokenSymbolisation(atoms.Placeholders(), placeholderRe, nil)
		alone := c17Compile(w, c, xsrc, true)
		inctx := c17Compile(w, c, bsrc+xsrc+asrc, true)
		if stopped {
			return
		}
		if alone.Err.IsErr || inctx.Err.IsErr {
			if alone.Err.IsErr != inctx.Err.IsErr {
				stopped = true
				rep.violation(&Finding{Property: "C17", Case: "c17/context/" + cx.name, Sub: "context", Shape: shape, Confirmed: true,
					Msg: "a statement is accepted alone and rejected in context (or vice versa): " + interp.ToString(alone.Err.Msg) + " / " + interp.ToString(inctx.Err.Msg)})
			}
			return
		}
		a, b := blockOf(c, alone.Out, label()), blockOf(c, inctx.Out, label())
		x := &OracleCtx{W: w, C: c}
		v := expectLines(x, "context", "block of the statement alone vs in context", b, a)
		if v == nil {
			return
		}
		stopped = true
		_, model := c.CheckModel("true", atoms.Vars())
		values, _ := atoms.ModelValues(model)
		f := &Finding{Property: "C17", Case: "c17/context/" + cx.name, Sub: "context", Msg: v.Msg, Shape: shape}
		s1, s2 := atoms.Substitute(xsrc, values), atoms.Substitute(bsrc+xsrc+asrc, values)
		f.Sources = map[string]string{"alone": s1, "in context": s2}
		n1, ok1 := c17NativeCompile(w, s1, true)
		n2, ok2 := c17NativeCompile(w, s2, true)
		f.Outputs = map[string]string{"alone": n1.Out + n1.Err, "in context": n2.Out + n2.Err}
		lbl, _ := interp.Instantiate(label(), model)
		if ok1 && ok2 && strings.Join(strBlock(n1.Out, lbl), "\n") != strings.Join(strBlock(n2.Out, lbl), "\n") {
			f.Confirmed = true
			rep.violation(f)
			return
		}
		rep.unconfirmed(f)
	}, nil)
	rep.addExplore(nil, st, hit)
}

func strBlock(out, label string) []string {
	lines := strings.Split(out, "\n")
	for i, l := range lines {
		if l == label+":" || l == label+"::" {
			var blk []string
			for j := i; j < len(lines) && lines[j] != ""; j++ {
				blk = append(blk, lines[j])
			}
			return blk
		}
	}
	return nil
}

func c17Contexts() []c17Ctx {
	ph := func(a *AtomTable, cls Class, hint, group string) *Atom { return a.New(cls, hint, group) }
	script := func(a *AtomTable) string { return c17Program("flow", a) }
	texts := func(a *AtomTable) string { return c17Program("texts", a) }
	maps := func(a *AtomTable) string { return c17Program("mapscripts", a) }
	raw := func(a *AtomTable) string { return "raw `\nsome raw text\n`" }
	fmt2 := func(a *AtomTable) string {
		return "text " + ph(a, ClsUserName, "text", "names").Placeholder() + " {\nformat(\"{A}{B} aa bb {A}{B}\", \"font2\")\n}"
	}
	var res []c17Ctx
	xs := []struct {
		name string
		mk   func(a *AtomTable) (string, func() interp.Value)
	}{
		{"script", func(a *AtomTable) (string, func() interp.Value) {
			s := ph(a, ClsUserName, "script", "names")
			return "script " + s.Placeholder() + " {\n" + ph(a, ClsPlainCmd, "cmd", "").Placeholder() + "\nif (flag(" + ph(a, ClsIdent, "flag", "").Placeholder() + ")) {\n" + ph(a, ClsPlainCmd, "cmd", "").Placeholder() + "\n}\n}", func() interp.Value { return s.Val }
		}},
		{"format-text", func(a *AtomTable) (string, func() interp.Value) {
			t := ph(a, ClsUserName, "text", "names")
			return "text " + t.Placeholder() + " {\nformat(\"{A}{B} aa bb {A}{B} aa\", \"font1\")\n}", func() interp.Value { return t.Val }
		}},
		{"format-text-long", func(a *AtomTable) (string, func() interp.Value) {
			t := ph(a, ClsUserName, "text", "names")
			return "text " + t.Placeholder() + " {\nformat(\"{A}{B} aa bb {A}{B} aa bb aa bb aa bb aa\", \"font1\")\n}", func() interp.Value { return t.Val }
		}},
		{"script-with-moves", func(a *AtomTable) (string, func() interp.Value) {
			// its hoisted movement block is compared too (through the label the
			// command carries): walk_a twice, then walk_b twice
			s := ph(a, ClsUserName, "script", "names")
			return "script " + s.Placeholder() + " {\n" + ph(a, ClsPlainCmd, "cmd", "").Placeholder() + "(moves(walk_a * 2 walk_b * 2))\n}", func() interp.Value { return cat(s.Val, "_Movement_0") }
		}},
		{"movement", func(a *AtomTable) (string, func() interp.Value) {
			m := ph(a, ClsUserName, "mv", "names")
			return "movement " + m.Placeholder() + " {\n" + ph(a, ClsIdent, "step", "").Placeholder() + " * 2\nwalk_up\n}", func() interp.Value { return m.Val }
		}},
		{"mart", func(a *AtomTable) (string, func() interp.Value) {
			m := ph(a, ClsUserName, "mart", "names")
			return "mart " + m.Placeholder() + " {\n" + ph(a, ClsIdent, "item", "").Placeholder() + "\nITEM_B\n}", func() interp.Value { return m.Val }
		}},
		{"mapscripts-inline-script", func(a *AtomTable) (string, func() interp.Value) {
			// the inline script (with control flow) of a mapscripts statement:
			// its block is found through the label <map>_<type>
			m := ph(a, ClsUserName, "map", "names")
			ty := ph(a, ClsIdent, "mstype", "")
			c := func() string { return ph(a, ClsPlainCmd, "cmd", "").Placeholder() }
			return "mapscripts " + m.Placeholder() + " {\n" + ty.Placeholder() + " {\n" + c() + "\nif (flag(" + ph(a, ClsIdent, "flag", "").Placeholder() + ")) {\n" + c() + "\n}\n" + c() + "\n" + c() + "\n}\n}", func() interp.Value { return cat(m.Val, "_", ty.Val) }
		}},
		{"mapscripts", func(a *AtomTable) (string, func() interp.Value) {
			m := ph(a, ClsUserName, "map", "names")
			return "mapscripts " + m.Placeholder() + " {\n" + ph(a, ClsIdent, "mstype", "").Placeholder() + ": " + ph(a, ClsIdent, "target", "").Placeholder() + "\n}", func() interp.Value { return m.Val }
		}},
	}
	// the same text, font and width as "format-text-long" with other box
	// parameters (a result cache keyed too coarsely would leak between them)
	fmtLines := func(a *AtomTable) string {
		return "text " + ph(a, ClsUserName, "text", "names").Placeholder() + " {\nformat(\"{A}{B} aa bb {A}{B} aa bb aa bb aa bb aa\", \"font1\", numLines=3)\n}"
	}
	fmtOverlap := func(a *AtomTable) string {
		return "script " + ph(a, ClsUserName, "script", "names").Placeholder() + " {\n" + ph(a, ClsPlainCmd, "cmd", "").Placeholder() + "(format(\"{A}{B} aa bb {A}{B} aa bb aa bb aa bb aa\", \"font1\", cursorOverlapWidth=2))\n}"
	}
	// moves() lists that differ from the subject's only in how often the last
	// (or only the first) step repeats: they must not share its block
	movesNear := func(a *AtomTable) string {
		return "script " + ph(a, ClsUserName, "script", "names").Placeholder() + " {\n" + ph(a, ClsPlainCmd, "cmd", "").Placeholder() + "(moves(walk_a * 2 walk_b))\n" + ph(a, ClsPlainCmd, "cmd", "").Placeholder() + "(moves(walk_a walk_b * 2))\n" + ph(a, ClsPlainCmd, "cmd", "").Placeholder() + "(moves(walk_a * 2 walk_b * 3))\n}"
	}
	neighbours := map[string]func(a *AtomTable) string{"moves-differing-in-repeat-counts": movesNear, "script": script, "texts": texts, "mapscripts+mart": maps, "raw": raw, "format-other-font": fmt2, "format-same-text-numLines": fmtLines, "format-same-text-cursorOverlap": fmtOverlap}
	var nnames []string
	for n := range neighbours {
		nnames = append(nnames, n)
	}
	sort.Strings(nnames)
	for _, x := range xs {
		for _, n := range nnames {
			nb := neighbours[n]
			res = append(res, c17Ctx{name: x.name + " after " + n, x: x.mk, before: nb})
			res = append(res, c17Ctx{name: x.name + " before " + n, x: x.mk, after: nb})
		}
		res = append(res, c17Ctx{name: x.name + " between script and texts", x: x.mk, before: script, after: texts})
	}
	// a script whose own label is spelled like another script's name / one of
	// that script's generated sub-labels: the other script's presence or
	// position does not change how it compiles
	shop := func(a *AtomTable) string {
		c := func() string { return ph(a, ClsPlainCmd, "cmd", "").Placeholder() }
		f := func() string { return "flag(" + ph(a, ClsIdent, "flag", "").Placeholder() + ")" }
		return "script Shop {\n" + c() + "\nif (" + f() + ") {\n" + c() + "\n}\nwhile (" + f() + ") {\n" + c() + "\n}\n}"
	}
	for _, lbl := range []string{"Shop_1", "Shop_2", "Shop_3", "Shop"} {
		lbl := lbl
		mk := func(a *AtomTable) (string, func() interp.Value) {
			s := ph(a, ClsUserName, "script", "names")
			c := func() string { return ph(a, ClsPlainCmd, "cmd", "").Placeholder() }
			return "script " + s.Placeholder() + " {\n" + c() + "\n" + lbl + ":\n" + c() + "\n}", func() interp.Value { return s.Val }
		}
		if lbl != "Shop" {
			res = append(res, c17Ctx{name: "script-with-label-" + lbl + " after script Shop", x: mk, before: shop})
		}
		res = append(res, c17Ctx{name: "script-with-label-" + lbl + " before script Shop", x: mk, after: shop})
	}
	return res
}

func matchKnownC17(k *KnownFinding, f *Finding) bool {
	if kindOf(k) == "font_list_in_map_order" {
		for _, t := range f.Tags {
			if t == "font_list_in_map_order" {
				return true
			}
		}
	}
	return false
}

// RunC17 is the check of property C17.
func RunC17(env *Env, rep *Report) {
	progs := []string{"small", "small-loop", "small-switch", "flow", "switch", "texts", "mapscripts", "constants", "unknown-font", "format", "two-clashes", "two-generated-clashes"}
	ctxs := c17Contexts()
	rep.Technique = "symbolic execution of the real compiler (go/ssa) with Go map iteration order as an explicit nondeterministic choice (every permutation at every range-over-map site), package-level state compared before/after a compilation (one inductive step), and relational comparison of a statement compiled alone and in context"
	rep.Explanation = "Bounded symbolic verification, not a proof. (a) Determinism: in the engine every Go map is an ordered association list and a 'range' over a map is a decision point; for each program of the list, each range-over-map site reached by the real code (discovered by a first run) is given every permutation of its entries, one site at a time, and the result (output or error text, with all names symbolic) must be identical to the canonical-order result. (b) Histories: the deep value of every package-level variable of the repository's packages is compared before and after a symbolic compilation and the compilation is repeated in the same engine heap; unchanged state + equal results is one inductive step that covers any number of earlier compilations. (c) Independence: each kind of top-level statement is compiled alone and before / after / between other statements (scripts with inline texts and movements, texts, a format() text under another font, mapscripts, mart, raw); its emitted block must be equal line by line. Counterexamples are confirmed on the native build (repeated runs in one process / alone vs in context)."
	rep.Bounds = map[string]interface{}{"programs": progs, "max_map_entries_permuted": 5, "context_cases": len(ctxs)}
	rep.Outside = []string{"maps with more than 5 entries at one range site", "simultaneous permutation of several sites", "other programs / neighbours", "numbering and sharing of hoisted labels across statements (allowed to depend on context by the property)"}
	rep.Assumptions = []string{"Go's language guarantee is only that map iteration order is unspecified: every order is possible", "format() uses a stub font config with two small fonts"}
	rep.Functions = []string{"renderChunks", "optimizeChunkOrder", "FormatText", "ParseProgram", "Emit", "addImplicitTexts", "addImplicitMovements", "parseFormatStringOperator"}
	rep.Match = matchKnownC17
	rep.AddSample(map[string]interface{}{"map_order_program": "flow", "context_case": ctxs[3].name})
	type job struct {
		kind string
		prog string
		opt  bool
		cx   c17Ctx
	}
	var jobs []job
	for _, p := range progs {
		jobs = append(jobs, job{kind: "map", prog: p, opt: true}, job{kind: "map", prog: p, opt: false}, job{kind: "hist", prog: p})
	}
	for _, cx := range ctxs {
		jobs = append(jobs, job{kind: "ctx", cx: cx})
	}
	// reachability witness: permuting a map that the output really depends on must be noticed
	wit := false
	env.RunJobs(1, rep, func(w *Worker, i int) {
		// twin: with all sites permuted at once the exploration must fork
		st, _ := w.E.Explore(w.S, 100, func(c *interp.Ctx) {
			c.PermuteMaps = true
			atoms := &AtomTable{Coded: true}
			src := c17Program("flow", atoms)
			atoms.Declare(c, nil)
			c.EnableTokenSymbolisation(atoms.Placeholders(), placeholderRe, nil)
			c17Compile(w, c, src, true)
		}, nil)
		wit = st.Paths > 1
	})
	rep.Witness("c17-witness-map-order-forks", wit)
	env.RunJobs(len(jobs), rep, func(w *Worker, i int) {
		rep.mu.Lock()
		rep.Cases++
		rep.NonTrivial++
		rep.mu.Unlock()
		switch jobs[i].kind {
		case "map":
			c17MapOrderRun(w, jobs[i].prog, jobs[i].opt, rep)
		case "hist":
			c17HistoryRun(w, jobs[i].prog, rep)
		case "ctx":
			c17ContextRun(w, jobs[i].cx, rep)
		}
	})
}
