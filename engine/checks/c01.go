package checks

import (
	"encoding/json"
	"fmt"
	"strings"
)

var c01Cfg = shapeCfg{
	simple:     []string{"cmd", "end", "return", "label", "goto"},
	constructs: []string{"if", "ifelse", "ifelif", "ifelifelse", "while", "whileinf", "dowhile"},
	maxDepth:   3,
}

// c01PairCase: two scripts in one file (state must not leak from one script's
// compilation into the next; gotos may cross scripts).
func c01PairCase(shA, shB []*Sh, name string) *Case {
	atoms := &AtomTable{Coded: true}
	b := &shapeBuilder{atoms: atoms}
	nA := atoms.New(ClsIdent, "script", "names")
	nB := atoms.New(ClsIdent, "script", "names")
	both := append(append([]*Sh{}, shA...), shB...)
	b.collectLabels(both)
	li := 0
	bodyA := b.block(shA, &li)
	bodyB := b.block(shB, &li)
	prog := &Program{Atoms: atoms, Tops: []interface{}{&Script{Name: nA, Body: bodyA}, &Script{Name: nB, Body: bodyB}}}
	return &Case{Name: name, Prog: prog, Variants: optVariants, Shape: ShString(shA) + " || " + ShString(shB), NonTrivial: true,
		Oracle: bisimOracle("bisimulation-two-scripts", func(x *OracleCtx) []*Script { return scriptsOf(prog) }, nil)}
}

func c01PairShapes(maxNodes int) [][2][]*Sh {
	partners := [][]*Sh{
		{{K: "if", Blocks: [][]*Sh{{{K: "cmd"}}}}, {K: "label"}, {K: "cmd"}},
		{{K: "while", Blocks: [][]*Sh{{{K: "cmd"}, {K: "if", Blocks: [][]*Sh{{{K: "break"}}}}}}}},
		{{K: "ifelse", Blocks: [][]*Sh{{{K: "end"}}, {{K: "cmd"}}}}, {K: "goto"}},
	}
	var res [][2][]*Sh
	var small [][]*Sh
	for n := 1; n <= maxNodes; n++ {
		small = append(small, c01Cfg.enumBlock(n, 1, false, false)...)
	}
	for _, a := range small {
		for _, p := range partners {
			// goto targets: enumerate over the labels of both scripts
			for _, ab := range expandGotos(append(cloneSh(a), append([]*Sh{{K: "\x00sep"}}, cloneSh(p)...)...)) {
				var x, y []*Sh
				cur := &x
				for _, s := range ab {
					if s.K == "\x00sep" {
						cur = &y
						continue
					}
					*cur = append(*cur, s)
				}
				res = append(res, [2][]*Sh{x, y}, [2][]*Sh{y, x})
			}
		}
	}
	return res
}

func c01Case(sh []*Sh, name string) *Case { return c01CaseMode(sh, name, true) }

// c01SpelledShapes: skeletons whose blocks end in an ordinary command; they
// run with SMT-string names (not Int-coded ones), so that a decision taken
// on the spelling of a command, flag, label or script name (a prefix, a
// substring, a letter case) becomes a solver query instead of falling under
// the genericity assumption of DESIGN.md §12.
func c01SpelledShapes() [][]*Sh {
	c := func() *Sh { return &Sh{K: "cmd"} }
	return [][]*Sh{
		{c()},
		{{K: "if", Blocks: [][]*Sh{{c()}}}, c()},
		{{K: "if", Blocks: [][]*Sh{{c()}}}},
		{{K: "ifelse", Blocks: [][]*Sh{{c()}, {c()}}}, c()},
		{{K: "while", Blocks: [][]*Sh{{c()}}}, c()},
		{{K: "dowhile", Blocks: [][]*Sh{{c()}}}, c()},
	}
}

func c01CaseMode(sh []*Sh, name string, coded bool) *Case {
	atoms := &AtomTable{Coded: coded}
	b := &shapeBuilder{atoms: atoms}
	sname := atoms.New(ClsIdent, "script", "names")
	b.collectLabels(sh)
	li := 0
	body := b.block(sh, &li)
	prog := &Program{Atoms: atoms, Tops: []interface{}{&Script{Name: sname, Body: body}}}
	nontrivial := false
	walkSh(sh, func(s *Sh) {
		if constructBlocks[s.K] > 0 || s.K == "goto" {
			nontrivial = true
		}
	})
	cs := &Case{Name: name, Prog: prog, Variants: optVariants, Shape: ShString(sh), NonTrivial: nontrivial}
	main := bisimOracle("bisimulation", func(x *OracleCtx) []*Script { return scriptsOf(prog) }, nil)
	alt := bisimOracle("bisimulation-alt", func(x *OracleCtx) []*Script { return scriptsOf(prog) }, func(x *OracleCtx) RefOptions { return RefOptions{DropAfterBreak: true} })
	labelAfterBreak := shapeHasStmtAfterBreak(sh)
	cs.Oracle = func(x *OracleCtx) *Violation {
		v := main(x)
		if v != nil && labelAfterBreak {
			if av := alt(x); av == nil {
				v.Tags = append(v.Tags, "explained_by_statements_after_break_dropped")
			}
		}
		return v
	}
	return cs
}

// labelAfterBreak: known finding #10 predicate - a label directly (or after
// other statements) following a 'break' in the same block.
func shapeHasStmtAfterBreak(b []*Sh) bool {
	found := false
	var walk func(b []*Sh)
	walk = func(b []*Sh) {
		for i, s := range b {
			if s.K == "break" && i < len(b)-1 {
				for _, t := range b[i+1:] {
					if t.K == "label" {
						found = true
					}
				}
			}
			for _, bl := range s.Blocks {
				walk(bl)
			}
		}
	}
	walk(b)
	return found
}

func c01Shapes(maxNodes int) [][]*Sh {
	var all [][]*Sh
	for n := 1; n <= maxNodes; n++ {
		for _, b := range c01Cfg.enumBlock(n, 1, false, false) {
			all = append(all, expandGotos(b)...)
		}
	}
	return all
}

// contextFamily: every construct as first / middle / last statement of every
// other construct's body, with a break/continue/label probe after it.
func c01ContextShapes() [][]*Sh {
	var res [][]*Sh
	inner := []func() *Sh{
		func() *Sh { return &Sh{K: "if", Blocks: [][]*Sh{{{K: "cmd"}}}} },
		func() *Sh { return &Sh{K: "ifelse", Blocks: [][]*Sh{{{K: "cmd"}}, {{K: "break"}}}} },
		func() *Sh { return &Sh{K: "ifelifelse", Blocks: [][]*Sh{{{K: "cmd"}}, {{K: "end"}}, {{K: "cmd"}}}} },
		func() *Sh { return &Sh{K: "while", Blocks: [][]*Sh{{{K: "cmd"}, {K: "if", Blocks: [][]*Sh{{{K: "break"}}}}}}} },
		func() *Sh { return &Sh{K: "whileinf", Blocks: [][]*Sh{{{K: "cmd"}, {K: "if", Blocks: [][]*Sh{{{K: "break"}}}}}}} },
		func() *Sh { return &Sh{K: "dowhile", Blocks: [][]*Sh{{{K: "cmd"}, {K: "if", Blocks: [][]*Sh{{{K: "continue"}}}}}}} },
	}
	// labels after break (known finding #10 lives here)
	for _, lp := range []string{"while", "whileinf", "dowhile"} {
		res = append(res, []*Sh{{K: "goto"}, {K: lp, Blocks: [][]*Sh{{{K: "break"}, {K: "label"}}}}})
		res = append(res, []*Sh{{K: lp, Blocks: [][]*Sh{{{K: "break"}, {K: "label"}, {K: "cmd"}}}}, {K: "goto"}})
		res = append(res, []*Sh{{K: lp, Blocks: [][]*Sh{{{K: "goto"}, {K: "break"}, {K: "label"}}}}})
	}
	outer := []string{"if", "ifelse", "while", "whileinf", "dowhile"}
	for _, o := range outer {
		for ii, mk := range inner {
			if o != "while" && o != "whileinf" && o != "dowhile" && ii == 1 {
				continue // break needs an enclosing loop
			}
			for pos := 0; pos < 3; pos++ {
				var body []*Sh
				in := mk()
				switch pos {
				case 0:
					body = []*Sh{in, {K: "cmd"}}
				case 1:
					body = []*Sh{{K: "cmd"}, in, {K: "label"}, {K: "cmd"}}
				case 2:
					body = []*Sh{{K: "cmd"}, in}
				}
				osh := &Sh{K: o, Blocks: [][]*Sh{body}}
				if o == "ifelse" {
					osh.Blocks = append(osh.Blocks, []*Sh{{K: "cmd"}})
				}
				res = append(res, []*Sh{{K: "cmd"}, osh, {K: "cmd"}})
				res = append(res, []*Sh{osh})
			}
		}
	}
	return res
}

// elifChainShapes: if with 2..3 elifs, with and without else, every body
// empty or one command, alone and inside a loop.
func c01ElifChainShapes() [][]*Sh {
	var res [][]*Sh
	for k := 2; k <= 3; k++ {
		for _, els := range []bool{false, true} {
			nb := k + 1
			kind := "ifchain"
			if els {
				nb++
				kind = "ifchainelse"
			}
			for mask := 0; mask < 1<<nb; mask++ {
				blocks := make([][]*Sh, nb)
				for i := range blocks {
					if mask>>i&1 == 1 {
						blocks[i] = []*Sh{{K: "cmd"}}
					}
				}
				chain := &Sh{K: kind, Blocks: blocks}
				res = append(res, []*Sh{chain, {K: "cmd"}})
				res = append(res, []*Sh{{K: "while", Blocks: [][]*Sh{{cloneSh([]*Sh{chain})[0], {K: "cmd"}}}}})
			}
		}
	}
	return res
}

// matchKnown implements the known-finding predicates shared by the
// control-flow checks.
func matchKnown(k *KnownFinding, f *Finding) bool {
	var m struct {
		Kind string `json:"kind"`
	}
	json.Unmarshal(k.Match, &m)
	shape, _ := f.Shape.(string)
	switch m.Kind {
	case "label_after_break":
		// the shape has a label after a break in one block, and the native
		// output behaves exactly as if the statements after the break did
		// not exist
		if sh, ok := f.Shape.(string); ok && strings.Contains(sh, "break") && shapeStringLabelAfterBreak(sh) {
			for _, t := range f.Tags {
				if t == "explained_by_statements_after_break_dropped" {
					return true
				}
			}
		}
	}
	_ = shape
	return false
}

// shapeStringLabelAfterBreak works on the ShString form: within one block
// (brace level), a "label" token after a "break" token.
func shapeStringLabelAfterBreak(s string) bool {
	// tokenise into words and braces
	type frame struct{ sawBreak bool }
	stack := []*frame{{}}
	word := ""
	flush := func() bool {
		if word == "" {
			return false
		}
		w := word
		word = ""
		top := stack[len(stack)-1]
		if w == "break" {
			top.sawBreak = true
		} else if w == "label" && top.sawBreak {
			return true
		}
		return false
	}
	for i := 0; i < len(s); i++ {
		switch c := s[i]; c {
		case ' ':
			if flush() {
				return true
			}
		case '{':
			if flush() {
				return true
			}
			stack = append(stack, &frame{})
		case '}':
			if flush() {
				return true
			}
			stack = stack[:len(stack)-1]
		default:
			word += string(c)
		}
	}
	return flush()
}

// RunC01 is the check of property C01.
func RunC01(env *Env, rep *Report) {
	maxNodes := 3
	if env.Tier == "thorough" {
		maxNodes = 4
	}
	if v := envInt("VERIF_C01_NODES"); v > 0 {
		maxNodes = v
	}
	shapes := c01Shapes(maxNodes)
	nEnum := len(shapes)
	ctx := c01ContextShapes()
	for _, c := range ctx {
		shapes = append(shapes, expandGotos(c)...)
	}
	shapes = append(shapes, c01ElifChainShapes()...)
	rep.Technique = "symbolic execution of the real lexer/parser/emitter (go/ssa) on program skeletons with symbolic names; SMT-discharged bisimulation between the skeleton's reference semantics and the emitted assembly"
	rep.Explanation = "Bounded symbolic verification, not a proof. For every statement-tree skeleton within the shape bound, the real ParseProgram and Emit are executed symbolically (all command, flag, label and script names are SMT string variables constrained only to their lexical class; -optimize on and off). The emitted text is parsed into a control-flow graph and compared with the reference semantics of the skeleton by a bisimulation whose every step is an SMT query over an arbitrary game state (flags/vars/trainer flags are uninterpreted functions, chosen afresh after every command), so executions of any length are covered for each skeleton. Besides single scripts the families contain files with two scripts and files mixing script statements with inline map scripts (entries and table rows, whose labels are read off the emitted header and tables), each script being compared with its own body. unsat on all mismatch queries = holds for every name and every state; sat = counterexample, replayed on the natively built code before it is reported."
	rep.Bounds = map[string]interface{}{"max_nodes": maxNodes, "max_depth": c01Cfg.maxDepth, "enumerated_skeletons": nEnum, "context_family_skeletons": len(shapes) - nEnum, "elif_chain_family": "if with 2..3 elifs, with/without else, every body empty or one command, alone and inside a while",
		"statement_kinds": append(append([]string{}, c01Cfg.simple...), c01Cfg.constructs...), "conditions": "single flag() leaf", "goto_targets": "every label of the skeleton, or a label not defined in the file", "optimize": "on and off"}
	rep.Outside = []string{"statement trees with more nodes or deeper nesting than the bound (other than the context family)", "compound conditions (C02) and switch (C03)", "more than two scripts per file"}
	rep.Assumptions = []string{"assembly semantics of DESIGN.md §4.1: ordinary commands are opaque events that may change any flag/var; goto/goto_if_*/compare/return/end as in the decomp script engine",
		"atom classes: command names are identifiers other than keywords and control-flow instruction names; label and script names are pairwise distinct; label names do not end in _<digits>",
		"intrinsics of DESIGN.md §2.5 model the standard library faithfully", "the reference semantics of DESIGN.md §4.1 (continue in do...while returns to the start of the body)"}
	rep.Functions = []string{"emitter.", "parseStatement", "parseIfStatement", "parseWhileStatement", "parseDoWhileStatement", "parseBreakStatement", "parseContinueStatement", "parseBlockStatement", "parseConditionExpression", "parseBooleanExpression", "parseLeafBooleanExpression"}
	rep.Match = matchKnown
	cases := make([]*Case, len(shapes))
	for i, sh := range shapes {
		cases[i] = c01Case(sh, fmt.Sprintf("c01/%s", ShString(sh)))
	}
	pairNodes := 2
	if env.Tier == "thorough" {
		pairNodes = 3
	}
	pairs := c01PairShapes(pairNodes)
	for _, pr := range pairs {
		cases = append(cases, c01PairCase(pr[0], pr[1], fmt.Sprintf("c01/pair/%s || %s", ShString(pr[0]), ShString(pr[1]))))
	}
	rep.Bounds["two_script_programs"] = len(pairs)
	// files mixing script statements with inline map scripts (entries and
	// table rows), and the dead-code label shapes
	mixed := mixedFiles(pairNodes)
	for _, mf := range mixed {
		cases = append(cases, mixedC01Case(mf))
	}
	rep.Bounds["mixed_files_with_inline_map_scripts"] = len(mixed)
	for _, sh := range c04DeadCodeShapes() {
		for _, e := range expandGotos(sh) {
			cases = append(cases, c01Case(e, "c01/deadcode/"+ShString(e)))
		}
		// the same with a conditional goto in front that enters the dead code
		// through its label
		withGoto := append([]*Sh{{K: "if", Blocks: [][]*Sh{{{K: "goto"}}}}}, cloneSh(sh)...)
		for _, e := range expandGotos(withGoto) {
			cases = append(cases, c01Case(e, "c01/deadcode-entered/"+ShString(e)))
		}
	}
	for _, sh := range c01SpelledShapes() {
		cases = append(cases, c01CaseMode(sh, "c01/spelled/"+ShString(sh), false))
	}
	// a block-final command that differs from end / return only in letter
	// case is an ordinary command (it falls through)
	for _, kw := range []string{"END", "Return"} {
		for si, sh := range c01SpelledShapes()[:3] {
			cs := c01CaseMode(sh, fmt.Sprintf("c01/upper-case-terminator-name/%s/%d", kw, si), true)
			s0 := scriptsOf(cs.Prog)[0]
			var last *Cmd
			switch st := s0.Body[0].(type) {
			case *Cmd:
				last = st
			case *If:
				last, _ = st.Bodies[0][len(st.Bodies[0])-1].(*Cmd)
			}
			if last != nil {
				last.Name = L(kw)
				cases = append(cases, cs)
			}
		}
	}
	rep.Bounds["spelled_name_skeletons"] = len(c01SpelledShapes())
	if len(cases) > 0 {
		src, _ := cases[len(cases)/2].Prog.Render()
		rep.AddSample(map[string]interface{}{"skeleton": cases[len(cases)/2].Shape, "source_with_holes": src})
	}
	runWitness(env, rep, "c01-witness-negated-condition", func() *Case {
		cs := c01Case([]*Sh{{K: "ifelse", Blocks: [][]*Sh{{{K: "cmd"}}, {{K: "end"}}}}}, "witness")
		// twin: reference with the branches swapped must be refuted
		prog := cs.Prog
		cs.Oracle = bisimOracle("witness", func(x *OracleCtx) []*Script {
			s := scriptsOf(prog)[0]
			ifs := s.Body[0].(*If)
			tw := &If{Conds: ifs.Conds, Bodies: [][]Stmt{ifs.Else}, Else: ifs.Bodies[0], HasElse: true}
			return []*Script{{Name: s.Name, Body: []Stmt{tw}}}
		}, nil)
		return cs
	})
	env.RunJobs(len(cases), rep, func(w *Worker, i int) { w.RunCase(cases[i], rep) })
}
