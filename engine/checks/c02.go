package checks

import (
	"encoding/json"
	"fmt"
	"strings"
)

// ---- surface syntax of boolean expressions

// lvl is one level of a written expression: operands separated by && / ||.
type lvl struct {
	ops      []string // len(operands)-1, "&&" or "||"
	operands []*opnd
}

type opnd struct {
	not   bool
	group *lvl // nil: a leaf
	leaf  int  // leaf index
}

func (l *lvl) String() string {
	var sb strings.Builder
	for i, o := range l.operands {
		if i > 0 {
			sb.WriteString(" " + l.ops[i-1] + " ")
		}
		if o.not {
			sb.WriteString("!")
		}
		if o.group != nil {
			sb.WriteString("(" + o.group.String() + ")")
		} else {
			sb.WriteString(fmt.Sprintf("L%d", o.leaf))
		}
	}
	return sb.String()
}

// enumLevels enumerates levels with exactly n leaves and between kmin and
// kmax operands. extra is the budget of redundant parenthesis pairs (a group
// around a single operand).
func enumLevels(n, extra int, allowNot bool) []*lvl { return enumLevelsK(n, extra, allowNot, 1, n) }

func enumLevelsK(n, extra int, allowNot bool, kmin, kmax int) []*lvl {
	var res []*lvl
	for k := kmin; k <= kmax && k <= n; k++ {
		for _, comp := range positiveCompositions(n, k) {
			alts := make([][]*opnd, k)
			for i, m := range comp {
				alts[i] = enumOperands(m, extra, allowNot)
			}
			opsets := 1 << (k - 1)
			var rec func(i int, cur []*opnd)
			rec = func(i int, cur []*opnd) {
				if i == k {
					for code := 0; code < opsets; code++ {
						l := &lvl{operands: append([]*opnd{}, cur...)}
						for j := 0; j < k-1; j++ {
							if code>>j&1 == 1 {
								l.ops = append(l.ops, "||")
							} else {
								l.ops = append(l.ops, "&&")
							}
						}
						res = append(res, l)
					}
					return
				}
				for _, a := range alts[i] {
					rec(i+1, append(cur, a))
				}
			}
			rec(0, nil)
		}
	}
	return res
}

func enumOperands(m, extra int, allowNot bool) []*opnd {
	var res []*opnd
	nots := []bool{false}
	if allowNot {
		nots = []bool{false, true}
	}
	if m == 1 {
		for _, nt := range nots {
			res = append(res, &opnd{not: nt})
		}
	}
	// proper groups: the inner level has at least two operands
	if m >= 2 {
		for _, inner := range enumLevelsK(m, extra, allowNot, 2, m) {
			for _, nt := range nots {
				res = append(res, &opnd{not: nt, group: inner})
			}
		}
	}
	// redundant pair: a group around a single operand
	if extra > 0 {
		for _, inner := range enumLevelsK(m, extra-1, allowNot, 1, 1) {
			for _, nt := range nots {
				res = append(res, &opnd{not: nt, group: inner})
			}
		}
	}
	return res
}

func positiveCompositions(n, k int) [][]int {
	if k == 1 {
		return [][]int{{n}}
	}
	var res [][]int
	for i := 1; i <= n-k+1; i++ {
		for _, rest := range positiveCompositions(n-i, k-1) {
			res = append(res, append([]int{i}, rest...))
		}
	}
	return res
}

// number leaves left to right
func numberLeaves(l *lvl, next *int) {
	for _, o := range l.operands {
		if o.group != nil {
			numberLeaves(o.group, next)
		} else {
			o.leaf = *next
			*next++
		}
	}
}

// usualTree: '!' > '&&' > '||', left to right.
func usualTree(l *lvl, leaves []*Leaf) *Expr {
	operand := func(o *opnd) *Expr {
		if o.group == nil {
			lf := *leaves[o.leaf]
			lf.Not = o.not
			if o.not {
				lf.Op, lf.Value, lf.Strict = "", nil, false
			}
			return &Expr{Kind: ELeaf, Leaf: &lf}
		}
		in := usualTree(o.group, leaves)
		if o.not {
			return &Expr{Kind: ENot, L: in}
		}
		return &Expr{Kind: EParen, L: in}
	}
	var ors []*Expr
	cur := operand(l.operands[0])
	for i, op := range l.ops {
		nx := operand(l.operands[i+1])
		if op == "&&" {
			cur = &Expr{Kind: EAnd, L: cur, R: nx}
		} else {
			ors = append(ors, cur)
			cur = nx
		}
	}
	ors = append(ors, cur)
	e := ors[0]
	for _, o := range ors[1:] {
		e = &Expr{Kind: EOr, L: e, R: o}
	}
	return e
}

// compilerTree mimics the grouping rule behind known finding #1: after
// `x && y` the remainder of the level becomes one right operand, and a
// parenthesised group in that position swallows the remainder.
func compilerTree(l *lvl, leaves []*Leaf) *Expr {
	k := len(l.operands)
	var parseBE func(i int, single bool) (*Expr, int)
	var parseRS func(left *Expr, i int) (*Expr, int)
	mk := func(o *opnd) *Expr {
		if o.group == nil {
			lf := *leaves[o.leaf]
			lf.Not = o.not
			if o.not {
				lf.Op, lf.Value, lf.Strict = "", nil, false
			}
			return &Expr{Kind: ELeaf, Leaf: &lf}
		}
		in := compilerTree(o.group, leaves)
		if o.not {
			return &Expr{Kind: ENot, L: in}
		}
		return &Expr{Kind: EParen, L: in}
	}
	parseBE = func(i int, single bool) (*Expr, int) {
		o := l.operands[i]
		e := mk(o)
		if o.group != nil {
			if i < k-1 {
				return parseRS(e, i)
			}
			return e, i + 1
		}
		if single {
			return e, i + 1
		}
		return parseRS(e, i)
	}
	parseRS = func(left *Expr, i int) (*Expr, int) {
		if i >= k-1 {
			return left, i + 1
		}
		if l.ops[i] == "&&" {
			right, j := parseBE(i+1, true)
			grouped := &Expr{Kind: EAnd, L: left, R: right}
			if j-1 >= k-1 {
				return grouped, j
			}
			op := l.ops[j-1]
			rest, j2 := parseBE(j, false)
			if op == "&&" {
				return &Expr{Kind: EAnd, L: grouped, R: rest}, j2
			}
			return &Expr{Kind: EOr, L: grouped, R: rest}, j2
		}
		right, j := parseBE(i+1, false)
		return &Expr{Kind: EOr, L: left, R: right}, j
	}
	e, _ := parseBE(0, false)
	return e
}

func exprEqualShape(a, b *Expr) bool {
	if a.Kind != b.Kind {
		return false
	}
	if a.Kind == ELeaf {
		return a.Leaf.Operand[0] == b.Leaf.Operand[0] && a.Leaf.Not == b.Leaf.Not
	}
	if !exprEqualShape(a.L, b.L) {
		return false
	}
	if a.R != nil {
		return exprEqualShape(a.R, b.R)
	}
	return true
}

// ---- cases

type c02Shape struct {
	Expr    string `json:"expr"`
	Context string `json:"context"`
	Sub     string `json:"sub"`
}

func c02Body(ctx string, e *Expr, yes, no, after *Atom) []Stmt {
	y := []Stmt{&Cmd{Name: A(yes)}}
	n := []Stmt{&Cmd{Name: A(no)}}
	switch ctx {
	case "if":
		return []Stmt{&If{Conds: []*Expr{e}, Bodies: [][]Stmt{y}, Else: n, HasElse: true}, &Cmd{Name: A(after)}}
	case "elif":
		return []Stmt{&If{Conds: []*Expr{LeafFlag(no), e}, Bodies: [][]Stmt{n, y}}, &Cmd{Name: A(after)}}
	case "elif2a":
		// the expression in the first of two elifs, with an else
		return []Stmt{&If{Conds: []*Expr{LeafFlag(no), e, LeafFlag(after)}, Bodies: [][]Stmt{n, y, n}, Else: n, HasElse: true}, &Cmd{Name: A(after)}}
	case "elif2b":
		// the expression in the second of two elifs, without an else
		return []Stmt{&If{Conds: []*Expr{LeafFlag(no), LeafFlag(after), e}, Bodies: [][]Stmt{n, n, y}}, &Cmd{Name: A(after)}}
	case "while":
		return []Stmt{&While{Cond: e, Body: y}, &Cmd{Name: A(after)}}
	case "dowhile":
		return []Stmt{&DoWhile{Cond: e, Body: y}, &Cmd{Name: A(after)}}
	}
	panic("ctx")
}

func c02StructCase(l *lvl, ctx string) *Case {
	atoms := &AtomTable{Coded: true}
	sname := atoms.New(ClsIdent, "script", "names")
	n := 0
	numberLeaves(l, &n)
	leaves := make([]*Leaf, n)
	for i := range leaves {
		leaves[i] = &Leaf{Kind: "flag", Operand: []Tok{A(atoms.New(ClsIdent, "flag", ""))}}
	}
	yes := atoms.New(ClsPlainCmd, "yes", "cmds")
	no := atoms.New(ClsPlainCmd, "no", "cmds")
	after := atoms.New(ClsPlainCmd, "after", "cmds")
	usual := usualTree(l, leaves)
	alt := compilerTree(l, leaves)
	mkProg := func(e *Expr) *Program {
		return &Program{Atoms: atoms, Tops: []interface{}{&Script{Name: sname, Body: c02Body(ctx, e, yes, no, after)}}}
	}
	prog := mkProg(usual)
	altProg := mkProg(alt)
	differs := !exprEqualShape(stripParens(usual), stripParens(alt))
	main := bisimOracle("structure", func(x *OracleCtx) []*Script { return scriptsOf(prog) }, nil)
	altOracle := bisimOracle("structure-alt", func(x *OracleCtx) []*Script { return scriptsOf(altProg) }, nil)
	cs := &Case{Name: fmt.Sprintf("c02/%s/%s", ctx, l.String()), Prog: prog, Variants: optVariants, NonTrivial: n > 1,
		Shape: c02Shape{Expr: l.String(), Context: ctx, Sub: "structure"}}
	cs.Oracle = func(x *OracleCtx) *Violation {
		v := main(x)
		if v != nil && differs {
			// is the behaviour exactly that of the regrouped expression?
			if av := altOracle(x); av == nil {
				v.Tags = append(v.Tags, "explained_by_and_chain_regrouping")
			}
		}
		return v
	}
	return cs
}

func stripParens(e *Expr) *Expr {
	if e.Kind == EParen {
		return stripParens(e.L)
	}
	if e.Kind == ELeaf {
		return e
	}
	c := *e
	c.L = stripParens(e.L)
	if e.R != nil {
		c.R = stripParens(e.R)
	}
	return &c
}

// leaf forms of sub-check (b)
type leafForm struct {
	name string
	mk   func(at *AtomTable) *Leaf
}

func c02LeafForms() []leafForm {
	var forms []leafForm
	for _, kind := range []string{"flag", "defeated"} {
		kind := kind
		forms = append(forms, leafForm{kind, func(at *AtomTable) *Leaf {
			return &Leaf{Kind: kind, Operand: []Tok{A(at.New(ClsIdent, "op", ""))}}
		}})
		forms = append(forms, leafForm{"!" + kind, func(at *AtomTable) *Leaf {
			return &Leaf{Kind: kind, Operand: []Tok{A(at.New(ClsIdent, "op", ""))}, Not: true}
		}})
		for _, op := range []string{"==", "!="} {
			for _, bv := range []string{"TRUE", "FALSE", "true", "false"} {
				op, bv := op, bv
				forms = append(forms, leafForm{kind + op + bv, func(at *AtomTable) *Leaf {
					return &Leaf{Kind: kind, Operand: []Tok{A(at.New(ClsIdent, "op", ""))}, Op: op, Value: []Tok{L(bv)}}
				}})
			}
		}
	}
	forms = append(forms, leafForm{"var", func(at *AtomTable) *Leaf {
		return &Leaf{Kind: "var", Operand: []Tok{A(at.New(ClsIdent, "op", ""))}}
	}})
	forms = append(forms, leafForm{"!var", func(at *AtomTable) *Leaf {
		return &Leaf{Kind: "var", Operand: []Tok{A(at.New(ClsIdent, "op", ""))}, Not: true}
	}})
	for _, op := range []string{"==", "!=", "<", "<=", ">", ">="} {
		for _, vk := range []string{"num", "ident", "multi", "hexvar", "kwTRUE", "kwFALSE", "kwtrue", "kwfalse"} {
			for _, strict := range []bool{false, true} {
				if strings.HasPrefix(vk, "kw") && (strict || len(op) != 2 || op[1] != '=' || op[0] == '<' || op[0] == '>') {
					// the boolean keywords as a var's comparison value: only == and !=
					continue
				}
				op, vk, strict := op, vk, strict
				nm := fmt.Sprintf("var%s%s", op, vk)
				if strict {
					nm += "-value()"
				}
				forms = append(forms, leafForm{nm, func(at *AtomTable) *Leaf {
					lf := &Leaf{Kind: "var", Operand: []Tok{A(at.New(ClsIdent, "op", ""))}, Op: op, Strict: strict}
					switch vk {
					case "num":
						lf.Value = []Tok{A(at.New(ClsNum, "val", ""))}
					case "ident":
						lf.Value = []Tok{A(at.New(ClsIdent, "val", ""))}
					case "multi":
						lf.Value = []Tok{L("BASE_VALUE"), L("+"), L("1")}
					case "hexvar":
						lf.Value = []Tok{L("0x4001")}
					default:
						lf.Value = []Tok{L(strings.TrimPrefix(vk, "kw"))}
					}
					return lf
				}})
			}
		}
	}
	return forms
}

func c02LeafCase(forms []leafForm, wrap string, ctx string) *Case {
	atoms := &AtomTable{Coded: true}
	sname := atoms.New(ClsIdent, "script", "names")
	yes := atoms.New(ClsPlainCmd, "yes", "cmds")
	no := atoms.New(ClsPlainCmd, "no", "cmds")
	after := atoms.New(ClsPlainCmd, "after", "cmds")
	var es []*Expr
	var names []string
	for _, f := range forms {
		es = append(es, &Expr{Kind: ELeaf, Leaf: f.mk(atoms)})
		names = append(names, f.name)
	}
	var e *Expr
	switch wrap {
	case "plain":
		e = es[0]
	case "negated-group":
		e = &Expr{Kind: ENot, L: es[0]}
	case "and":
		e = &Expr{Kind: EAnd, L: es[0], R: es[1]}
	case "or":
		e = &Expr{Kind: EOr, L: es[0], R: es[1]}
	case "negated-and":
		e = &Expr{Kind: ENot, L: &Expr{Kind: EAnd, L: es[0], R: es[1]}}
	case "negated-or":
		e = &Expr{Kind: ENot, L: &Expr{Kind: EOr, L: es[0], R: es[1]}}
	case "double-negated":
		e = &Expr{Kind: ENot, L: &Expr{Kind: EParen, L: &Expr{Kind: ENot, L: es[0]}}}
	}
	prog := &Program{Atoms: atoms, Tops: []interface{}{&Script{Name: sname, Body: c02Body(ctx, e, yes, no, after)}}}
	return &Case{Name: fmt.Sprintf("c02/leaf/%s/%s/%s", ctx, wrap, strings.Join(names, ",")), Prog: prog, Variants: optVariants, NonTrivial: true,
		Shape:  c02Shape{Expr: wrap + ":" + strings.Join(names, ","), Context: ctx, Sub: "leaf"},
		Oracle: bisimOracle("leaf-meaning", func(x *OracleCtx) []*Script { return scriptsOf(prog) }, nil)}
}

func matchKnownC02(k *KnownFinding, f *Finding) bool {
	var m struct {
		Kind string `json:"kind"`
	}
	json.Unmarshal(k.Match, &m)
	if m.Kind == "and_chain_regrouping" {
		for _, t := range f.Tags {
			if t == "explained_by_and_chain_regrouping" {
				return true
			}
		}
	}
	return false
}

// RunC02 is the check of property C02.
func RunC02(env *Env, rep *Report) {
	// structure families: {leaves, redundant parenthesis pairs, with '!', contexts}
	type fam struct {
		n, extra int
		neg      bool
		ctxs     []string
		flat     int // when > 0: only expressions with this many top-level operands
	}
	two := []string{"if", "while", "elif2a", "elif2b"}
	four := []string{"if", "elif", "while", "dowhile", "elif2a", "elif2b"}
	one := []string{"if"}
	// quick: up to 3 leaves in full; the chains of 4 top-level operands (where
	// finding #1 lived) without '!', also with one operand in redundant
	// parentheses or one operand a two-leaf group
	fams := []fam{{1, 1, true, two, 0}, {2, 1, true, two, 0}, {3, 1, true, one, 0}, {4, 1, false, one, 4}, {5, 0, false, one, 4}}
	maxLeaves := 5
	if env.Tier == "thorough" {
		// 4 leaves with one redundant pair are 1.2 million expressions (about 17
		// CPU hours): the thorough tier takes 4 leaves without redundant pairs
		// and 5 leaves without '!' instead.
		fams = []fam{{1, 1, true, four, 0}, {2, 1, true, four, 0}, {3, 1, true, four, 0}, {4, 0, true, one, 0}, {4, 1, false, one, 0}, {5, 0, false, one, 0}}
		maxLeaves = 5
	}
	if v := envInt("VERIF_C02_LEAVES"); v > 0 {
		fams = append(fams, fam{v, 0, true, one, 0})
		maxLeaves = v
	}
	var cases []*Case
	nStruct := 0
	var famDesc []string
	for _, f := range fams {
		ls := enumLevels(f.n, f.extra, f.neg)
		k := 0
		for _, l := range ls {
			if f.flat > 0 && len(l.operands) != f.flat {
				continue
			}
			for _, ctx := range f.ctxs {
				cases = append(cases, c02StructCase(l, ctx))
				nStruct++
				k++
			}
		}
		d := fmt.Sprintf("%d leaves, <=%d redundant parenthesis pairs, '!' %v, contexts %v: %d cases", f.n, f.extra, f.neg, f.ctxs, k)
		if f.flat > 0 {
			d += fmt.Sprintf(" (only chains of %d top-level operands)", f.flat)
		}
		famDesc = append(famDesc, d)
	}
	forms := c02LeafForms()
	nLeaf := 0
	for _, f := range forms {
		for _, wrap := range []string{"plain", "negated-group", "double-negated"} {
			for _, ctx := range []string{"if", "while"} {
				cases = append(cases, c02LeafCase([]leafForm{f}, wrap, ctx))
				nLeaf++
			}
		}
	}
	// pairs of leaf forms under && / || and negated groups (De Morgan)
	rep2 := []int{0, 1, 3, 20, 21, 22, 30, 47, 60}
	if env.Tier == "thorough" {
		rep2 = nil
		for i := range forms {
			rep2 = append(rep2, i)
		}
	}
	for _, i := range rep2 {
		for _, j := range []int{0, 20, 22 + 8*3} {
			if i >= len(forms) || j >= len(forms) {
				continue
			}
			for _, wrap := range []string{"and", "or", "negated-and", "negated-or"} {
				cases = append(cases, c02LeafCase([]leafForm{forms[i], forms[j]}, wrap, "if"))
				nLeaf++
			}
		}
	}
	rep.Technique = "symbolic execution of the real condition parser and emitter (go/ssa) + SMT-discharged bisimulation against the usual reading of the written expression"
	rep.Explanation = "Bounded symbolic verification, not a proof. (a) structure: every written expression with up to the stated number of flag() leaves - every operator string over {&&,||}, every parenthesisation including redundant pairs, '!' on any leaf or group - is compiled symbolically in if/else (and loop) position; the emitted test chain must be bisimilar to the usual reading (! > && > ||, short-circuit, left to right) for every truth assignment: the assignment is the symbolic epoch state, so all 2^n assignments are one SMT query per outcome pair. (b) leaf meaning: every leaf form (flag/defeated bare, !, ==/!= TRUE/FALSE/true/false; var bare, !, six operators x number / identifier / multi-token / var-range constant, with and without value()) alone, negated, doubly negated and in pairs under && / || and negated groups; var values, comparison constants and 'is this constant in the var-id range' are symbolic, so a swapped compare/compare_var_to_value or a wrong De-Morgan flip has a witness."
	rep.Bounds = map[string]interface{}{"max_leaves": maxLeaves, "structure_families": famDesc, "structure_cases": nStruct, "leaf_cases": nLeaf, "leaf_forms": len(forms)}
	rep.Outside = []string{"expressions with more leaves or more redundant parentheses than the bound", "leaf forms combined in expressions of more than two leaves"}
	rep.Assumptions = []string{"assembly semantics of DESIGN.md §4.1 (compare reads a var when the constant lies in 0x4000-0x40FF / 0x8000-0x8015, compare_var_to_value never does)",
		"operand and command names are identifiers (Int-coded atoms); flag names may alias each other"}
	rep.Functions = []string{"parseBooleanExpression", "parseRightSideExpression", "getNegatedBooleanOperator", "parseLeafBooleanExpression", "parseConditionVarOperator", "parseConditionFlagLikeOperator", "splitBooleanExpressionChunks", "renderBranchComparison", "renderFlagComparison", "renderVarComparison", "renderDefeatedComparison", "parseConditionExpression"}
	rep.Match = matchKnownC02
	if len(cases) > 0 {
		for _, i := range []int{len(cases) / 3, len(cases) - 5} {
			src, _ := cases[i].Prog.Render()
			rep.AddSample(map[string]interface{}{"case": cases[i].Name, "source_with_holes": src})
		}
	}
	runWitness(env, rep, "c02-witness-swapped-operator", func() *Case {
		l := &lvl{ops: []string{"&&"}, operands: []*opnd{{}, {}}}
		cs := c02StructCase(l, "if")
		// twin: read && as ||
		prog := cs.Prog
		cs.Oracle = bisimOracle("witness", func(x *OracleCtx) []*Script {
			s := scriptsOf(prog)[0]
			ifs := s.Body[0].(*If)
			e := *ifs.Conds[0]
			e.Kind = EOr
			tw := &If{Conds: []*Expr{&e}, Bodies: ifs.Bodies, Else: ifs.Else, HasElse: true}
			return []*Script{{Name: s.Name, Body: []Stmt{tw, s.Body[1]}}}
		}, nil)
		return cs
	})
	env.RunJobs(len(cases), rep, func(w *Worker, i int) { w.RunCase(cases[i], rep) })
}
