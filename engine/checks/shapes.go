package checks

// Bounded-exhaustive enumeration of statement-tree shapes.

import "fmt"

// Sh is a statement shape: kind plus nested blocks.
type Sh struct {
	K      string // cmd end return label goto break continue if ifelse ifelif ifelifelse while whileinf dowhile
	Blocks [][]*Sh
	Goto   int // goto: index of the target label (-1: a label not defined in the file)
	ID     int
}

type shapeCfg struct {
	simple     []string // simple kinds without context restrictions
	constructs []string
	maxDepth   int
}

var constructBlocks = map[string]int{"if": 1, "ifelse": 2, "ifelif": 2, "ifelifelse": 3, "while": 1, "whileinf": 1, "dowhile": 1}

// enumBlock enumerates all statement lists with exactly n nodes.
// inLoop/inBreakable give the context; last tells whether the list is the
// tail of its block (continue must be the last statement of a block).
func (cfg *shapeCfg) enumBlock(n, depth int, inLoop, inBreakable bool) [][]*Sh {
	if n == 0 {
		return [][]*Sh{nil}
	}
	var res [][]*Sh
	for k := 1; k <= n; k++ {
		firsts := cfg.enumStmt(k, depth, inLoop, inBreakable, k == n)
		if len(firsts) == 0 {
			continue
		}
		rests := cfg.enumBlock(n-k, depth, inLoop, inBreakable)
		for _, f := range firsts {
			for _, r := range rests {
				res = append(res, append([]*Sh{f}, r...))
			}
		}
	}
	return res
}

func (cfg *shapeCfg) enumStmt(n, depth int, inLoop, inBreakable, isLast bool) []*Sh {
	var res []*Sh
	if n == 1 {
		for _, k := range cfg.simple {
			res = append(res, &Sh{K: k})
		}
		if inBreakable {
			res = append(res, &Sh{K: "break"})
		}
		if inLoop && isLast {
			res = append(res, &Sh{K: "continue"})
		}
	}
	if depth >= cfg.maxDepth {
		return res
	}
	for _, k := range cfg.constructs {
		nb := constructBlocks[k]
		loop := k == "while" || k == "whileinf" || k == "dowhile"
		for _, split := range compositions(n-1, nb) {
			var combos [][][]*Sh
			combos = [][][]*Sh{nil}
			for _, sz := range split {
				blocks := cfg.enumBlock(sz, depth+1, inLoop || loop, inBreakable || loop)
				var next [][][]*Sh
				for _, c := range combos {
					for _, b := range blocks {
						next = append(next, append(append([][]*Sh{}, c...), b))
					}
				}
				combos = next
			}
			for _, c := range combos {
				res = append(res, &Sh{K: k, Blocks: c})
			}
		}
	}
	return res
}

// compositions of n into k non-negative parts
func compositions(n, k int) [][]int {
	if k == 1 {
		return [][]int{{n}}
	}
	var res [][]int
	for i := 0; i <= n; i++ {
		for _, rest := range compositions(n-i, k-1) {
			res = append(res, append([]int{i}, rest...))
		}
	}
	return res
}

func cloneSh(b []*Sh) []*Sh {
	out := make([]*Sh, len(b))
	for i, s := range b {
		c := *s
		c.Blocks = make([][]*Sh, len(s.Blocks))
		for j, bl := range s.Blocks {
			c.Blocks[j] = cloneSh(bl)
		}
		out[i] = &c
	}
	return out
}

func walkSh(b []*Sh, f func(*Sh)) {
	for _, s := range b {
		f(s)
		for _, bl := range s.Blocks {
			walkSh(bl, f)
		}
	}
}

// expandGotos returns one copy of the shape per assignment of goto targets
// (each defined label, or -1 for a label that is not defined in the file).
func expandGotos(b []*Sh) [][]*Sh {
	nl, ng := 0, 0
	walkSh(b, func(s *Sh) {
		if s.K == "label" {
			nl++
		}
		if s.K == "goto" {
			ng++
		}
	})
	if ng == 0 {
		return [][]*Sh{b}
	}
	var res [][]*Sh
	total := 1
	for i := 0; i < ng; i++ {
		total *= nl + 1
	}
	for code := 0; code < total; code++ {
		c := cloneSh(b)
		x := code
		walkSh(c, func(s *Sh) {
			if s.K == "goto" {
				s.Goto = x%(nl+1) - 1
				x /= nl + 1
			}
		})
		res = append(res, c)
	}
	return res
}

// ShString renders a shape compactly (names of cases, known-finding keys).
func ShString(b []*Sh) string {
	s := ""
	for i, x := range b {
		if i > 0 {
			s += " "
		}
		s += x.K
		if x.K == "goto" {
			s += fmt.Sprintf("%d", x.Goto)
		}
		for _, bl := range x.Blocks {
			s += "{" + ShString(bl) + "}"
		}
	}
	return s
}
