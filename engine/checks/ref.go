package checks

// Reference semantics of skeletons (DESIGN.md §4.1), in continuation style.
// It is defined on the skeleton, independently of the parser's AST.

import (
	"fmt"

	"verif/engine/interp"
)

// CmdText is the reference rendering of a command: name, then the arguments
// joined by ", ", each argument's tokens joined by single spaces.
func CmdText(name interp.Value, args [][]Tok) interp.Value {
	parts := []interp.Value{name}
	for i, a := range args {
		if i == 0 {
			parts = append(parts, " ")
		} else {
			parts = append(parts, ", ")
		}
		parts = append(parts, JoinToks(a))
	}
	return interp.Concat(parts...)
}

type refBuilder struct {
	g      *Graph
	labels map[*Atom]*Node // label / script name atom -> node
	gotos  []*pendingGoto
	argOverride func(c *Cmd, i int) (interp.Value, bool) // for hoisted args
	coded bool
	swQuirk bool
	dropAfterBreak bool
}

type pendingGoto struct {
	n      *Node
	target Tok
}

// RefOptions tune the reference builder.
type RefOptions struct {
	// ArgValue, if set, gives the expected rendering of argument i of a
	// command (used when arguments are replaced by hoisted labels).
	ArgValue func(c *Cmd, i int) (interp.Value, bool)
	Coded    bool // operands are Int-coded atoms
	// SwitchQuirk builds the alternative reference that explains known
	// findings C03 #2/#3: trailing body-less cases are dropped (their values
	// count as "no match"), and a switch whose first trailing body-less entry
	// is reached before any non-default case was registered is elided.
	SwitchQuirk bool
	// DropAfterBreak builds the alternative reference that explains known
	// finding #10: statements that follow a break in the same block
	// (labels included) do not exist.
	DropAfterBreak bool
}

// BuildRef builds the reference graph of all scripts of a program. The map
// gives each script's entry node.
func BuildRef(scripts []*Script, opt RefOptions) (*Graph, map[*Script]*Node) {
	b := &refBuilder{g: &Graph{Entries: map[string]*Node{}}, labels: map[*Atom]*Node{}, argOverride: opt.ArgValue, coded: opt.Coded, swQuirk: opt.SwitchQuirk, dropAfterBreak: opt.DropAfterBreak}
	entries := map[*Script]*Node{}
	for _, s := range scripts {
		ret := b.g.add(&Node{Kind: NTerm, Term: "return", Desc: "implicit return"})
		e := b.block(s.Body, ret, nil, nil)
		entry := b.g.add(&Node{Kind: NSilent, Next: e, Desc: "entry"})
		entries[s] = entry
		if s.Name != nil {
			b.labels[s.Name] = entry
		}
	}
	for _, pg := range b.gotos {
		if pg.target.A != nil {
			if n, ok := b.labels[pg.target.A]; ok {
				pg.n.Kind, pg.n.Next = NSilent, n
				continue
			}
		}
		pg.n.Kind, pg.n.Term, pg.n.TVal = NTerm, "out", pg.target.Val()
	}
	return b.g, entries
}

func (b *refBuilder) block(stmts []Stmt, next, brk, cont *Node) *Node {
	if b.dropAfterBreak {
		for i, s := range stmts {
			if _, ok := s.(*Break); ok {
				stmts = stmts[:i+1]
				break
			}
		}
	}
	entry := next
	for i := len(stmts) - 1; i >= 0; i-- {
		entry = b.stmt(stmts[i], entry, brk, cont)
	}
	return entry
}

func litName(t Tok) string {
	if t.A != nil {
		return ""
	}
	return t.Lit
}

func (b *refBuilder) cmdText(s *Cmd) interp.Value {
	if s.NoParen || s.Args == nil {
		return s.Name.Val()
	}
	parts := []interp.Value{s.Name.Val()}
	for i, a := range s.Args {
		if i == 0 {
			parts = append(parts, " ")
		} else {
			parts = append(parts, ", ")
		}
		if b.argOverride != nil {
			if v, ok := b.argOverride(s, i); ok {
				parts = append(parts, v)
				continue
			}
		}
		parts = append(parts, JoinToks(a))
	}
	return interp.Concat(parts...)
}

func (b *refBuilder) stmt(s Stmt, next, brk, cont *Node) *Node {
	switch s := s.(type) {
	case *Cmd:
		switch litName(s.Name) {
		case "end", "return":
			if len(s.Args) == 0 {
				return b.g.add(&Node{Kind: NTerm, Term: s.Name.Lit, Desc: s.Name.Lit})
			}
		case "goto":
			if len(s.Args) == 1 && len(s.Args[0]) == 1 {
				n := b.g.add(&Node{Desc: "goto " + s.Args[0][0].Text()})
				b.gotos = append(b.gotos, &pendingGoto{n, s.Args[0][0]})
				return n
			}
		}
		return b.g.add(&Node{Kind: NEvent, Text: b.cmdText(s), Next: next, Desc: "cmd " + s.Name.Text()})
	case *Label:
		n := b.g.add(&Node{Kind: NSilent, Next: next, Desc: "label " + s.Name.Placeholder()})
		b.labels[s.Name] = n
		return n
	case *Break:
		if brk == nil {
			panic("reference: break outside loop/switch")
		}
		return b.g.add(&Node{Kind: NSilent, Next: brk, Desc: "break"})
	case *Continue:
		if cont == nil {
			panic("reference: continue outside loop")
		}
		return b.g.add(&Node{Kind: NSilent, Next: cont, Desc: "continue"})
	case *If:
		var elseEntry *Node
		if s.HasElse {
			elseEntry = b.block(s.Else, next, brk, cont)
		} else {
			elseEntry = next
		}
		f := elseEntry
		for i := len(s.Conds) - 1; i >= 0; i-- {
			body := b.block(s.Bodies[i], next, brk, cont)
			f = b.cond(s.Conds[i], body, f)
		}
		return f
	case *While:
		head := b.g.add(&Node{Kind: NSilent, Desc: "while head"})
		body := b.block(s.Body, head, next, head)
		if s.Cond == nil {
			head.Next = body
		} else {
			head.Next = b.cond(s.Cond, body, next)
		}
		return head
	case *DoWhile:
		bodyEntry := b.g.add(&Node{Kind: NSilent, Desc: "do body"})
		condEntry := b.cond(s.Cond, bodyEntry, next)
		// README: "continue ... returns to the start of the loop"
		bodyEntry.Next = b.block(s.Body, condEntry, next, bodyEntry)
		return bodyEntry
	case *Switch:
		// bodies: the labels of consecutive body-less entries attach to the
		// next entry with a body; trailing body-less entries select nothing.
		n := len(s.Cases)
		target := make([]*Node, n)
		var nextBody *Node = nil
		for i := n - 1; i >= 0; i-- {
			if len(s.Cases[i].Body) > 0 {
				nextBody = b.block(s.Cases[i].Body, next, next, cont)
			}
			if nextBody != nil {
				target[i] = nextBody
			} else {
				target[i] = next
			}
		}
		dflt := next
		for i, cs := range s.Cases {
			if cs.Default {
				dflt = target[i]
			}
		}
		operand := JoinToks(s.Operand)
		if s.AV != nil {
			operand = s.AV.VarName
		}
		f := dflt
		trailing := n // index of the first trailing body-less entry
		for i := n - 1; i >= 0 && len(s.Cases[i].Body) == 0; i-- {
			trailing = i
		}
		if b.swQuirk && trailing < n {
			nonDefaultBefore := 0
			for i := 0; i < trailing; i++ {
				if !s.Cases[i].Default {
					nonDefaultBefore++
				}
			}
			if nonDefaultBefore == 0 {
				if s.AV != nil {
					return b.g.add(&Node{Kind: NEvent, Text: CmdText(s.AV.Name.Val(), s.AV.Args), Next: next, Desc: "autovar switch (elided)"})
				}
				return next
			}
		}
		for i := n - 1; i >= 0; i-- {
			cs := s.Cases[i]
			if cs.Default {
				continue
			}
			if b.swQuirk && i >= trailing {
				continue
			}
			f = b.g.add(&Node{Kind: NTest, Test: &Test{Kind: TCase, A: operand, B: JoinToks(cs.Value), Coded: b.coded}, T: target[i], F: f, Desc: "case"})
		}
		if s.AV != nil {
			return b.g.add(&Node{Kind: NEvent, Text: CmdText(s.AV.Name.Val(), s.AV.Args), Next: f, Desc: "autovar switch"})
		}
		return f
	case *RawStmt:
		panic("reference semantics of raw statement text is undefined")
	}
	panic(fmt.Sprintf("reference: unknown statement %T", s))
}

func flagLikeTruth(l *Leaf) bool {
	// truth value the flag must have for the leaf to hold
	if l.Not {
		return false
	}
	if l.Op == "" {
		return true
	}
	v := len(l.Value) == 1 && (l.Value[0].Lit == "TRUE" || l.Value[0].Lit == "true")
	if l.Op == "==" {
		return v
	}
	return !v
}

var opNames = map[string]string{"==": "eq", "!=": "ne", "<": "lt", "<=": "le", ">": "gt", ">=": "ge"}

func (b *refBuilder) cond(e *Expr, t, f *Node) *Node {
	switch e.Kind {
	case EAnd:
		return b.cond(e.L, b.cond(e.R, t, f), f)
	case EOr:
		return b.cond(e.L, t, b.cond(e.R, t, f))
	case ENot:
		return b.cond(e.L, f, t)
	case EParen:
		return b.cond(e.L, t, f)
	}
	l := e.Leaf
	switch l.Kind {
	case "flag", "defeated":
		k := TFlag
		if l.Kind == "defeated" {
			k = TTrainer
		}
		n := &Node{Kind: NTest, Test: &Test{Kind: k, A: JoinToks(l.Operand), Coded: b.coded}, Desc: l.Kind}
		if flagLikeTruth(l) {
			n.T, n.F = t, f
		} else {
			n.T, n.F = f, t
		}
		return b.g.add(n)
	case "var", "autovar":
		operand := JoinToks(l.Operand)
		if l.Kind == "autovar" {
			operand = l.AV.VarName
		}
		test := &Test{Kind: TVarCmp, A: operand, Coded: b.coded}
		switch {
		case l.Not:
			test.Op, test.B = "eq", "0" // '!operand' means zero
		case l.Op == "":
			test.Op, test.B = "ne", "0" // bare operand means non-zero
		default:
			test.Op, test.B, test.Strict = opNames[l.Op], JoinToks(l.Value), l.Strict
			if l.Strict && len(l.Value) > 1 {
				// value(a b) is rendered parenthesised by the compiler; the
				// raw value of the token run is the same either way
				test.B = interp.Concat("( ", JoinToks(l.Value), " )")
			}
		}
		n := b.g.add(&Node{Kind: NTest, Test: test, T: t, F: f, Desc: "var"})
		if l.Kind == "autovar" {
			return b.g.add(&Node{Kind: NEvent, Text: CmdText(l.AV.Name.Val(), l.AV.Args), Next: n, Desc: "autovar"})
		}
		return n
	}
	panic("reference: leaf kind " + l.Kind)
}
