package checks

import (
	"fmt"
	"strings"

	"verif/engine/interp"
)

type c09Shape struct {
	Origin string `json:"origin"`
	Type   string `json:"type"`
	Lines  int    `json:"lines"`
}

var c09Suffix = map[string]string{"": "$", "ascii": "\\0", "braille": "$"}

// c09Expect computes the expected directive lines of a text with the given
// type value (a literal or an atom) and source lines.
func c09Expect(x *OracleCtx, typ interp.Value, lines []interp.Value) []interp.Value {
	return c09Expect2(x, typ, lines, false)
}

// c09Expect2 with dropDirective computes the output of known finding #5: the
// terminator of the type, but the default directive.
func c09Expect2(x *OracleCtx, typ interp.Value, lines []interp.Value, dropDirective bool) []interp.Value {
	directive := interp.Value("string")
	suffix, known := "", false
	switch t := typ.(type) {
	case string:
		if t != "" {
			directive = t
		}
		suffix, known = c09Suffix[t]
	default:
		directive = typ
		// a custom type atom: is it one of the types with a terminator?
		for _, k := range []string{"ascii", "braille"} {
			if decideSame(x.C, typ, k) {
				suffix, known = c09Suffix[k], true
				break
			}
		}
	}
	full := lines[0]
	for _, l := range lines[1:] {
		full = cat(full, "\n", l)
	}
	out := append([]interp.Value{}, lines...)
	if known {
		has := hasSuffixValue(full, suffix)
		if !x.C.DecideValue(has) {
			out[len(out)-1] = cat(out[len(out)-1], suffix)
		}
	}
	if dropDirective {
		directive = "string"
	}
	var res []interp.Value
	for _, l := range out {
		res = append(res, cat("\t.", directive, " \"", l, "\""))
	}
	return res
}

func hasSuffixValue(s interp.Value, suffix string) interp.Value {
	if ss, ok := s.(string); ok {
		return len(ss) >= len(suffix) && ss[len(ss)-len(suffix):] == suffix
	}
	ps := interp.Parts(s)
	if n := len(ps); n > 0 && ps[n-1].Kind == interp.PLit && len(ps[n-1].Lit) >= len(suffix) {
		l := ps[n-1].Lit
		return l[len(l)-len(suffix):] == suffix
	}
	return interp.SymBool{T: fmt.Sprintf("(str.suffixof %s %s)", interp.StrLit(suffix), interp.StrTerm(s))}
}

// sectionAfterLabel returns the lines that follow the definition of label
// name up to the next label / blank line.
func sectionAfterLabel(x *OracleCtx, out interp.Value, name interp.Value) ([]interp.Value, int) {
	lines := outputLines(out, false)
	count := 0
	var sec []interp.Value
	for i := 0; i < len(lines); i++ {
		al := ParseAsm(lines[i])[0]
		if al.Kind == "label" && sameValue(x.C, al.Name, name) == 1 {
			count++
			if count == 1 {
				for j := i + 1; j < len(lines); j++ {
					a2 := ParseAsm(lines[j])[0]
					if a2.Kind == "label" || a2.Kind == "blank" {
						break
					}
					sec = append(sec, lines[j])
				}
			}
		}
	}
	return sec, count
}

// c09EmptyMiddle: three-line texts whose middle source line is the empty
// literal "" (it still is one directive).
var c09EmptyMiddle bool

func c09Case(origin, typ string, nlines int, prefixKnown string) *Case {
	emptyMiddle := c09EmptyMiddle && nlines == 3
	atoms := &AtomTable{Coded: true}
	var lits []*StrLit
	var lineVals []func() interp.Value
	var typTok *Tok
	var typAtom *Atom
	switch typ {
	case "":
	case "custom":
		typAtom = atoms.New(ClsIdent, "strtype", "")
		t := A(typAtom)
		typTok = &t
	default:
		t := L(typ)
		typTok = &t
	}
	for i := 0; i < nlines; i++ {
		a := atoms.New(ClsLine, fmt.Sprintf("line%d", i), "")
		a.NonEmpty = i < nlines-1
		sl := &StrLit{Parts: []Tok{A(a)}}
		if emptyMiddle && i == 1 {
			sl = &StrLit{}
		}
		if prefixKnown != "" && i == nlines-1 {
			// last line written with the terminator already in place
			sl.Parts = append(sl.Parts, L(prefixKnown))
		}
		if i == 0 {
			sl.Type = typTok
		}
		lits = append(lits, sl)
		s := sl
		lineVals = append(lineVals, func() interp.Value { return s.Content() })
	}
	typeVal := func() interp.Value {
		if typAtom != nil {
			return typAtom.Val
		}
		return typ
	}
	var prog *Program
	var label func() interp.Value
	var swKeys, swVals []Tok
	switch origin {
	case "text":
		name := atoms.New(ClsUserName, "text", "names")
		prog = &Program{Atoms: atoms, Tops: []interface{}{&TextTop{Name: name, Lits: lits}}}
		label = func() interp.Value { return name.Val }
	case "inline":
		sname := atoms.New(ClsUserName, "script", "names")
		cmd := atoms.New(ClsPlainCmd, "cmd", "")
		txt := ""
		for i, l := range lits {
			if i > 0 {
				txt += " "
			}
			txt += l.text()
		}
		prog = &Program{Atoms: atoms, Tops: []interface{}{&Script{Name: sname, Body: []Stmt{&RawStmt{Text: cmd.Placeholder() + "(" + txt + ")"}}}}}
		label = func() interp.Value { return cat(sname.Val, "_Text_0") }
	case "poryswitch-selected", "poryswitch-fallback":
		name := atoms.New(ClsUserName, "text", "names")
		key := atoms.New(ClsIdent, "swkey", "")
		val := atoms.New(ClsIdent, "swval", "swvals", "_")
		other := atoms.New(ClsIdent, "swother", "swvals", "_")
		txt := ""
		for i, l := range lits {
			if i > 0 {
				txt += " "
			}
			txt += l.text()
		}
		caseLabel := val.Placeholder()
		if origin == "poryswitch-fallback" {
			caseLabel = "_"
		}
		body := fmt.Sprintf("text %s {\n  poryswitch(%s) {\n    %s: \"unrelated$\"\n    %s: %s\n  }\n}", name.Placeholder(), key.Placeholder(), other.Placeholder(), caseLabel, txt)
		if origin == "poryswitch-selected" {
			// a typed default next to the selected case must not influence it
			body = fmt.Sprintf("text %s {\n  poryswitch(%s) {\n    %s: braille\"unrelated$\"\n    %s: %s\n    _: ascii\"fallback\"\n  }\n}", name.Placeholder(), key.Placeholder(), other.Placeholder(), caseLabel, txt)
		}
		prog = &Program{Atoms: atoms, Tops: []interface{}{&TopRaw{Text: body}}}
		label = func() interp.Value { return name.Val }
		swKeys, swVals = []Tok{A(key)}, []Tok{A(val)}
	}
	variants := []Variant{{Name: "opt", Opt: CompileOpts{Optimize: true, SwKeys: swKeys, SwVals: swVals}}}
	nm := fmt.Sprintf("c09/%s/type=%s/lines=%d/pre=%q", origin, typ, nlines, prefixKnown)
	if emptyMiddle {
		nm += "/empty-middle-line"
	}
	cs := &Case{Name: nm, Prog: prog, Variants: variants, NonTrivial: true,
		Shape: c09Shape{Origin: origin, Type: typ, Lines: nlines}, MaxPaths: 64}
	cs.Oracle = func(x *OracleCtx) *Violation {
		res := x.Res["opt"]
		if res.Err.Panic != "" {
			return &Violation{Sub: "panic", Msg: res.Err.Panic}
		}
		if res.Err.IsErr {
			return &Violation{Sub: "accept", Msg: "a well-formed text was rejected: " + interp.ToString(res.Err.Msg)}
		}
		var lines []interp.Value
		for _, f := range lineVals {
			lines = append(lines, f())
		}
		want := c09Expect(x, typeVal(), lines)
		got, n := sectionAfterLabel(x, res.Out, label())
		if n != 1 {
			return &Violation{Sub: "label", Msg: fmt.Sprintf("the text's label %s is defined %d times", interp.ToString(label()), n)}
		}
		v := expectLines(x, "text", "text body", got, want)
		if v != nil && origin == "poryswitch-fallback" && typ != "" {
			// does the output look exactly like the same text without its type?
			alt := c09Expect2(x, typeVal(), lines, true)
			if expectLines(x, "text", "text body", got, alt) == nil {
				v.Tags = append(v.Tags, "fallback_case_type_dropped")
			}
		}
		return v
	}
	return cs
}

// c09FormatLintCase: a typed literal inside format() - as the body of a text
// statement, of a text-poryswitch case, and as a command argument - compiled
// in lint mode (no font configuration exists, the formatter's result is not
// looked at): the data still gets the type's directive and terminator. Lint
// mode has no switch values, so in the poryswitch origins the format() is the
// content of the '_' case.
func c09FormatLintCase(origin, typ string) *Case {
	atoms := &AtomTable{Coded: true}
	name := atoms.New(ClsUserName, "name", "names")
	lit := typ + "\"Hello there\""
	var src string
	label := func() interp.Value { return name.Val }
	var swKeys, swVals []Tok
	switch origin {
	case "text":
		src = fmt.Sprintf("text %s {\n  format(%s)\n}", name.Placeholder(), lit)
	case "poryswitch":
		key := atoms.New(ClsIdent, "swkey", "")
		val := atoms.New(ClsIdent, "swval", "", "_")
		src = fmt.Sprintf("text %s {\n  poryswitch(%s) {\n    %s: \"other$\"\n    _: format(%s)\n  }\n}", name.Placeholder(), key.Placeholder(), val.Placeholder(), lit)
		swKeys, swVals = []Tok{A(key)}, []Tok{A(val)}
	case "poryswitch-brace":
		key := atoms.New(ClsIdent, "swkey", "")
		val := atoms.New(ClsIdent, "swval", "", "_")
		src = fmt.Sprintf("text %s {\n  poryswitch(%s) {\n    %s: braille\"other$\"\n    _ {\n format(%s)\n }\n  }\n}", name.Placeholder(), key.Placeholder(), val.Placeholder(), lit)
		swKeys, swVals = []Tok{A(key)}, []Tok{A(val)}
	case "inline":
		cmd := atoms.New(ClsPlainCmd, "cmd", "")
		src = fmt.Sprintf("script %s {\n  %s(format(%s))\n}", name.Placeholder(), cmd.Placeholder(), lit)
		label = func() interp.Value { return cat(name.Val, "_Text_0") }
	}
	prog := &Program{Atoms: atoms, Tops: []interface{}{&TopRaw{Text: src}}}
	cs := &Case{Name: fmt.Sprintf("c09/format-in-lint-mode/%s/type=%s", origin, typ), Prog: prog, NonTrivial: true,
		Variants: []Variant{{Name: "opt", Opt: CompileOpts{Optimize: true, SwKeys: swKeys, SwVals: swVals, Lint: true}}},
		Shape:    c09Shape{Origin: "format:" + origin, Type: typ, Lines: 1}, MaxPaths: 16}
	cs.Oracle = func(x *OracleCtx) *Violation {
		res := x.Res["opt"]
		if res.Err.Panic != "" {
			return &Violation{Sub: "panic", Msg: res.Err.Panic}
		}
		if res.Err.IsErr {
			return &Violation{Sub: "accept", Msg: "lint mode rejected a format() text: " + interp.ToString(res.Err.Msg)}
		}
		got, n := sectionAfterLabel(x, res.Out, label())
		if n != 1 || len(got) == 0 {
			return &Violation{Sub: "label", Msg: fmt.Sprintf("the text's label %s is defined %d times (%d data lines)", interp.ToString(label()), n, len(got))}
		}
		directive := "string"
		if typ != "" {
			directive = typ
		}
		for _, l := range got {
			if _, ok := trimPrefixLit(l, "\t."+directive+" \""); !ok {
				return &Violation{Sub: "text", Msg: "data line " + interp.ToString(l) + " does not use the directive ." + directive}
			}
		}
		if suf, ok := c09Suffix[typ]; ok {
			if _, ok := trimSuffixLit(got[len(got)-1], suf+"\""); !ok {
				return &Violation{Sub: "text", Msg: "last data line " + interp.ToString(got[len(got)-1]) + " does not end in the terminator of its type"}
			}
		}
		return nil
	}
	return cs
}

// c09UnicodeIndentCase: a string literal that continues on the next
// physical line, the continuation starting (after ASCII indentation) with a
// non-ASCII Unicode space: only the ASCII indentation is layout, the
// Unicode space is part of the text.
func c09UnicodeIndentCase(sp string, origin string) *Case {
	atoms := &AtomTable{Coded: true}
	name := atoms.New(ClsUserName, "name", "names")
	lit := "\"abc\n    " + sp + "def$\""
	src := fmt.Sprintf("text %s {\n  %s\n}", name.Placeholder(), lit)
	label := func() interp.Value { return name.Val }
	if origin == "inline" {
		cmd := atoms.New(ClsPlainCmd, "cmd", "")
		src = fmt.Sprintf("script %s {\n  %s(%s)\n}", name.Placeholder(), cmd.Placeholder(), lit)
		label = func() interp.Value { return cat(name.Val, "_Text_0") }
	}
	prog := &Program{Atoms: atoms, Tops: []interface{}{&TopRaw{Text: src}}}
	cs := &Case{Name: fmt.Sprintf("c09/unicode-space-starts-continuation-line/%s/U+%04X", origin, []rune(sp)[0]), Prog: prog, NonTrivial: true,
		Variants: optVariants[:1], Shape: c09Shape{Origin: "continuation:" + origin, Lines: 2}, MaxPaths: 16}
	cs.Oracle = func(x *OracleCtx) *Violation {
		res := x.Res["opt"]
		if res.Err.IsErr || res.Err.Panic != "" {
			return &Violation{Sub: "accept", Msg: "a well-formed text was rejected: " + interp.ToString(res.Err.Msg) + res.Err.Panic}
		}
		got, n := sectionAfterLabel(x, res.Out, label())
		if n != 1 {
			return &Violation{Sub: "label", Msg: fmt.Sprintf("the text's label is defined %d times", n)}
		}
		all := ""
		for _, l := range got {
			ls, ok := l.(string)
			if !ok {
				return &Violation{Sub: "text", Msg: "data line is not concrete: " + interp.ToString(l)}
			}
			all += ls + "\n"
		}
		if !strings.Contains(all, sp+"def$") || !strings.Contains(all, "abc") {
			return &Violation{Sub: "text", Msg: fmt.Sprintf("the emitted text %q lost a character of the source (expected abc ... %sdef$)", all, sp)}
		}
		return nil
	}
	return cs
}

func matchKnownC09(k *KnownFinding, f *Finding) bool {
	if kindOf(k) == "poryswitch_fallback_type_dropped" {
		var sh c09Shape
		if shapeOfFinding(f, &sh) && sh.Origin == "poryswitch-fallback" && sh.Type != "" {
			for _, t := range f.Tags {
				if t == "fallback_case_type_dropped" {
					return true
				}
			}
		}
	}
	return false
}

// RunC09 is the check of property C09.
func RunC09(env *Env, rep *Report) {
	maxLines := 2
	if env.Tier == "thorough" {
		maxLines = 3
	}
	var cases []*Case
	for _, origin := range []string{"text", "inline", "poryswitch-selected", "poryswitch-fallback"} {
		for _, typ := range []string{"", "ascii", "braille", "custom"} {
			for n := 1; n <= maxLines; n++ {
				if origin != "text" && n > 2 {
					continue
				}
				cases = append(cases, c09Case(origin, typ, n, ""))
			}
			if suf, ok := c09Suffix[typ]; ok && (origin == "text" || origin == "inline") {
				cases = append(cases, c09Case(origin, typ, 1, suf))
			}
		}
	}
	// type prefixes that differ from ascii / braille only in letter case are
	// other types: no terminator, the directive as spelled
	for _, origin := range []string{"text", "inline"} {
		for _, typ := range []string{"ASCII", "Ascii", "Braille", "BRAILLE"} {
			cases = append(cases, c09Case(origin, typ, 1, ""), c09Case(origin, typ, 2, ""))
		}
	}
	for _, origin := range []string{"text", "poryswitch", "poryswitch-brace", "inline"} {
		for _, typ := range []string{"", "ascii", "braille", "custom"} {
			cases = append(cases, c09FormatLintCase(origin, typ))
		}
	}
	for _, sp := range []string{"\u3000", "\u00a0", "\u2003", "\u0085"} {
		cases = append(cases, c09UnicodeIndentCase(sp, "text"), c09UnicodeIndentCase(sp, "inline"))
	}
	cases = append(cases, c09TwoArgsCase("ascii", ""), c09TwoArgsCase("", "braille"), c09TwoArgsCase("custom", ""), c09TwoArgsCase("braille", "ascii"))
	for _, first := range []bool{true, false} {
		cases = append(cases, c09StatementAndInlineCase("braille", "", first), c09StatementAndInlineCase("", "braille", first), c09StatementAndInlineCase("", "", first), c09StatementAndInlineCase("ascii", "", first))
	}
	c09EmptyMiddle = true
	for _, origin := range []string{"text", "inline"} {
		for _, typ := range []string{"", "ascii"} {
			cases = append(cases, c09Case(origin, typ, 3, ""))
		}
	}
	c09EmptyMiddle = false
	cases = append(cases, c09CRLFCase())
	cases = append(cases, c09PairCase("", "braille"), c09PairCase("braille", ""), c09PairCase("", "custom"), c09PairCase("ascii", "custom"))
	rep.Technique = "symbolic execution of the real text parsing, terminator logic and text emission (go/ssa) with symbolic string contents; 'already terminated' decided by the SMT string theory (z3 seq)"
	rep.Explanation = "Bounded symbolic verification, not a proof. Texts of up to the stated number of source lines (adjacent string literals), each line an arbitrary printable-ASCII string without a double quote (an SMT String variable), with no type prefix, ascii, braille and a symbolic custom type, coming from a text statement, an inline command argument and a poryswitch text case (selected and '_' fallback), are compiled by symbolic execution of the real code. strings.HasSuffix on the symbolic content is a solver-decided fork, so both 'already ends with the terminator' and 'does not' are covered for all contents. Asserted per path: the label is defined once; one directive per source line in order; directive = the type or 'string'; the lines are the source lines with exactly the terminator the type calls for appended to the last one unless the text already ends with it."
	rep.Bounds = map[string]interface{}{"max_source_lines": maxLines, "types": []string{"(none)", "ascii", "braille", "custom (symbolic identifier)"}, "origins": []string{"text statement", "inline argument", "poryswitch text case selected", "poryswitch '_' fallback"}, "cases": len(cases)}
	rep.Outside = []string{"contents with non-ASCII characters or raw newlines inside one literal (covered concretely by C19/C18 lexer checks, not here)", "format() origin (C07)", "more source lines"}
	rep.Assumptions = []string{"string contents are printable ASCII without '\"' (what one string literal token can hold on one line)", "names are generic identifiers (Int-coded)"}
	rep.Functions = []string{"parseTextStatement", "parseTextValue", "formatTextTerminator", "emitText", "parsePoryswitchTextStatement", "parsePoryswitchTextCases", "parseCommandStatement", "addImplicitTexts"}
	rep.Match = matchKnownC09
	src, _ := cases[1].Prog.Render()
	rep.AddSample(map[string]interface{}{"case": cases[1].Name, "source_with_holes": src})
	runWitness(env, rep, "c09-witness-always-append", func() *Case {
		cs := c09Case("text", "", 1, "")
		prog := cs.Prog
		cs.Oracle = func(x *OracleCtx) *Violation {
			// twin: expect the terminator to be appended unconditionally
			t := prog.Tops[0].(*TextTop)
			want := []interp.Value{cat("\t.string \"", t.Lits[0].Content(), "$\"")}
			got, _ := sectionAfterLabel(x, x.Res["opt"].Out, t.Name.Val)
			return expectLines(x, "witness", "text", got, want)
		}
		return cs
	})
	env.RunJobs(len(cases), rep, func(w *Worker, i int) { w.RunCase(cases[i], rep) })
}

func kindOf(k *KnownFinding) string {
	var m struct {
		Kind string `json:"kind"`
	}
	jsonUnmarshal(k.Match, &m)
	return m.Kind
}

// c09PairCase: two inline texts with the SAME symbolic content and different
// type prefixes: each must be emitted under its own label with its own
// directive and terminator.
func c09PairCase(t1, t2 string) *Case {
	atoms := &AtomTable{Coded: true}
	sname := atoms.New(ClsUserName, "script", "names")
	c1 := atoms.New(ClsPlainCmd, "cmd", "cmds")
	c2 := atoms.New(ClsPlainCmd, "cmd", "cmds")
	content := atoms.New(ClsLine, "txt", "")
	var custom *Atom
	spell := func(t string) (string, func() interp.Value) {
		if t == "custom" {
			if custom == nil {
				custom = atoms.New(ClsIdent, "strtype", "", "ascii", "braille")
			}
			return custom.Placeholder(), func() interp.Value { return custom.Val }
		}
		return t, func() interp.Value { return t }
	}
	s1, v1 := spell(t1)
	s2, v2 := spell(t2)
	src := fmt.Sprintf("script %s {\n  %s(%s\"%s\")\n  %s(%s\"%s\")\n}", sname.Placeholder(), c1.Placeholder(), s1, content.Placeholder(), c2.Placeholder(), s2, content.Placeholder())
	prog := &Program{Atoms: atoms, Tops: []interface{}{&TopRaw{Text: src}}}
	cs := &Case{Name: fmt.Sprintf("c09/inline-pair/%s/%s", t1, t2), Prog: prog, Variants: optVariants[:1], NonTrivial: true, Shape: c09Shape{Origin: "inline-pair", Type: t1 + "+" + t2, Lines: 1}, MaxPaths: 64}
	cs.Oracle = func(x *OracleCtx) *Violation {
		res := x.Res["opt"]
		if res.Err.IsErr || res.Err.Panic != "" {
			return &Violation{Sub: "accept", Msg: "rejected: " + interp.ToString(res.Err.Msg) + res.Err.Panic}
		}
		lines := nonBlank(outputLines(res.Out, false))
		// the two command lines name the labels
		var lbls []interp.Value
		for _, c := range []*Atom{c1, c2} {
			for _, l := range lines {
				if rest, ok := trimPrefixLit(l, "\t"); ok {
					if a, b, ok := splitFirst(rest, " "); ok && sameValue(x.C, a, c.Val) == 1 {
						lbls = append(lbls, b)
					}
				}
			}
		}
		if len(lbls) != 2 {
			return &Violation{Sub: "text", Msg: "the two commands do not both carry a label"}
		}
		for i, tv := range []func() interp.Value{v1, v2} {
			want := c09Expect(x, tv(), []interp.Value{content.Val})
			got, n := sectionAfterLabel(x, res.Out, lbls[i])
			if n != 1 {
				return &Violation{Sub: "label", Msg: fmt.Sprintf("label %s of text %d is defined %d times", interp.ToString(lbls[i]), i+1, n)}
			}
			if v := expectLines(x, "text", fmt.Sprintf("text %d (type %q)", i+1, []string{t1, t2}[i]), got, want); v != nil {
				return v
			}
		}
		return nil
	}
	return cs
}

// c09StatementAndInlineCase: a text statement and an inline text with the same
// content and the types t1 (statement) / t2 (inline); the statement comes
// first or last. Each label must carry its own type's directive and
// terminator.
func c09StatementAndInlineCase(t1, t2 string, statementFirst bool) *Case {
	atoms := &AtomTable{Coded: true}
	sname := atoms.New(ClsUserName, "script", "names")
	tname := atoms.New(ClsUserName, "text", "names")
	c2 := atoms.New(ClsPlainCmd, "cmd", "cmds")
	content := atoms.New(ClsLine, "txt", "")
	stmt := fmt.Sprintf("text %s {\n  %s\"%s\"\n}", tname.Placeholder(), t1, content.Placeholder())
	scr := fmt.Sprintf("script %s {\n  %s(%s\"%s\")\n}", sname.Placeholder(), c2.Placeholder(), t2, content.Placeholder())
	src := scr + "\n" + stmt
	if statementFirst {
		src = stmt + "\n" + scr
	}
	prog := &Program{Atoms: atoms, Tops: []interface{}{&TopRaw{Text: src}}}
	cs := &Case{Name: fmt.Sprintf("c09/statement-and-inline/%s/%s/statementFirst=%v", t1, t2, statementFirst), Prog: prog, Variants: optVariants, NonTrivial: true,
		Shape: c09Shape{Origin: "statement-and-inline", Type: t1 + "+" + t2, Lines: 1}, MaxPaths: 64}
	cs.Oracle = func(x *OracleCtx) *Violation {
		for _, v := range x.Case.Variants {
			res := x.Res[v.Name]
			if res.Err.IsErr || res.Err.Panic != "" {
				return &Violation{Sub: "accept", Msg: "rejected: " + interp.ToString(res.Err.Msg) + res.Err.Panic}
			}
			var inlineLbl interp.Value
			for _, l := range nonBlank(outputLines(res.Out, false)) {
				if rest, ok := trimPrefixLit(l, "\t"); ok {
					if a, b, ok := splitFirst(rest, " "); ok && sameValue(x.C, a, c2.Val) == 1 {
						inlineLbl = b
					}
				}
			}
			if inlineLbl == nil {
				return &Violation{Sub: "text", Msg: "the command does not carry a label"}
			}
			for i, lbl := range []interp.Value{tname.Val, inlineLbl} {
				typ := []string{t1, t2}[i]
				want := c09Expect(x, typ, []interp.Value{content.Val})
				got, n := sectionAfterLabel(x, res.Out, lbl)
				if n != 1 {
					return &Violation{Sub: "label", Msg: fmt.Sprintf("variant %s: label %s is defined %d times", v.Name, interp.ToString(lbl), n)}
				}
				what := "text statement"
				if i == 1 {
					what = "inline text"
				}
				if vv := expectLines(x, "text", fmt.Sprintf("variant %s: %s (type %q) under %s", v.Name, what, typ, interp.ToString(lbl)), got, want); vv != nil {
					return vv
				}
			}
		}
		return nil
	}
	return cs
}

// c09CRLFCase: literals that wrap onto the next source line inside their
// quotes, in a file with CRLF line ends: the emitted text must be that of the
// LF file (the names are symbolic, the contents concrete).
func c09CRLFCase() *Case {
	atoms := &AtomTable{Coded: true}
	tname := atoms.New(ClsUserName, "text", "names")
	sname := atoms.New(ClsUserName, "script", "names")
	cmd := atoms.New(ClsPlainCmd, "cmd", "cmds")
	lf := "text " + tname.Placeholder() + " {\n  \"first part\n     second part\"\n  \"third\n part$\"\n}\nscript " + sname.Placeholder() + " {\n  " + cmd.Placeholder() + "(\"wrapped\n      inline\", ascii\"x\n y\")\n}"
	prog := &Program{Atoms: atoms, Tops: []interface{}{&TopRaw{Text: lf}}}
	crlf := &Program{Atoms: atoms, Tops: []interface{}{&TopRaw{Text: strings.ReplaceAll(lf, "\n", "\r\n")}}}
	cs := &Case{Name: "c09/crlf-wrapped-literals", Prog: prog, Variants: []Variant{{Name: "lf", Opt: CompileOpts{Optimize: true}}, {Name: "crlf", Opt: CompileOpts{Optimize: true}, Prog: crlf}},
		NonTrivial: true, Shape: c09Shape{Origin: "crlf-wrapped-literals", Lines: 2}, MaxPaths: 16}
	cs.Oracle = func(x *OracleCtx) *Violation {
		a, b := x.Res["lf"], x.Res["crlf"]
		if a.Err.IsErr || b.Err.IsErr || a.Err.Panic != "" || b.Err.Panic != "" {
			return &Violation{Sub: "accept", Msg: "rejected: " + interp.ToString(a.Err.Msg) + interp.ToString(b.Err.Msg) + a.Err.Panic + b.Err.Panic}
		}
		return expectLines(x, "text", "output of the file with CRLF line ends vs with LF line ends", outputLines(b.Out, false), outputLines(a.Out, false))
	}
	return cs
}

// c09TwoArgsCase: cmd(t1"a", t2"b") - two inline texts in ONE command, each
// with its own type.
func c09TwoArgsCase(t1, t2 string) *Case {
	atoms := &AtomTable{Coded: true}
	sname := atoms.New(ClsUserName, "script", "names")
	c1 := atoms.New(ClsPlainCmd, "cmd", "cmds")
	a, b := atoms.New(ClsLine, "txt", ""), atoms.New(ClsLine, "txt", "")
	var custom *Atom
	spell := func(t string) (string, func() interp.Value) {
		if t == "custom" {
			if custom == nil {
				custom = atoms.New(ClsIdent, "strtype", "", "ascii", "braille")
			}
			return custom.Placeholder(), func() interp.Value { return custom.Val }
		}
		return t, func() interp.Value { return t }
	}
	s1, v1 := spell(t1)
	s2, v2 := spell(t2)
	src := fmt.Sprintf("script %s {\n  %s(%s\"%s\", %s\"%s\")\n}", sname.Placeholder(), c1.Placeholder(), s1, a.Placeholder(), s2, b.Placeholder())
	prog := &Program{Atoms: atoms, Tops: []interface{}{&TopRaw{Text: src}}}
	cs := &Case{Name: fmt.Sprintf("c09/two-args/%s/%s", t1, t2), Prog: prog, Variants: optVariants[:1], NonTrivial: true, Shape: c09Shape{Origin: "two-args", Type: t1 + "+" + t2, Lines: 1}, MaxPaths: 128}
	cs.Oracle = func(x *OracleCtx) *Violation {
		res := x.Res["opt"]
		if res.Err.IsErr || res.Err.Panic != "" {
			return &Violation{Sub: "accept", Msg: "rejected: " + interp.ToString(res.Err.Msg) + res.Err.Panic}
		}
		// the command line: "\tcmd L1, L2"
		var l1, l2 interp.Value
		for _, l := range nonBlank(outputLines(res.Out, false)) {
			if rest, ok := trimPrefixLit(l, "\t"); ok {
				if nm, args, ok := splitFirst(rest, " "); ok && sameValue(x.C, nm, c1.Val) == 1 {
					if p, q, ok := splitFirst(args, ", "); ok {
						l1, l2 = p, q
					}
				}
			}
		}
		if l1 == nil {
			return &Violation{Sub: "text", Msg: "the command does not carry two label arguments"}
		}
		for i, it := range []struct {
			lbl  interp.Value
			typ  func() interp.Value
			text *Atom
		}{{l1, v1, a}, {l2, v2, b}} {
			got, n := sectionAfterLabel(x, res.Out, it.lbl)
			if n != 1 {
				// both texts may legitimately share one label when content and type coincide
				if !(n == 1 || sameValue(x.C, l1, l2) == 1) {
					return &Violation{Sub: "label", Msg: fmt.Sprintf("label of argument %d is defined %d times", i+1, n)}
				}
			}
			want := c09Expect(x, it.typ(), []interp.Value{it.text.Val})
			if v := expectLines(x, "text", fmt.Sprintf("argument %d (type %q)", i+1, []string{t1, t2}[i]), got, want); v != nil {
				return v
			}
		}
		return nil
	}
	return cs
}
