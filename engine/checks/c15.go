package checks

import (
	"fmt"
	"strings"

	"verif/engine/interp"
)

type c15Shape struct {
	Scopes map[string]string `json:"scopes"`
}

// expected label: name and whether it must be exported
type expLabel struct {
	what   string
	name   interp.Value
	global bool
}

func c15Case(scopes map[string]string) *Case {
	atoms := &AtomTable{Coded: true}
	sname := atoms.New(ClsUserName, "script", "names")
	tname := atoms.New(ClsUserName, "text", "names")
	mname := atoms.New(ClsUserName, "movement", "names")
	martname := atoms.New(ClsUserName, "mart", "names")
	msname := atoms.New(ClsUserName, "mapscripts", "names")
	lblNone := atoms.New(ClsUserName, "lbl", "names")
	lblGlobal := atoms.New(ClsUserName, "lblg", "names")
	lblLocal := atoms.New(ClsUserName, "lbll", "names")
	cmd := func() *Cmd { return &Cmd{Name: A(atoms.New(ClsPlainCmd, "cmd", ""))} }
	flag := func() *Expr { return LeafFlag(atoms.New(ClsIdent, "flag", "")) }
	typeInline := atoms.New(ClsIdent, "mstype", "mstypes")
	typeTable := atoms.New(ClsIdent, "mstype", "mstypes")
	typePlain := atoms.New(ClsIdent, "mstype", "mstypes")
	plainTarget := atoms.New(ClsIdent, "target", "")
	rowTarget := atoms.New(ClsIdent, "target", "")
	textCmd := atoms.New(ClsPlainCmd, "cmd", "")
	moveCmd := atoms.New(ClsPlainCmd, "cmd", "")
	lblA := atoms.New(ClsUserName, "lblA", "names")
	lblB := atoms.New(ClsUserName, "lblBg", "names")
	lblC := atoms.New(ClsUserName, "lblC", "names")
	lblD := atoms.New(ClsUserName, "lblDl", "names")
	lblE := atoms.New(ClsUserName, "lblEg", "names")
	lblF := atoms.New(ClsUserName, "lblF", "names")
	body := []Stmt{
		// one straight-line stretch mixing all three label forms
		&Label{Name: lblA}, cmd(), &Label{Name: lblB, Scope: "global"}, cmd(), &Label{Name: lblC}, &Label{Name: lblD, Scope: "local"},
		&Label{Name: lblE, Scope: "global"}, &Label{Name: lblF}, cmd(),
		&Label{Name: lblNone},
		&If{Conds: []*Expr{flag()}, Bodies: [][]Stmt{{cmd(), &Label{Name: lblGlobal, Scope: "global"}}}, Else: []Stmt{cmd()}, HasElse: true},
		&RawStmt{Text: textCmd.Placeholder() + "(\"Hello$\")"},
		&RawStmt{Text: moveCmd.Placeholder() + "(moves(walk_up))"},
		&While{Cond: flag(), Body: []Stmt{cmd(), &Label{Name: lblLocal, Scope: "local"}, cmd()}},
		cmd(),
	}
	script := &Script{Name: sname, Scope: scopes["script"], Body: body}
	ename := atoms.New(ClsUserName, "emptyscript", "names")
	emptyScript := &Script{Name: ename, Scope: scopes["script"]} // no statements at all
	typeInlineEmpty := atoms.New(ClsIdent, "mstype", "mstypes")
	text := &TextTop{Name: tname, Scope: scopes["text"], Lits: []*StrLit{{Parts: []Tok{L("abc")}}}}
	// a text statement with exactly the content of the script's inline text,
	// and a movement statement with exactly the steps of its moves()
	t2name := atoms.New(ClsUserName, "text", "names")
	text2 := &TextTop{Name: t2name, Scope: scopes["text"], Lits: []*StrLit{{Parts: []Tok{L("Hello$")}}}}
	m2name := atoms.New(ClsUserName, "movement", "names")
	mov2 := &MovementTop{Name: m2name, Scope: scopes["movement"], Steps: []*Step{{Name: L("walk_up")}}}
	mov := &MovementTop{Name: mname, Scope: scopes["movement"], Steps: []*Step{{Name: L("walk_down")}}}
	mart := &MartTop{Name: martname, Scope: scopes["mart"], Items: []*Step{{Name: L("ITEM_X")}}}
	ms := &MapScriptsTop{Name: msname, Scope: scopes["mapscripts"], Entries: []*MapEntry{
		{Type: typePlain, Kind: "plain", Label: plainTarget},
		{Type: typeInline, Kind: "inline", Body: []Stmt{cmd(), &If{Conds: []*Expr{flag()}, Bodies: [][]Stmt{{cmd()}}}, cmd()}},
		{Type: typeTable, Kind: "table", Rows: []*MapRow{
			{Cond: []Tok{L("VAR_A")}, Value: []Tok{L("1")}, Label: rowTarget},
			{Cond: []Tok{L("VAR_B")}, Value: []Tok{L("2")}, Body: []Stmt{cmd()}},
			{Cond: []Tok{L("VAR_C")}, Value: []Tok{L("3")}, Body: nil},
		}},
		{Type: typeInlineEmpty, Kind: "inline", Body: nil},
	}}
	prog := &Program{Atoms: atoms, Tops: []interface{}{script, text, mov, mart, ms, emptyScript, text2, mov2}}
	isGlobal := func(kind, dflt string) bool {
		s := scopes[kind]
		if s == "" {
			s = dflt
		}
		return s == "global"
	}
	cs := &Case{Name: fmt.Sprintf("c15/%v", scopes), Prog: prog, Variants: optVariants, NonTrivial: true, Shape: c15Shape{Scopes: scopes}}
	cs.Oracle = func(x *OracleCtx) *Violation {
		exp := []expLabel{
			{"script", sname.Val, isGlobal("script", "global")},
			{"script with an empty body", ename.Val, isGlobal("script", "global")},
			{"text", tname.Val, isGlobal("text", "global")},
			{"movement", mname.Val, isGlobal("movement", "local")},
			{"text with the content of an inline text", t2name.Val, isGlobal("text", "global")},
			{"movement with the steps of a moves()", m2name.Val, isGlobal("movement", "local")},
			{"mart", martname.Val, isGlobal("mart", "local")},
			{"mapscripts", msname.Val, isGlobal("mapscripts", "global")},
			{"label without modifier", lblNone.Val, false},
			{"label (global)", lblGlobal.Val, true},
			{"label (local)", lblLocal.Val, false},
			{"label A (unmarked, first)", lblA.Val, false},
			{"label B (global)", lblB.Val, true},
			{"label C (unmarked after a global one)", lblC.Val, false},
			{"label D (local after a global one)", lblD.Val, false},
			{"label E (global)", lblE.Val, true},
			{"label F (unmarked directly after a global one)", lblF.Val, false},
		}
		// Everything else the output defines is a label the compiler invented
		// (sub-labels, hoisted text and movement, inline map scripts, tables):
		// whatever it is called, it must be local. At least 5 such labels must
		// exist (text, movement, two inline scripts, table, two row scripts).
		for _, v := range x.Case.Variants {
			res := x.Res[v.Name]
			if res.Err.Panic != "" || res.Err.IsErr {
				return &Violation{Sub: "accept", Msg: "the program was rejected: " + interp.ToString(res.Err.Msg) + res.Err.Panic}
			}
			seen := make([]int, len(exp))
			generated := 0
			for _, al := range ParseAsm(res.Out) {
				if al.Kind != "label" {
					continue
				}
				matched := false
				for i, e := range exp {
					if sameValue(x.C, al.Name, e.name) == 1 {
						matched = true
						seen[i]++
						if al.Global != e.global {
							return &Violation{Sub: "scope", Msg: fmt.Sprintf("variant %s: %s %s is emitted with global=%v, expected global=%v", v.Name, e.what, interp.ToString(e.name), al.Global, e.global)}
						}
					}
				}
				if !matched {
					generated++
					if al.Global {
						return &Violation{Sub: "scope", Msg: fmt.Sprintf("variant %s: generated label %s is exported", v.Name, interp.ToString(al.Name))}
					}
				}
			}
			if generated < 7 {
				return &Violation{Sub: "scope", Msg: fmt.Sprintf("variant %s: only %d generated labels are defined; the hoisted text, the hoisted movement, the two inline map scripts, the table and the two row scripts need one each", v.Name, generated)}
			}
			for i, e := range exp {
				if seen[i] != 1 {
					return &Violation{Sub: "scope", Msg: fmt.Sprintf("variant %s: %s %s is defined %d times", v.Name, e.what, interp.ToString(e.name), seen[i])}
				}
			}
		}
		return nil
	}
	return cs
}

// c15SpelledModifierCase: one statement of the given kind whose scope
// modifier is written in another letter case. Nothing is demanded about
// acceptance; an accepted program must give the name the scope the modifier
// reads as.
func c15SpelledModifierCase(kind, spelling string) *Case {
	atoms := &AtomTable{Coded: true}
	name := atoms.New(ClsUserName, kind, "names")
	cmd := func() *Cmd { return &Cmd{Name: A(atoms.New(ClsPlainCmd, "cmd", ""))} }
	var top interface{}
	target := name
	switch kind {
	case "script":
		top = &Script{Name: name, Scope: spelling, Body: []Stmt{cmd()}}
	case "text":
		top = &TextTop{Name: name, Scope: spelling, Lits: []*StrLit{{Parts: []Tok{L("abc")}}}}
	case "movement":
		top = &MovementTop{Name: name, Scope: spelling, Steps: []*Step{{Name: L("walk_down")}}}
	case "mart":
		top = &MartTop{Name: name, Scope: spelling, Items: []*Step{{Name: L("ITEM_X")}}}
	case "mapscripts":
		top = &MapScriptsTop{Name: name, Scope: spelling, Entries: []*MapEntry{{Type: atoms.New(ClsIdent, "mstype", ""), Kind: "plain", Label: atoms.New(ClsIdent, "target", "")}}}
	case "label":
		target = atoms.New(ClsUserName, "lbl", "names")
		top = &Script{Name: name, Body: []Stmt{cmd(), &Label{Name: target, Scope: spelling}, cmd()}}
	}
	prog := &Program{Atoms: atoms, Tops: []interface{}{top}}
	wantGlobal := strings.ToLower(spelling) == "global"
	cs := &Case{Name: fmt.Sprintf("c15/modifier-spelling/%s(%s)", kind, spelling), Prog: prog, Variants: optVariants[:1], NonTrivial: true, Shape: c15Shape{Scopes: map[string]string{kind: spelling}}}
	cs.Oracle = func(x *OracleCtx) *Violation {
		res := x.Res["opt"]
		if res.Err.Panic != "" {
			return &Violation{Sub: "panic", Msg: res.Err.Panic}
		}
		if res.Err.IsErr {
			return nil
		}
		for _, al := range ParseAsm(res.Out) {
			if al.Kind == "label" && sameValue(x.C, al.Name, target.Val) == 1 && al.Global != wantGlobal {
				return &Violation{Sub: "scope", Msg: fmt.Sprintf("%s with the modifier (%s) is accepted and emitted with global=%v", kind, spelling, al.Global)}
			}
		}
		return nil
	}
	return cs
}

// c15TextNamedLikeGeneratedCase: a text statement (global by default) named
// like the label generated for an inline text of the same content. The pinned
// code rejects the program (C20); were it accepted, the name the author wrote
// as a global text must still be exported.
func c15TextNamedLikeGeneratedCase(textFirst bool) *Case {
	atoms := &AtomTable{Coded: true}
	tn := atoms.New(ClsIdent, "text", "")
	cmd := atoms.New(ClsPlainCmd, "cmd", "")
	script := fmt.Sprintf("script MyScript {\n  %s(\"Hello$\")\n}", cmd.Placeholder())
	text := fmt.Sprintf("text %s {\n  \"Hello$\"\n}", tn.Placeholder())
	src := script + "\n" + text
	if textFirst {
		src = text + "\n" + script
	}
	prog := &Program{Atoms: atoms, Tops: []interface{}{&TopRaw{Text: src}}}
	cs := &Case{Name: fmt.Sprintf("c15/text-named-like-generated/text-first=%v", textFirst), Prog: prog, Variants: optVariants[:1], NonTrivial: true, Shape: c15Shape{Scopes: map[string]string{"text": "named like a generated label"}}}
	cs.Oracle = func(x *OracleCtx) *Violation {
		res := x.Res["opt"]
		if res.Err.Panic != "" {
			return &Violation{Sub: "panic", Msg: res.Err.Panic}
		}
		if res.Err.IsErr {
			return nil
		}
		// whatever the text is called (MyScript_Text_0 included)
		lbl := tn.Val
		for _, al := range ParseAsm(res.Out) {
			if al.Kind == "label" && sameValue(x.C, al.Name, lbl) == 1 && al.Global {
				return nil
			}
		}
		return &Violation{Sub: "scope", Msg: "the program is accepted, but the text statement " + interp.ToString(lbl) + " (global by default) is not exported"}
	}
	return cs
}

// c15SpelledNamesCase: top-level names spelled like generated labels of
// other (absent) statements - a numeric suffix, _Text_<n>, _Movement_<n> -
// get the scope their modifier / default says, like any other name.
func c15SpelledNamesCase(scope string) *Case {
	atoms := &AtomTable{Coded: true}
	cmd := atoms.New(ClsPlainCmd, "cmd", "")
	mod := ""
	if scope != "" {
		mod = "(" + scope + ")"
	}
	names := map[string]string{"script": "Route101_EventScript_2", "script2": "Foo_0", "text": "Sign_Text_3", "movement": "Rival_Movement_0", "mart": "Shop_12", "mapscripts": "Town_MapScripts_1"}
	src := fmt.Sprintf("script%s %s {\n  %s\n}\nscript%s %s {\n  %s\n}\ntext%s %s {\n  \"abc$\"\n}\nmovement%s %s {\n  walk_up\n}\nmart%s %s {\n  ITEM_X\n}\nmapscripts%s %s {\n  MAP_TYPE_A: SomeTarget\n}",
		mod, names["script"], cmd.Placeholder(), mod, names["script2"], cmd.Placeholder(), mod, names["text"], mod, names["movement"], mod, names["mart"], mod, names["mapscripts"])
	dflt := map[string]bool{"script": true, "script2": true, "text": true, "movement": false, "mart": false, "mapscripts": true}
	prog := &Program{Atoms: atoms, Tops: []interface{}{&TopRaw{Text: src}}}
	cs := &Case{Name: "c15/names-spelled-like-generated-labels/scope=" + scope, Prog: prog, Variants: optVariants, NonTrivial: true, Shape: c15Shape{Scopes: map[string]string{"all": scope + " (names with numeric / _Text_n / _Movement_n suffixes)"}}}
	cs.Oracle = func(x *OracleCtx) *Violation {
		for _, v := range x.Case.Variants {
			res := x.Res[v.Name]
			if res.Err.Panic != "" || res.Err.IsErr {
				return &Violation{Sub: "accept", Msg: "the program was rejected: " + interp.ToString(res.Err.Msg) + res.Err.Panic}
			}
			seen := map[string]int{}
			for _, al := range ParseAsm(res.Out) {
				if al.Kind != "label" {
					continue
				}
				for kind, nm := range names {
					if sameValue(x.C, al.Name, nm) == 1 {
						seen[kind]++
						want := dflt[kind]
						if scope != "" {
							want = scope == "global"
						}
						if al.Global != want {
							return &Violation{Sub: "scope", Msg: fmt.Sprintf("variant %s: %s %s is emitted with global=%v, expected global=%v", v.Name, strings.TrimSuffix(kind, "2"), nm, al.Global, want)}
						}
					}
				}
			}
			for kind, nm := range names {
				if seen[kind] != 1 {
					return &Violation{Sub: "scope", Msg: fmt.Sprintf("variant %s: %s is defined %d times", v.Name, nm, seen[kind])}
				}
			}
		}
		return nil
	}
	return cs
}

// RunC15 is the check of property C15.
func RunC15(env *Env, rep *Report) {
	kinds := []string{"script", "text", "movement", "mart", "mapscripts"}
	var cases []*Case
	if env.Tier == "thorough" {
		// full product 3^5
		for code := 0; code < 243; code++ {
			sc := map[string]string{}
			x := code
			for _, k := range kinds {
				sc[k] = []string{"", "global", "local"}[x%3]
				x /= 3
			}
			cases = append(cases, c15Case(sc))
		}
	} else {
		for _, all := range []string{"", "global", "local"} {
			sc := map[string]string{}
			for _, k := range kinds {
				sc[k] = all
			}
			cases = append(cases, c15Case(sc))
		}
		for _, k := range kinds {
			for _, s := range []string{"global", "local"} {
				cases = append(cases, c15Case(map[string]string{k: s}))
			}
		}
	}
	// modifiers in another letter case: whatever the compiler makes of them
	// (the pinned code rejects them), a program it accepts exports the name
	// exactly when the modifier reads "global"
	for _, k := range append(append([]string{}, kinds...), "label") {
		for _, sp := range []string{"GLOBAL", "Global", "LOCAL", "Local"} {
			cases = append(cases, c15SpelledModifierCase(k, sp))
		}
	}
	cases = append(cases, c15TextNamedLikeGeneratedCase(false), c15TextNamedLikeGeneratedCase(true))
	for _, sc := range []string{"", "global", "local"} {
		cases = append(cases, c15SpelledNamesCase(sc))
	}
	rep.Technique = "symbolic execution of the real parser and emitter (go/ssa) with all names symbolic; structural assertions on the label definition lines of the output rope"
	rep.Explanation = "Bounded symbolic verification of a finite property. One program containing every top-level statement kind (script with unmarked, (global) and (local) labels inside branches and loops, inline text, moves(), a script with an empty body, text, movement, mart, mapscripts with plain, inline - also empty - and table entries with plain, inline and empty inline rows) is compiled by symbolic execution for every listed combination of scope modifiers, with all names symbolic and -optimize on and off. Every label definition line of the output must be one of the expected entities with the expected '::' / ':' or a generated sub-label with ':'; every expected entity must be defined exactly once. The space {statement kind} x {no modifier, global, local} x {generated label kinds} is covered completely by the thorough tier (3^5 combinations) and one-at-a-time by the quick tier."
	rep.Bounds = map[string]interface{}{"combinations": len(cases), "program": "one fixed program shape containing every label-producing construct"}
	rep.Outside = []string{"other program shapes (the scope of a label does not depend on the shape in the code, but that is not proved)"}
	rep.Assumptions = []string{"names are pairwise distinct identifiers; label names do not end in _<digits>"}
	rep.Functions = []string{"parseScopeModifier", "parseScriptStatement", "parseTextStatement", "parseMovementStatement", "parseMartStatement", "parseMapscriptsStatement", "tryParseLabelStatement", "renderLabel", "renderLabelStatement", "emitText", "emitMovementStatement", "emitMartStatement", "emitMapScriptStatement"}
	rep.Match = func(k *KnownFinding, f *Finding) bool { return false }
	src, _ := cases[0].Prog.Render()
	rep.AddSample(map[string]interface{}{"case": cases[0].Name, "source_with_holes": src})
	runWitness(env, rep, "c15-witness-movement-global", func() *Case {
		cs := c15Case(map[string]string{})
		orig := cs.Oracle
		cs.Prog.Tops[2].(*MovementTop).Scope = "global" // the oracle still expects the default (local)
		cs.Oracle = orig
		return cs
	})
	env.RunJobs(len(cases), rep, func(w *Worker, i int) { w.RunCase(cases[i], rep) })
}
