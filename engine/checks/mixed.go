package checks

// Mixed files: script statements and a mapscripts statement with inline
// scripts in one file, so that state kept by the parser / emitter between
// top-level statements (chunk bookkeeping, counters, caches) is exercised.
// The inline scripts' labels are read off the emitted header and tables, not
// assumed.

import (
	"fmt"

	"verif/engine/interp"
)

type mixedFile struct {
	prog    *Program
	scripts []*Script // script tops, then inline entries, then inline rows (source order within each)
	ms      *MapScriptsTop
	inline  []*Script // the inline ones (subset of scripts)
	labels  []*Atom   // user labels of all bodies
	got     []interp.Value
	shape   mixedShape
}

// mixedBuild: before / after are bodies of script statements placed before
// and after the mapscripts statement; entries are bodies of inline entries,
// rows of inline table rows (one table, after the entries; a plain row first).
func mixedBuild(before, entries, rows, after [][]*Sh) *mixedFile {
	atoms := &AtomTable{Coded: true}
	b := &shapeBuilder{atoms: atoms}
	var all []*Sh
	for _, g := range [][][]*Sh{before, entries, rows, after} {
		for _, sh := range g {
			all = append(all, sh...)
		}
	}
	b.collectLabels(all)
	li := 0
	mf := &mixedFile{labels: b.labels, shape: mixedShape{Before: shStrings(before), Entries: shStrings(entries), Rows: shStrings(rows), After: shStrings(after)}}
	var tops []interface{}
	for _, sh := range before {
		s := &Script{Name: atoms.New(ClsIdent, "script", "names"), Body: b.block(sh, &li)}
		tops = append(tops, s)
		mf.scripts = append(mf.scripts, s)
	}
	ms := &MapScriptsTop{Name: atoms.New(ClsUserName, "map", "names")}
	mf.ms = ms
	addInline := func(body []Stmt) *Script {
		k := len(mf.inline)
		s := &Script{Body: body}
		s.NameV = func() interp.Value {
			if k < len(mf.got) && mf.got[k] != nil {
				return mf.got[k]
			}
			return fmt.Sprintf("\x00unresolved-inline-%d", k)
		}
		mf.inline = append(mf.inline, s)
		return s
	}
	var inl []*Script
	ms.Entries = append(ms.Entries, &MapEntry{Type: atoms.New(ClsIdent, "mstype", "mstypes"), Kind: "plain", Label: atoms.New(ClsIdent, "target", "")})
	for _, sh := range entries {
		body := b.block(sh, &li)
		ms.Entries = append(ms.Entries, &MapEntry{Type: atoms.New(ClsIdent, "mstype", "mstypes"), Kind: "inline", Body: body})
		inl = append(inl, addInline(body))
	}
	if len(rows) > 0 {
		e := &MapEntry{Type: atoms.New(ClsIdent, "mstype", "mstypes"), Kind: "table"}
		e.Rows = append(e.Rows, &MapRow{Cond: []Tok{A(atoms.New(ClsIdent, "cond", ""))}, Value: []Tok{A(atoms.New(ClsNum, "val", ""))}, Label: atoms.New(ClsIdent, "target", "")})
		for _, sh := range rows {
			body := b.block(sh, &li)
			e.Rows = append(e.Rows, &MapRow{Cond: []Tok{A(atoms.New(ClsIdent, "cond", ""))}, Value: []Tok{A(atoms.New(ClsNum, "val", ""))}, Body: body})
			inl = append(inl, addInline(body))
		}
		ms.Entries = append(ms.Entries, e)
	}
	tops = append(tops, ms)
	var afterScripts []*Script
	for _, sh := range after {
		s := &Script{Name: atoms.New(ClsIdent, "script", "names"), Body: b.block(sh, &li)}
		tops = append(tops, s)
		afterScripts = append(afterScripts, s)
	}
	mf.scripts = append(append(mf.scripts, inl...), afterScripts...)
	mf.prog = &Program{Atoms: atoms, Tops: tops}
	return mf
}

// resolve reads the inline scripts' labels off the variants' outputs (they
// must agree between the variants) and checks that the header and the table
// carry one entry per source entry.
func (mf *mixedFile) resolve(x *OracleCtx) *Violation {
	mf.got = nil
	var first []interp.Value
	for vi, v := range x.Case.Variants {
		res := x.Res[v.Name]
		if res.Err.Panic != "" || res.Err.IsErr {
			return nil // reported by the inner oracle
		}
		var hdr, rows []interp.Value
		for _, l := range outputLines(res.Out, false) {
			if rest, ok := trimPrefixLit(l, "\tmap_script "); ok {
				if _, lbl, ok := splitFirst(rest, ", "); ok {
					hdr = append(hdr, lbl)
				}
			} else if rest, ok := trimPrefixLit(l, "\tmap_script_2 "); ok {
				if _, r2, ok := splitFirst(rest, ", "); ok {
					if _, lbl, ok := splitFirst(r2, ", "); ok {
						rows = append(rows, lbl)
					}
				}
			}
		}
		nplain, ninl, ntab, nrowsInl, nrows := 0, 0, 0, 0, 0
		for _, e := range mf.ms.Entries {
			switch e.Kind {
			case "plain":
				nplain++
			case "inline":
				ninl++
			case "table":
				ntab++
				for _, r := range e.Rows {
					nrows++
					if r.Label == nil {
						nrowsInl++
					}
				}
			}
		}
		if len(hdr) != nplain+ninl+ntab || len(rows) != nrows {
			return &Violation{Sub: "mapscripts-layout", Msg: fmt.Sprintf("variant %s: the output has %d map_script and %d map_script_2 lines, the source has %d entries and %d rows", v.Name, len(hdr), len(rows), nplain+ninl+ntab, nrows)}
		}
		var got []interp.Value
		hi := 0
		for _, e := range mf.ms.Entries {
			if e.Kind == "table" {
				continue
			}
			if e.Kind == "inline" {
				got = append(got, hdr[hi])
			}
			hi++
		}
		ri := 0
		for _, e := range mf.ms.Entries {
			for _, r := range e.Rows {
				if r.Label == nil {
					got = append(got, rows[ri])
				}
				ri++
			}
		}
		if vi == 0 {
			first = got
		} else {
			for i := range got {
				if sameValue(x.C, got[i], first[i]) != 1 {
					return &Violation{Sub: "mapscripts-layout", Msg: fmt.Sprintf("inline script %d is called %s with -optimize and %s without", i, interp.ToString(first[i]), interp.ToString(got[i]))}
				}
			}
		}
	}
	mf.got = first
	return nil
}

// wrap runs resolve before the inner oracle.
func (mf *mixedFile) wrap(inner func(x *OracleCtx) *Violation) func(x *OracleCtx) *Violation {
	return func(x *OracleCtx) *Violation {
		if v := mf.resolve(x); v != nil {
			return v
		}
		return inner(x)
	}
}

func (mf *mixedFile) entryNames() []interp.Value {
	var ns []interp.Value
	for _, s := range mf.scripts {
		ns = append(ns, s.NameValue())
	}
	return ns
}

type mixedShape struct {
	Before  []string `json:"scripts_before"`
	Entries []string `json:"inline_entries"`
	Rows    []string `json:"inline_rows"`
	After   []string `json:"scripts_after"`
}

func shStrings(g [][]*Sh) []string {
	var out []string
	for _, sh := range g {
		out = append(out, ShString(sh))
	}
	return out
}

// mixedFiles enumerates the family: every small body (up to maxNodes nodes)
// as an inline entry and as an inline row, each preceded by each partner
// script (whose chunks / jumps / counters could leak into it) and followed by
// another.
func mixedFiles(maxNodes int) []*mixedFile {
	partners := [][]*Sh{
		{{K: "cmd"}, {K: "if", Blocks: [][]*Sh{{{K: "cmd"}}}}, {K: "cmd"}},
		{{K: "while", Blocks: [][]*Sh{{{K: "cmd"}, {K: "if", Blocks: [][]*Sh{{{K: "break"}}}}}}}, {K: "label"}, {K: "cmd"}},
		{{K: "ifelifelse", Blocks: [][]*Sh{{{K: "cmd"}}, {{K: "end"}}, {{K: "cmd"}}}}},
	}
	var small [][]*Sh
	for n := 1; n <= maxNodes; n++ {
		small = append(small, c01Cfg.enumBlock(n, 1, false, false)...)
	}
	var res []*mixedFile
	k := 0
	for _, a := range small {
		hasGoto := false
		walkSh(a, func(s *Sh) {
			if s.K == "goto" {
				hasGoto = true
			}
		})
		if hasGoto {
			continue // gotos are covered by the single-script families
		}
		p := partners[k%len(partners)]
		q := partners[(k+1)%len(partners)]
		other := small[(k*7+3)%len(small)]
		og := false
		walkSh(other, func(s *Sh) {
			if s.K == "goto" {
				og = true
			}
		})
		if og {
			other = []*Sh{{K: "cmd"}, {K: "if", Blocks: [][]*Sh{{{K: "cmd"}}}}}
		}
		k++
		res = append(res,
			mixedBuild([][]*Sh{cloneSh(p)}, [][]*Sh{cloneSh(a)}, [][]*Sh{cloneSh(other)}, nil),
			mixedBuild([][]*Sh{cloneSh(p)}, [][]*Sh{cloneSh(other), cloneSh(a)}, nil, [][]*Sh{cloneSh(q)}),
			mixedBuild(nil, [][]*Sh{cloneSh(other)}, [][]*Sh{cloneSh(a)}, [][]*Sh{cloneSh(q)}),
		)
	}
	return res
}


func (mf *mixedFile) name() string {
	return fmt.Sprintf("mixed/%v|%v|%v|%v", mf.shape.Before, mf.shape.Entries, mf.shape.Rows, mf.shape.After)
}

// mixedC01Case: every script of the file, inline ones included, against the
// reference semantics of its body.
func mixedC01Case(mf *mixedFile) *Case {
	return &Case{Name: "c01/" + mf.name(), Prog: mf.prog, Variants: optVariants, Shape: mf.shape, NonTrivial: true,
		Oracle: mf.wrap(bisimOracle("bisimulation-mixed-file", func(x *OracleCtx) []*Script { return mf.scripts }, nil))}
}
