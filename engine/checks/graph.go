package checks

// Control-flow graphs over script events, the assembly model (DESIGN.md §4.1)
// and the SMT-discharged bisimulation (§4.2).

import (
	"fmt"
	"regexp"
	"strconv"
	"strings"

	"verif/engine/interp"
)

type NKind int

const (
	NEvent NKind = iota
	NTest
	NTerm
	NSilent
)

type TestKind int

const (
	TFlag TestKind = iota
	TTrainer
	TVarCmp
	TCase
	TUndef
)

// Test is a silent test of the game state.
type Test struct {
	Kind   TestKind
	A      interp.Value // flag / trainer / var operand
	Op     string       // eq ne lt le gt ge
	B      interp.Value // comparison value text
	Strict bool         // compare_var_to_value
	Undef  string       // TUndef: name of an unconstrained boolean
	Coded  bool         // operands are Int-coded (see interp/codes.go)
}

type Node struct {
	ID   int
	Kind NKind
	Text interp.Value // NEvent: "name args"
	Test *Test
	T, F *Node
	Next *Node
	Term string       // NTerm: return | end | out | runoff
	TVal interp.Value // NTerm out: the label jumped to
	Desc string
}

// Graph is a set of nodes with named entry points.
type Graph struct {
	Nodes   []*Node
	Entries map[string]*Node // by description (script name placeholder etc.)
}

func (g *Graph) add(n *Node) *Node {
	n.ID = len(g.Nodes)
	g.Nodes = append(g.Nodes, n)
	return n
}

// ---- state model: uninterpreted functions over operand texts

const stateDecls = `(declare-fun flagvI (Int) Bool)
(declare-fun trainervI (Int) Bool)
(declare-fun varvI (Int) Int)
(declare-fun isvarI (Int) Bool)
(declare-fun valofI (Int) Int)
(declare-fun varvN (Int) Int)
(declare-fun flagv (String) Bool)
(declare-fun trainerv (String) Bool)
(declare-fun varv (String) Int)
(declare-fun isvar (String) Bool)
(declare-fun valof (String) Int)
`

// numeric value of a concrete literal as the assembler reads it
func concreteNum(s string) (int64, bool) {
	s = strings.TrimSpace(s)
	if s == "" {
		return 0, false
	}
	n, err := strconv.ParseInt(s, 0, 64)
	if err != nil {
		return 0, false
	}
	return n, true
}

func inVarRange(n int64) bool {
	return n >= 0x4000 && n <= 0x40FF || n >= 0x8000 && n <= 0x8015
}

// stateApp applies a state function to an operand text.
func stateApp(fn string, v interp.Value, coded bool) string {
	if fn == "varv" {
		// vars named by number: canonical numeric id
		if sv, ok := v.(string); ok {
			if n, ok := concreteNum(sv); ok {
				return "(varvN " + interp.IntLit(n) + ")"
			}
		}
		if ps := interp.Parts(v); len(ps) == 1 && ps[0].Kind == interp.PInt {
			return "(varvN " + ps[0].Lit + ")"
		}
	}
	if coded {
		t, ok := interp.CodeTerm(v)
		if !ok {
			panic(interp.Inconclusive{Msg: "operand is not a single coded atom or literal: " + interp.ToString(v)})
		}
		return "(" + fn + "I " + t + ")"
	}
	return "(" + fn + " " + interp.StrTerm(v) + ")"
}

func valTerm(v interp.Value, coded bool) string {
	if s, ok := v.(string); ok {
		if n, ok := concreteNum(s); ok {
			return interp.IntLit(n)
		}
	}
	if ps := interp.Parts(v); len(ps) == 1 && ps[0].Kind == interp.PInt {
		return ps[0].Lit
	}
	return stateApp("valof", v, coded)
}

func isvarTerm(v interp.Value, coded bool) string {
	if s, ok := v.(string); ok {
		if n, ok := concreteNum(s); ok {
			if inVarRange(n) {
				return "true"
			}
			return "false"
		}
	}
	if ps := interp.Parts(v); len(ps) == 1 && ps[0].Kind == interp.PInt {
		t := ps[0].Lit
		return fmt.Sprintf("(or (and (<= 16384 %s) (<= %s 16639)) (and (<= 32768 %s) (<= %s 32789)))", t, t, t, t)
	}
	return stateApp("isvar", v, coded)
}

var smtOps = map[string]string{"eq": "=", "ne": "distinct", "lt": "<", "le": "<=", "gt": ">", "ge": ">="}

// Term renders the test as an SMT Bool term over the epoch's state.
func (t *Test) Term() string {
	switch t.Kind {
	case TFlag:
		return stateApp("flagv", t.A, t.Coded)
	case TTrainer:
		return stateApp("trainerv", t.A, t.Coded)
	case TVarCmp:
		lhs := stateApp("varv", t.A, t.Coded)
		var rhs string
		if t.Strict {
			rhs = valTerm(t.B, t.Coded)
		} else {
			iv := isvarTerm(t.B, t.Coded)
			switch iv {
			case "true":
				rhs = stateApp("varv", t.B, t.Coded)
			case "false":
				rhs = valTerm(t.B, t.Coded)
			default:
				rhs = fmt.Sprintf("(ite %s %s %s)", iv, stateApp("varv", t.B, t.Coded), valTerm(t.B, t.Coded))
			}
		}
		return fmt.Sprintf("(%s %s %s)", smtOps[t.Op], lhs, rhs)
	case TCase:
		return fmt.Sprintf("(= %s %s)", stateApp("varv", t.A, t.Coded), valTerm(t.B, t.Coded))
	case TUndef:
		return t.Undef
	}
	panic("test kind")
}

// ---- outcomes of the silent steps from a node

type OKind int

const (
	OEvent OKind = iota
	OTerm
	ODiverge
)

type lit struct {
	term string
	pos  bool
}

type Outcome struct {
	Guard []lit
	Kind  OKind
	Text  interp.Value // event text
	Succ  *Node
	Term  string
	TVal  interp.Value
	Via   []int // node ids visited
}

func guardTerm(g []lit) string {
	ts := make([]string, len(g))
	for i, l := range g {
		if l.pos {
			ts[i] = l.term
		} else {
			ts[i] = interp.Not(l.term)
		}
	}
	return interp.And(ts...)
}

func contradicts(g []lit, l lit) bool {
	for _, x := range g {
		if x.term == l.term && x.pos != l.pos {
			return true
		}
	}
	return false
}

func implied(g []lit, l lit) bool {
	for _, x := range g {
		if x.term == l.term && x.pos == l.pos {
			return true
		}
	}
	return false
}

const maxSilentDepth = 400

func outcomes(n *Node) []Outcome {
	var res []Outcome
	var walk func(n *Node, g []lit, onPath map[*Node]bool, via []int, depth int)
	walk = func(n *Node, g []lit, onPath map[*Node]bool, via []int, depth int) {
		if depth > maxSilentDepth {
			panic(interp.BeyondBound{Msg: "silent-step depth"})
		}
		if n == nil {
			res = append(res, Outcome{Guard: g, Kind: OTerm, Term: "runoff", Via: via})
			return
		}
		via = append(append([]int{}, via...), n.ID)
		switch n.Kind {
		case NEvent:
			res = append(res, Outcome{Guard: g, Kind: OEvent, Text: n.Text, Succ: n.Next, Via: via})
		case NTerm:
			res = append(res, Outcome{Guard: g, Kind: OTerm, Term: n.Term, TVal: n.TVal, Via: via})
		case NSilent:
			if onPath[n] {
				res = append(res, Outcome{Guard: g, Kind: ODiverge, Via: via})
				return
			}
			onPath[n] = true
			walk(n.Next, g, onPath, via, depth+1)
			delete(onPath, n)
		case NTest:
			if onPath[n] {
				res = append(res, Outcome{Guard: g, Kind: ODiverge, Via: via})
				return
			}
			onPath[n] = true
			t := n.Test.Term()
			lt, lf := lit{t, true}, lit{t, false}
			if !contradicts(g, lt) {
				g2 := g
				if !implied(g, lt) {
					g2 = append(append([]lit{}, g...), lt)
				}
				walk(n.T, g2, onPath, via, depth+1)
			}
			if !contradicts(g, lf) {
				g2 := g
				if !implied(g, lf) {
					g2 = append(append([]lit{}, g...), lf)
				}
				walk(n.F, g2, onPath, via, depth+1)
			}
			delete(onPath, n)
		}
	}
	walk(n, nil, map[*Node]bool{}, nil, 0)
	return res
}

// ---- bisimulation

// Mismatch describes a counterexample of the bisimulation.
type Mismatch struct {
	Msg    string
	Query  string // the satisfiable formula (state + names)
	RefOut string
	AsmOut string
	Trail  []string // events leading to the pair
}

type bisimStats struct {
	Pairs   int
	Queries int
}

func describeOutcome(o Outcome) string {
	switch o.Kind {
	case OEvent:
		return "event " + interp.ToString(o.Text)
	case OTerm:
		if o.Term == "out" {
			return "jump out to " + interp.ToString(o.TVal)
		}
		return o.Term
	}
	return "diverge (silent loop)"
}

// sameValue decides equality of two string values under the path condition:
// 1 equal for all models, 0 unequal for all models, -1 depends on the model,
// -2 unknown.
func sameValue(c *interp.Ctx, a, b interp.Value) int {
	r := interp.StrEq(a, b)
	if bv, ok := r.(bool); ok {
		if bv {
			return 1
		}
		return 0
	}
	t := interp.BoolTerm(r)
	switch c.Valid(t) {
	case interp.Unsat:
		return 1
	case interp.Unknown:
		return -2
	}
	switch c.Check(t) {
	case interp.Unsat:
		return 0
	case interp.Unknown:
		return -2
	}
	return -1
}

// decideSame resolves equality of two string values on the current path,
// forking the path when both outcomes are feasible (oracles use it when the
// expected result depends on a condition the code under test did not decide).
func decideSame(c *interp.Ctx, a, b interp.Value) bool {
	return c.DecideValue(interp.StrEq(a, b))
}

// Bisimulate checks that ref and asm are bisimilar from (r0,a0): every run
// performs the same events and ends the same way, for every state chosen
// afresh after every event. It returns the first mismatch found (nil if
// none). Inconclusive solver answers abort the path.
func Bisimulate(c *interp.Ctx, r0, a0 *Node, st *bisimStats) *Mismatch {
	type pair struct{ r, a *Node }
	type item struct {
		p     pair
		trail []string
	}
	seen := map[pair]bool{{r0, a0}: true}
	work := []item{{pair{r0, a0}, nil}}
	for len(work) > 0 {
		it := work[0]
		work = work[1:]
		st.Pairs++
		R := outcomes(it.p.r)
		Aa := outcomes(it.p.a)
		for _, ro := range R {
			for _, ao := range Aa {
				// quick syntactic infeasibility
				clash := false
				for _, l := range ao.Guard {
					if contradicts(ro.Guard, l) {
						clash = true
						break
					}
				}
				if clash {
					continue
				}
				joint := interp.And(guardTerm(ro.Guard), guardTerm(ao.Guard))
				mism := func(extra, msg string) *Mismatch {
					st.Queries++
					q := interp.And(joint, extra)
					switch c.Check(q) {
					case interp.Sat:
						return &Mismatch{Msg: msg, Query: q, RefOut: describeOutcome(ro), AsmOut: describeOutcome(ao), Trail: it.trail}
					case interp.Unknown:
						panic(interp.Inconclusive{Msg: "solver unknown in bisimulation query"})
					}
					return nil
				}
				if ro.Kind != ao.Kind {
					if m := mism("true", "different kind of outcome"); m != nil {
						return m
					}
					continue
				}
				switch ro.Kind {
				case ODiverge:
				case OTerm:
					if ro.Term != ao.Term {
						if m := mism("true", "script finishes differently"); m != nil {
							return m
						}
						continue
					}
					if ro.Term == "out" {
						eq := interp.StrEq(ro.TVal, ao.TVal)
						if m := mism(interp.Not(interp.BoolTerm(eq)), "jump out of the file to a different label"); m != nil {
							return m
						}
					}
				case OEvent:
					eq := interp.StrEq(ro.Text, ao.Text)
					if m := mism(interp.Not(interp.BoolTerm(eq)), "different command executed"); m != nil {
						return m
					}
					np := pair{ro.Succ, ao.Succ}
					if !seen[np] {
						st.Queries++
						switch c.Check(joint) {
						case interp.Unsat:
							continue
						case interp.Unknown:
							panic(interp.Inconclusive{Msg: "solver unknown in bisimulation successor query"})
						}
						seen[np] = true
						tr := append(append([]string{}, it.trail...), interp.ToString(ro.Text))
						work = append(work, item{np, tr})
					}
				}
			}
		}
	}
	return nil
}

// ---- assembly model

// Line kinds of the emitted text.
type AsmLine struct {
	Raw    interp.Value
	Kind   string // label | instr | marker | blank | other
	Name   interp.Value // label name
	Global bool
	Mnem   string       // concrete mnemonic ("" if symbolic)
	Rest   interp.Value // operands text
	Index  int
}

// SplitLines splits a string value at newlines (only literal parts can
// contain newlines: no atom class admits one).
func SplitLines(v interp.Value) []interp.Value {
	return splitValue(v, "\n")
}

func splitValue(v interp.Value, sep string) []interp.Value {
	var res []interp.Value
	var cur []interp.Part
	for _, p := range interp.Parts(v) {
		if p.Kind != interp.PLit {
			cur = append(cur, p)
			continue
		}
		pieces := strings.Split(p.Lit, sep)
		for i, piece := range pieces {
			if i > 0 {
				res = append(res, interp.MkRope(cur))
				cur = nil
			}
			if piece != "" {
				cur = append(cur, interp.Part{Kind: interp.PLit, Lit: piece})
			}
		}
	}
	res = append(res, interp.MkRope(cur))
	return res
}

func trimPrefixLit(v interp.Value, pre string) (interp.Value, bool) {
	ps := interp.Parts(v)
	if len(ps) == 0 || ps[0].Kind != interp.PLit || !strings.HasPrefix(ps[0].Lit, pre) {
		return v, false
	}
	out := append([]interp.Part{{Kind: interp.PLit, Lit: ps[0].Lit[len(pre):]}}, ps[1:]...)
	return interp.MkRope(out), true
}

func trimSuffixLit(v interp.Value, suf string) (interp.Value, bool) {
	ps := interp.Parts(v)
	n := len(ps)
	if n == 0 || ps[n-1].Kind != interp.PLit || !strings.HasSuffix(ps[n-1].Lit, suf) {
		return v, false
	}
	out := append(append([]interp.Part{}, ps[:n-1]...), interp.Part{Kind: interp.PLit, Lit: strings.TrimSuffix(ps[n-1].Lit, suf)})
	return interp.MkRope(out), true
}

// ParseAsm classifies the lines of an emitted text.
func ParseAsm(out interp.Value) []*AsmLine {
	var res []*AsmLine
	for i, ln := range SplitLines(out) {
		al := &AsmLine{Raw: ln, Index: i}
		ps := interp.Parts(ln)
		switch {
		case len(ps) == 0:
			al.Kind = "blank"
		case ps[0].Kind == interp.PLit && strings.HasPrefix(ps[0].Lit, "# "):
			al.Kind = "marker"
		case ps[0].Kind == interp.PLit && strings.HasPrefix(ps[0].Lit, "\t"):
			al.Kind = "instr"
			body, _ := trimPrefixLit(ln, "\t")
			bps := interp.Parts(body)
			if len(bps) > 0 && bps[0].Kind == interp.PLit {
				head := bps[0].Lit
				if sp := strings.IndexByte(head, ' '); sp >= 0 {
					al.Mnem = head[:sp]
					al.Rest, _ = trimPrefixLit(body, head[:sp+1])
				} else if len(bps) == 1 {
					al.Mnem = head
					al.Rest = ""
				}
			}
			if al.Mnem == "" {
				al.Rest = body
			}
		default:
			if nm, ok := trimSuffixLit(ln, "::"); ok {
				al.Kind, al.Name, al.Global = "label", nm, true
			} else if nm, ok := trimSuffixLit(ln, ":"); ok {
				al.Kind, al.Name = "label", nm
			} else {
				al.Kind = "other"
			}
		}
		res = append(res, al)
	}
	return res
}

var dataMnems = map[string]bool{"map_script": true, "map_script_2": true}

func isDataLine(al *AsmLine) bool {
	if al.Kind == "instr" {
		if ps := interp.Parts(al.Raw); len(ps) > 0 && ps[0].Kind == interp.PLit && strings.HasPrefix(ps[0].Lit, "\t.") {
			return true // an assembler directive (possibly with a symbolic name)
		}
	}
	return al.Kind == "instr" && (strings.HasPrefix(al.Mnem, ".") || dataMnems[al.Mnem]) || al.Kind == "other"
}

var movementLabelRe = regexp.MustCompile(`_Movement_[0-9]+$`)

var condOps = map[string]string{"goto_if_eq": "eq", "goto_if_ne": "ne", "goto_if_lt": "lt", "goto_if_le": "le", "goto_if_gt": "gt", "goto_if_ge": "ge"}

// AsmGraph builds the control-flow graph of emitted assembly. entryNames are
// the labels at which a script starts: falling into one of them from the
// previous line is the run-off outcome. The returned map gives the node of
// each label definition index.
type AsmGraph struct {
	G        *Graph
	Lines    []*AsmLine
	LabelDef []*AsmLine
	nodeOf   map[int]*Node // line index -> node
	undefN   int
}

func splitFirst(v interp.Value, sep string) (interp.Value, interp.Value, bool) {
	ps := interp.Parts(v)
	for i, p := range ps {
		if p.Kind != interp.PLit {
			continue
		}
		if j := strings.Index(p.Lit, sep); j >= 0 {
			left := append(append([]interp.Part{}, ps[:i]...), interp.Part{Kind: interp.PLit, Lit: p.Lit[:j]})
			right := append([]interp.Part{{Kind: interp.PLit, Lit: p.Lit[j+len(sep):]}}, ps[i+1:]...)
			return interp.MkRope(left), interp.MkRope(right), true
		}
	}
	return v, "", false
}

func splitLast(v interp.Value, sep string) (interp.Value, interp.Value, bool) {
	ps := interp.Parts(v)
	for i := len(ps) - 1; i >= 0; i-- {
		p := ps[i]
		if p.Kind != interp.PLit {
			continue
		}
		if j := strings.LastIndex(p.Lit, sep); j >= 0 {
			left := append(append([]interp.Part{}, ps[:i]...), interp.Part{Kind: interp.PLit, Lit: p.Lit[:j]})
			right := append([]interp.Part{{Kind: interp.PLit, Lit: p.Lit[j+len(sep):]}}, ps[i+1:]...)
			return interp.MkRope(left), interp.MkRope(right), true
		}
	}
	return v, "", false
}

// FindLabel resolves a label operand among the definitions; nil if it is
// not defined. Aliasing that depends on the model is decided by forking.
func (ag *AsmGraph) FindLabel(c *interp.Ctx, name interp.Value) *AsmLine {
	var found *AsmLine
	for _, d := range ag.LabelDef {
		switch sameValue(c, d.Name, name) {
		case 1:
			if found == nil {
				found = d
			}
		case 0:
		case -1:
			// the two names coincide for some values only: a fork of the oracle
			// (both situations are explored)
			if decideSame(c, d.Name, name) && found == nil {
				found = d
			}
		default:
			panic(interp.Inconclusive{Msg: "solver unknown while resolving a label"})
		}
	}
	return found
}

// BuildAsmGraph builds the graph. isEntry decides whether a label is a script
// entry point.
func BuildAsmGraph(c *interp.Ctx, out interp.Value, isEntry func(name interp.Value) bool, coded bool) *AsmGraph {
	ag := &AsmGraph{G: &Graph{Entries: map[string]*Node{}}, nodeOf: map[int]*Node{}}
	ag.Lines = ParseAsm(out)
	var code []*AsmLine
	for _, al := range ag.Lines {
		switch al.Kind {
		case "label":
			ag.LabelDef = append(ag.LabelDef, al)
			code = append(code, al)
		case "instr", "other":
			code = append(code, al)
		}
	}
	// one node per code line
	for _, al := range code {
		ag.nodeOf[al.Index] = ag.G.add(&Node{Desc: fmt.Sprintf("L%d %s", al.Index, interp.ToString(al.Raw))})
	}
	runoff := func(why string) *Node {
		return ag.G.add(&Node{Kind: NTerm, Term: "runoff", Desc: why})
	}
	nextOf := func(k int) *Node {
		if k+1 >= len(code) {
			return runoff("end of file")
		}
		nx := code[k+1]
		if nx.Kind == "label" && isEntry(nx.Name) {
			return runoff("falls into " + interp.ToString(nx.Name))
		}
		return ag.nodeOf[nx.Index]
	}
	target := func(name interp.Value) *Node {
		d := ag.FindLabel(c, name)
		if d == nil {
			return ag.G.add(&Node{Kind: NTerm, Term: "out", TVal: name, Desc: "out " + interp.ToString(name)})
		}
		return ag.nodeOf[d.Index]
	}
	// movement blocks are data that looks like commands: the lines after a
	// hoisted movement label (…_Movement_<n>) up to the next label are data
	inMovement := false
	movementLine := map[int]bool{}
	for _, al := range code {
		if al.Kind == "label" {
			ps := interp.Parts(al.Name)
			inMovement = len(ps) > 0 && ps[len(ps)-1].Kind == interp.PLit && movementLabelRe.MatchString(ps[len(ps)-1].Lit)
			continue
		}
		if inMovement {
			movementLine[al.Index] = true
		}
	}
	var cmpA, cmpB interp.Value
	cmpStrict, haveCmp := false, false
	var trainer interp.Value
	haveTrainer := false
	var swOperand interp.Value
	haveSwitch := false
	reset := func() { haveCmp, haveTrainer, haveSwitch = false, false, false }
	undef := func() *Test {
		ag.undefN++
		b := c.NewBoolVar(fmt.Sprintf("undefcond%d", ag.undefN))
		return &Test{Kind: TUndef, Undef: b.T}
	}
	for k, al := range code {
		n := ag.nodeOf[al.Index]
		switch {
		case al.Kind == "label":
			n.Kind, n.Next = NSilent, nextOf(k)
			reset()
		case isDataLine(al) || movementLine[al.Index]:
			n.Kind, n.Term = NTerm, "runoff"
			n.Desc = "data " + n.Desc
			reset()
		case al.Mnem == "return" && isEmpty(al.Rest), al.Mnem == "end" && isEmpty(al.Rest):
			n.Kind, n.Term = NTerm, al.Mnem
		case al.Mnem == "goto":
			n.Kind, n.Next = NSilent, target(al.Rest)
		case al.Mnem == "goto_if_set" || al.Mnem == "goto_if_unset":
			op, lbl, ok := splitLast(al.Rest, ", ")
			if !ok {
				n.Kind, n.Text, n.Next = NEvent, eventText(al), nextOf(k)
				break
			}
			n.Kind, n.Test = NTest, &Test{Kind: TFlag, A: op, Coded: coded}
			if al.Mnem == "goto_if_set" {
				n.T, n.F = target(lbl), nextOf(k)
			} else {
				n.F, n.T = target(lbl), nextOf(k)
			}
		case al.Mnem == "compare" || al.Mnem == "compare_var_to_value":
			a, b, ok := splitFirst(al.Rest, ", ")
			if !ok {
				n.Kind, n.Text, n.Next = NEvent, eventText(al), nextOf(k)
				break
			}
			cmpA, cmpB, cmpStrict, haveCmp = a, b, al.Mnem == "compare_var_to_value", true
			n.Kind, n.Next = NSilent, nextOf(k)
		case condOps[al.Mnem] != "":
			n.Kind = NTest
			if haveCmp {
				n.Test = &Test{Kind: TVarCmp, A: cmpA, Op: condOps[al.Mnem], B: cmpB, Strict: cmpStrict, Coded: coded}
			} else {
				n.Test = undef()
			}
			n.T, n.F = target(al.Rest), nextOf(k)
		case al.Mnem == "checktrainerflag":
			trainer, haveTrainer = al.Rest, true
			n.Kind, n.Next = NSilent, nextOf(k)
		case al.Mnem == "goto_if":
			which, lbl, ok := splitFirst(al.Rest, ", ")
			ws, isS := which.(string)
			if !ok || !isS || (ws != "0" && ws != "1") {
				n.Kind, n.Text, n.Next = NEvent, eventText(al), nextOf(k)
				break
			}
			n.Kind = NTest
			if haveTrainer {
				n.Test = &Test{Kind: TTrainer, A: trainer, Coded: coded}
			} else {
				n.Test = undef()
			}
			if ws == "1" {
				n.T, n.F = target(lbl), nextOf(k)
			} else {
				n.F, n.T = target(lbl), nextOf(k)
			}
		case al.Mnem == "switch":
			swOperand, haveSwitch = al.Rest, true
			n.Kind, n.Next = NSilent, nextOf(k)
		case al.Mnem == "case":
			val, lbl, ok := splitLast(al.Rest, ", ")
			if !ok {
				n.Kind, n.Text, n.Next = NEvent, eventText(al), nextOf(k)
				break
			}
			n.Kind = NTest
			if haveSwitch {
				n.Test = &Test{Kind: TCase, A: swOperand, B: val, Coded: coded}
			} else {
				n.Test = undef()
			}
			n.T, n.F = target(lbl), nextOf(k)
		default:
			// an ordinary command: an event that may change any state
			n.Kind, n.Text, n.Next = NEvent, eventText(al), nextOf(k)
			reset()
		}
	}
	return ag
}

func isEmpty(v interp.Value) bool {
	s, ok := v.(string)
	return v == nil || ok && s == ""
}

func eventText(al *AsmLine) interp.Value {
	body, _ := trimPrefixLit(al.Raw, "\t")
	return body
}

// EntryNode returns the node of the label definition equal to name.
func (ag *AsmGraph) EntryNode(c *interp.Ctx, name interp.Value) *Node {
	d := ag.FindLabel(c, name)
	if d == nil {
		return nil
	}
	return ag.nodeOf[d.Index]
}
